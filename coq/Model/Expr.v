(* Model for C03 -- query expressions mean what was built.

   Layers (all total, computable; definitions only, no proofs):
     builders   what Python object tree the operators / functions of
                sqlbuilder construct            (py_binop, py_unop, b_AND, ...)
     render     the token sequence __sqlrepr__ produces for a tree, per dialect
     show       the text of a token sequence (uniform spacing rule)
     sql_tokens what an SQL lexer makes of the rendered pieces (sign split)
     parse      a reference precedence-climbing SQL parser, parametrised by an
                arbitrary precedence table; std_table is the usual one
     denote     the SQL expression a Python tree stands for
     eval3      three-valued evaluation of SQL expressions over a row
     evaln      three-valued evaluation of the Python tree itself
     infer/wt   typing of the fragment the property speaks about
   The g_* versions run the definitions GENERATED from /repo (Gen/Expr.v);
   Proofs/ExprChar.v shows they coincide with the clean ones used in the
   theorems. *)
From Coq Require Import List ZArith NArith Bool String Ascii.
From Coq Require QArith.
From Lib Require Import ExprSyntax.
From Gen Require Import Expr.
Import ListNotations.
Open Scope Z_scope.

(* ================================================================ builders *)
Definition b_ISNULL (e : node) : node := NSQLOp OIs e (NAtom ANone).
Definition b_ISNOTNULL (e : node) : node := NSQLOp OIsNot e (NAtom ANone).
Definition b_NOT (e : node) : node := NSQLPrefix PNot e.
Definition b_IN_list (item l : node) : node := NSQLOp OIn item l.
Definition b_IN (item l : node) : node :=
  if is_select l then NINSubquery false item l else b_IN_list item l.
Definition b_NOTIN (item l : node) : node :=
  if is_select l then NINSubquery true item l else b_NOT (b_IN_list item l).
(* AND / OR with any number of operands: right-nested; one operand is returned unchanged;
   no operand gives Python None *)
Fixpoint b_fold (o : binop) (ops : list node) : node :=
  match ops with
  | [] => NAtom ANone
  | x :: r => match r with [] => x | _ :: _ => NSQLOp (OB o) x (b_fold o r) end
  end.
Definition b_AND := b_fold BAnd.
Definition b_OR := b_fold BOr.

Definition b_eq (self other : node) : node :=
  if is_none other then b_ISNULL self else NSQLOp (OB BEq) self other.
Definition b_ne (self other : node) : node :=
  if is_none other then b_ISNOTNULL self else NSQLOp (OB BNe) self other.

(* the operator methods of SQLExpression *)
Definition dunder_tbl (m : dunder) (self other : node) : node :=
  match m with
  | D_add => NSQLOp (OB BAdd) self other
  | D_radd => NSQLOp (OB BAdd) other self
  | D_sub => NSQLOp (OB BSub) self other
  | D_rsub => NSQLOp (OB BSub) other self
  | D_mul => NSQLOp (OB BMul) self other
  | D_rmul => NSQLOp (OB BMul) other self
  | D_truediv => NSQLOp (OB BDiv) self other
  | D_rtruediv => NSQLOp (OB BDiv) other self
  | D_mod => NSQLModulo self other
  | D_rmod => NSQLCall2 FMod other self
  | D_lt => NSQLOp (OB BLt) self other
  | D_le => NSQLOp (OB BLe) self other
  | D_gt => NSQLOp (OB BGt) self other
  | D_ge => NSQLOp (OB BGe) self other
  | D_eq => b_eq self other
  | D_ne => b_ne self other
  | D_and => NSQLOp (OB BAnd) self other
  | D_rand => NSQLOp (OB BAnd) other self
  | D_or => NSQLOp (OB BOr) self other
  | D_ror => NSQLOp (OB BOr) other self
  | D_neg => NSQLPrefix PNeg self
  | D_pos => NSQLPrefix PPos self
  | D_invert => NSQLPrefix PNot self
  end.

(* Python's binary / unary operators and how the interpreter dispatches them
   (data model, section 3.3.8): x OP y calls type(x).__op__ when x is an
   SQLExpression; otherwise the reflected method of y -- for comparisons the
   mirrored comparison. *)
Inductive pyop := PAdd | PSub | PMul | PDiv | PMod | PLt | PLe | PGt | PGe | PEq | PNe | PAnd | POr.
Inductive pyunop := UNeg | UPos | UInvert.

Definition is_expr (n : node) : bool :=
  match n with
  | NField _ | NSelect _ | NSQLOp _ _ _ | NSQLModulo _ _ | NSQLCall2 _ _ _ | NSQLPrefix _ _
  | NINSubquery _ _ _ => true
  | NAtom _ | NList _ | NBad => false
  end.
Definition fwd (o : pyop) : dunder :=
  match o with
  | PAdd => D_add | PSub => D_sub | PMul => D_mul | PDiv => D_truediv | PMod => D_mod
  | PLt => D_lt | PLe => D_le | PGt => D_gt | PGe => D_ge | PEq => D_eq | PNe => D_ne
  | PAnd => D_and | POr => D_or
  end.
Definition refl (o : pyop) : dunder :=
  match o with
  | PAdd => D_radd | PSub => D_rsub | PMul => D_rmul | PDiv => D_rtruediv | PMod => D_rmod
  | PLt => D_gt | PLe => D_ge | PGt => D_lt | PGe => D_le | PEq => D_eq | PNe => D_ne
  | PAnd => D_rand | POr => D_ror
  end.
Definition unop_dunder (u : pyunop) : dunder :=
  match u with UNeg => D_neg | UPos => D_pos | UInvert => D_invert end.

(* the Python classes of the fragment's objects and their proper-subclass relation:
   SQLModulo(SQLOp), NOTINSubquery(INSubquery) (the generator checks the bases) *)
Inductive pyclass := CField | CSQLOp | CSQLModulo | CSQLCall | CSQLPrefix | CINSub | CNOTINSub | CSelect | COther.
Definition class_of (n : node) : pyclass :=
  match n with
  | NField _ => CField | NSQLOp _ _ _ => CSQLOp | NSQLModulo _ _ => CSQLModulo
  | NSQLCall2 _ _ _ => CSQLCall | NSQLPrefix _ _ => CSQLPrefix
  | NINSubquery false _ _ => CINSub | NINSubquery true _ _ => CNOTINSub
  | NSelect _ => CSelect
  | _ => COther
  end.
Definition proper_subclass (sub sup : pyclass) : bool :=
  match sub, sup with CSQLModulo, CSQLOp | CNOTINSub, CINSub => true | _, _ => false end.
Definition is_comparison (o : pyop) : bool :=
  match o with PLt | PLe | PGt | PGe | PEq | PNe => true | _ => false end.

Section Dispatch.
  Variable tbl : dunder -> node -> node -> node.      (* SQLExpression's methods *)
  Variable feq fne : node -> node -> node.            (* SQLObjectField's own __eq__/__ne__ *)
  Definition call_dunder (m : dunder) (self other : node) : node :=
    match self, m with
    | NField _, D_eq => feq self other
    | NField _, D_ne => fne self other
    | _, _ => tbl m self other
    end.
  (* x OP y: the method of x; for a comparison whose right operand's class is a
     proper subclass of the left one's, the mirrored method of y first; with a
     constant on the left, the reflected / mirrored method of y.  (Arithmetic
     reflected methods get that priority only when the subclass overrides them,
     which none of these classes does.) *)
  Definition py_binop_with (o : pyop) (x y : node) : node :=
    if is_expr x then
      if is_comparison o && is_expr y && proper_subclass (class_of y) (class_of x)
      then call_dunder (refl o) y x
      else call_dunder (fwd o) x y
    else if is_expr y then call_dunder (refl o) y x
    else NBad.
  Definition py_unop_with (u : pyunop) (x : node) : node :=
    if is_expr x then call_dunder (unop_dunder u) x NBad else NBad.
End Dispatch.

Definition py_binop := py_binop_with dunder_tbl b_eq b_ne.
Definition py_unop := py_unop_with dunder_tbl b_eq b_ne.
(* the same, running the generated definitions *)
Definition g_py_binop := py_binop_with gen_dunder gen_field_eq gen_field_ne.
Definition g_py_unop := py_unop_with gen_dunder gen_field_eq gen_field_ne.

(* ================================================================ renderer *)
Definition is_lp_headed (s : list tok) : bool := match s with TLP :: _ => true | _ => false end.
Definition is_null_text (s : list tok) : bool := match s with [TNull] => true | _ => false end.
(* SQLOp.__sqlrepr__: an operand is parenthesised unless its text starts with
   "(" or is exactly NULL *)
Definition wrap (s : list tok) : list tok :=
  if is_lp_headed s || is_null_text s then s else TLP :: s ++ [TRP].
Definition sqlop_repr (op s1 s2 : list tok) : list tok :=
  TLP :: wrap s1 ++ op ++ wrap s2 ++ [TRP].
Definition atom_toks (a : atom) : list tok :=
  match a with AInt z => [TNum z] | AStr s => [TStr s] | ANone => [TNull] | AFlo h => [TFlo h] end.
Definition seq_repr (items : list (list tok)) : list tok :=
  TLP :: join_toks [TComma] items ++ [TRP].
Definition insub_op (neg : bool) : list tok := if neg then [TNot; TIn] else [TIn].
(* INSubquery.__sqlrepr__: "item IN (subquery)"; parenthesised as a whole when the
   item's own text starts with "(" (SQLOp would otherwise take the leading "(" of
   the item for a parenthesis around everything) *)
Definition insub_repr (op item sub : list tok) : list tok :=
  let s := item ++ op ++ [TLP] ++ sub ++ [TRP] in
  if is_lp_headed item then TLP :: s ++ [TRP] else s.

Fixpoint render (d : dialect) (n : node) : list tok :=
  match n with
  | NField c => [TCol c]
  | NAtom a => atom_toks a
  | NList l => seq_repr (map (render d) l)
  | NSelect k => [TSub k]
  | NSQLOp op a b => sqlop_repr (optoks op) (render d a) (render d b)
  | NSQLModulo a b =>
      if is_sqlite d then sqlop_repr [TOp BMod] (render d a) (render d b)
      else [TFn FMod; TLP] ++ render d a ++ [TComma] ++ render d b ++ [TRP]
  | NSQLCall2 f a b => TFn f :: seq_repr [render d a; render d b]
  | NSQLPrefix p a => prefixtoks p ++ render d a
  | NINSubquery neg a s => insub_repr (insub_op neg) (render d a) (render d s)
  | NBad => [TBad]
  end.

(* the same renderer built from the generated __sqlrepr__ bodies *)
Definition g_atom_toks (d : dialect) (a : atom) : list tok :=
  match a with ANone => gen_none_repr d | _ => atom_toks a end.
Fixpoint g_render (d : dialect) (n : node) : list tok :=
  match n with
  | NField c => [TCol c]
  | NAtom a => g_atom_toks d a
  | NList l => gen_seq_repr d (map (g_render d) l)
  | NSelect k => [TSub k]
  | NSQLOp op a b => gen_sqlop_repr d false (optoks op) (g_render d a) (g_render d b)
  | NSQLModulo a b => gen_modulo_repr d [TOp BMod] (g_render d a) (g_render d b)
  | NSQLCall2 f a b => gen_call_repr d [TFn f] (gen_seq_repr d [g_render d a; g_render d b])
  | NSQLPrefix p a => gen_prefix_repr d (prefixtoks p) (g_render d a)
  | NINSubquery neg a s => gen_insub_repr d (gen_insub_op neg) (g_render d a) (g_render d s)
  | NBad => [TBad]
  end.

(* ================================================================ text *)
Fixpoint codes (s : string) : list N :=
  match s with EmptyString => [] | String c r => N_of_ascii c :: codes r end.

Fixpoint uint_codes (u : Decimal.uint) : list N :=
  match u with
  | Decimal.Nil => []
  | Decimal.D0 r => 48%N :: uint_codes r | Decimal.D1 r => 49%N :: uint_codes r
  | Decimal.D2 r => 50%N :: uint_codes r | Decimal.D3 r => 51%N :: uint_codes r
  | Decimal.D4 r => 52%N :: uint_codes r | Decimal.D5 r => 53%N :: uint_codes r
  | Decimal.D6 r => 54%N :: uint_codes r | Decimal.D7 r => 55%N :: uint_codes r
  | Decimal.D8 r => 56%N :: uint_codes r | Decimal.D9 r => 57%N :: uint_codes r
  end.
Definition dec_N (n : N) : list N := uint_codes (N.to_uint n).
(* repr(int) *)
Definition dec_Z (z : Z) : list N :=
  if z <? 0 then 45%N :: dec_N (Z.to_N (- z)) else dec_N (Z.to_N z).

(* repr(float) of h/2: "n.0" or "n.5" *)
Definition dec_halves (h : Z) : list N :=
  let a := Z.abs h in
  (if h <? 0 then [45%N] else []) ++ dec_N (Z.to_N (Z.quot a 2)) ++ [46%N] ++
  (if Z.eqb (Z.rem a 2) 0 then [48%N] else [53%N]).

(* the names the correspondence harness gives its table, columns and subqueries *)
Definition table_name : list N := codes "c03t".
Definition col_text (c : col) : list N :=
  match c with
  | Col t i => table_name ++ [46%N] ++
               codes (match t with TyNum => "n" | TyStr => "s" | TyBool => "b" end) ++ dec_N i
  end.
Definition sub_text (k : N) : list N :=
  codes "SELECT c03u" ++ dec_N k ++ codes ".v FROM c03u" ++ dec_N k.
(* a string literal in the dialects' common form: quotes doubled.  (Backslashes
   and control characters, which MySQL/PostgreSQL escape differently, are the
   subject of C02 and never occur in C03's cases.) *)
Definition quote_codes (s : list N) : list N :=
  39%N :: flat_map (fun c => if N.eqb c 39 then [39%N; 39%N] else [c]) s ++ [39%N].

Definition op_text (o : binop) : list N :=
  codes (match o with
         | BAdd => "+" | BSub => "-" | BMul => "*" | BDiv => "/" | BMod => "%"
         | BEq => "=" | BNe => "<>" | BLt => "<" | BLe => "<=" | BGt => ">" | BGe => ">="
         | BAnd => "AND" | BOr => "OR"
         end).
Definition tok_text (t : tok) : list N :=
  match t with
  | TLP => codes "(" | TRP => codes ")" | TComma => codes ","
  | TOp o => op_text o
  | TNot => codes "NOT" | TIs => codes "IS" | TIn => codes "IN" | TNull => codes "NULL"
  | TNum z => dec_Z z
  | TFlo h => dec_halves h
  | TStr s => quote_codes s
  | TCol c => col_text c
  | TFn FMod => codes "MOD"
  | TSub k => sub_text k
  | TBad => codes "?"
  end.
(* the uniform spacing of every format string in the modelled __sqlrepr__ bodies
   (checked literal by literal by tools/py2coq/gen_expr.py): one space between
   two pieces, except after "(", before ")" and ",", and between a function
   name and its "(" *)
Definition nospace (x y : tok) : bool :=
  match x, y with
  | TLP, _ => true
  | _, TRP => true
  | _, TComma => true
  | TFn _, TLP => true
  | _, _ => false
  end.
Fixpoint show (ts : list tok) : list N :=
  match ts with
  | [] => []
  | t :: r =>
      match r with
      | [] => tok_text t
      | u :: _ => tok_text t ++ (if nospace t u then [] else [32%N]) ++ show r
      end
  end.

(* ================================================================ a reference SQL lexer *)
(* maximal munch over code points: spaces, ( ) , the operator characters,
   <= >= <>, quoted strings with doubled quotes, digit runs, words.  Words are
   classified through a table of the word-like tokens (keywords, MOD, the
   columns of the schema).  Fuel = the number of characters (one is consumed per
   step); LFuel / LErr are explicit outcomes. *)
Definition between (lo hi c : N) : bool := N.leb lo c && N.leb c hi.
Definition is_digit (c : N) : bool := between 48 57 c.
Definition is_alpha (c : N) : bool := between 65 90 c || between 97 122 c || N.eqb c 95.
Definition is_word_char (c : N) : bool := is_alpha c || is_digit c || N.eqb c 46.

Fixpoint span (p : N -> bool) (cs : list N) : list N * list N :=
  match cs with
  | [] => ([], [])
  | c :: r => if p c then let (a, b) := span p r in (c :: a, b) else ([], cs)
  end.
Definition digit_uint (c : N) (u : Decimal.uint) : option Decimal.uint :=
  match c with
  | 48%N => Some (Decimal.D0 u) | 49%N => Some (Decimal.D1 u) | 50%N => Some (Decimal.D2 u)
  | 51%N => Some (Decimal.D3 u) | 52%N => Some (Decimal.D4 u) | 53%N => Some (Decimal.D5 u)
  | 54%N => Some (Decimal.D6 u) | 55%N => Some (Decimal.D7 u) | 56%N => Some (Decimal.D8 u)
  | 57%N => Some (Decimal.D9 u)
  | _ => None
  end.
Fixpoint digits_uint (ds : list N) : option Decimal.uint :=
  match ds with
  | [] => Some Decimal.Nil
  | c :: r => match digits_uint r with Some u => digit_uint c u | None => None end
  end.
(* the body of a string literal, after the opening quote *)
Fixpoint scan_str (cs : list N) : option (list N * list N) :=
  match cs with
  | [] => None
  | c :: r =>
      if N.eqb c 39 then
        match r with
        | c2 :: r2 =>
            if N.eqb c2 39
            then match scan_str r2 with Some (s, rest) => Some (39%N :: s, rest) | None => None end
            else Some ([], r)
        | [] => Some ([], [])
        end
      else match scan_str r with Some (s, rest) => Some (c :: s, rest) | None => None end
  end.
Definition classify (words : list tok) (w : list N) : option tok :=
  find (fun t => codes_eqb (tok_text t) w) words.

Inductive lres := LOk (l : list tok) | LErr | LFuel.
Definition lcons (t : tok) (r : lres) : lres := match r with LOk l => LOk (t :: l) | e => e end.
(* after a digit run n: ".0" / ".5" (not followed by another digit) makes the
   float literal n.0 / n.5 (counted in halves); other fractions are not lexed *)
Definition num_tail (n : Z) (rest : list N) (k : list N -> lres) : lres :=
  match rest with
  | 46%N :: c2 :: rest2 =>
      if match rest2 with c3 :: _ => is_digit c3 | [] => false end then LErr
      else if N.eqb c2 48 then lcons (TFlo (2 * n)) (k rest2)
      else if N.eqb c2 53 then lcons (TFlo (2 * n + 1)) (k rest2)
      else LErr
  | _ => lcons (TNum n) (k rest)
  end.

Fixpoint lex_f (words : list tok) (f : nat) (cs : list N) {struct f} : lres :=
  match f with
  | O => LFuel
  | S f' =>
      match cs with
      | [] => LOk []
      | c :: r =>
          if N.eqb c 32 then lex_f words f' r
          else if N.eqb c 40 then lcons TLP (lex_f words f' r)
          else if N.eqb c 41 then lcons TRP (lex_f words f' r)
          else if N.eqb c 44 then lcons TComma (lex_f words f' r)
          else if N.eqb c 43 then lcons (TOp BAdd) (lex_f words f' r)
          else if N.eqb c 45 then lcons (TOp BSub) (lex_f words f' r)
          else if N.eqb c 42 then lcons (TOp BMul) (lex_f words f' r)
          else if N.eqb c 47 then lcons (TOp BDiv) (lex_f words f' r)
          else if N.eqb c 37 then lcons (TOp BMod) (lex_f words f' r)
          else if N.eqb c 61 then lcons (TOp BEq) (lex_f words f' r)
          else if N.eqb c 60 then
            match r with
            | c2 :: r2 =>
                if N.eqb c2 61 then lcons (TOp BLe) (lex_f words f' r2)
                else if N.eqb c2 62 then lcons (TOp BNe) (lex_f words f' r2)
                else lcons (TOp BLt) (lex_f words f' r)
            | [] => lcons (TOp BLt) (lex_f words f' [])
            end
          else if N.eqb c 62 then
            match r with
            | c2 :: r2 =>
                if N.eqb c2 61 then lcons (TOp BGe) (lex_f words f' r2)
                else lcons (TOp BGt) (lex_f words f' r)
            | [] => lcons (TOp BGt) (lex_f words f' [])
            end
          else if N.eqb c 39 then
            match scan_str r with
            | Some (s, rest) => lcons (TStr s) (lex_f words f' rest)
            | None => LErr
            end
          else if is_digit c then
            let (ds, rest) := span is_digit cs in
            match digits_uint ds with
            | Some u => num_tail (Z.of_N (N.of_uint u)) rest (lex_f words f')
            | None => LErr
            end
          else if is_alpha c then
            let (w, rest) := span is_word_char cs in
            match classify words w with
            | Some t => lcons t (lex_f words f' rest)
            | None => LErr
            end
          else LErr
      end
  end.
Definition lex (words : list tok) (cs : list N) : lres := lex_f words (S (List.length cs)) cs.

(* the word-like tokens of a schema *)
Definition keyword_tokens : list tok := [TNot; TIs; TIn; TNull; TFn FMod; TOp BAnd; TOp BOr].
Definition schema_words (cols : list col) : list tok := keyword_tokens ++ map TCol cols.
(* a usable word table: every text is a word (letter first), no two tokens share a text *)
Definition is_word_text (w : list N) : bool :=
  match w with c :: _ => is_alpha c && forallb is_word_char w | [] => false end.
Fixpoint distinct_texts (l : list tok) : bool :=
  match l with
  | [] => true
  | t :: r => negb (existsb (fun u => codes_eqb (tok_text t) (tok_text u)) r) && distinct_texts r
  end.
Definition is_word_token (t : tok) : bool :=
  match t with TNot | TIs | TIn | TNull | TFn _ | TOp BAnd | TOp BOr | TCol _ => true | _ => false end.
Definition words_ok (words : list tok) : bool :=
  forallb (fun t => is_word_token t && is_word_text (tok_text t)) words && distinct_texts words.
(* the columns of the correspondence harness' table *)
Definition harness_cols : list col :=
  [Col TyNum 0; Col TyNum 1; Col TyNum 2; Col TyStr 0; Col TyStr 1; Col TyBool 0; Col TyBool 1].

(* tokens the lexer can give back *)
Definition lexable (words : list tok) (t : tok) : bool :=
  match t with
  | TLP | TRP | TComma | TNum _ | TFlo _ | TStr _ => true
  | TOp BAnd | TOp BOr => existsb (tok_eqb t) words
  | TOp _ => true
  | TSub _ | TBad => false
  | _ => existsb (tok_eqb t) words
  end.
(* all columns of a tree belong to the schema *)
Fixpoint cols_in (cols : list col) (n : node) : bool :=
  match n with
  | NField c => existsb (col_eqb c) cols
  | NSQLOp _ a b | NSQLModulo a b | NSQLCall2 _ a b | NINSubquery _ a b => cols_in cols a && cols_in cols b
  | NSQLPrefix _ a => cols_in cols a
  | NList l => forallb (cols_in cols) l
  | _ => true
  end.

(* ================================================================ SQL side *)
(* what an SQL lexer makes of the pieces: a negative number is a minus sign
   followed by a non-negative literal *)
Definition split_num (t : tok) : list tok :=
  match t with
  | TNum z => if z <? 0 then [TOp BSub; TNum (- z)] else [t]
  | TFlo h => if h <? 0 then [TOp BSub; TFlo (- h)] else [t]
  | _ => [t]
  end.
Definition sql_tokens (ts : list tok) : list tok := flat_map split_num ts.

Inductive sx :=
| SCol (c : col) | SNum (z : Z) | SStr (s : list N) | SNull | SFlo (h : Z)
| SBin (o : binop) (a b : sx)
| SNeg (a : sx) | SPos (a : sx) | SNot (a : sx)
| SIsNull (neg : bool) (a : sx)                   (* a IS [NOT] NULL *)
| SIn (neg : bool) (a : sx) (l : list sx)         (* a [NOT] IN (expression, ...) *)
| SInSub (neg : bool) (a : sx) (k : N)            (* a [NOT] IN (subquery k) *)
| SBad.

(* a precedence table: a level for every binary operator, for prefix NOT, for
   the IS [NOT] NULL and the [NOT] IN postfix forms.  Unary +/- always bind
   tightest; binary operators associate to the left. *)
Record ptable := { p_bin : binop -> nat; p_not : nat; p_is : nat; p_in : nat }.
(* OR < AND < NOT < comparison, IS, IN < + - < * / % *)
Definition std_table : ptable :=
  {| p_bin := fun o => match o with
                       | BOr => 1 | BAnd => 2
                       | BEq | BNe | BLt | BLe | BGt | BGe => 4
                       | BAdd | BSub => 5
                       | BMul | BDiv | BMod => 6
                       end%nat;
     p_not := 3; p_is := 4; p_in := 4 |}.

Inductive pres (A : Type) := POk (a : A) | PErr | PFuel.
Arguments POk {A}. Arguments PErr {A}. Arguments PFuel {A}.
Definition pbind {A B} (m : pres A) (k : A -> pres B) : pres B :=
  match m with POk a => k a | PErr => PErr | PFuel => PFuel end.

(* what follows "IN (": a subquery, nothing, or a comma-separated list of
   expressions (read by `its`, the parser's own item reader) *)
Definition in_tail (neg : bool) (lhs : sx) (r : list tok)
           (its : list tok -> pres (list sx * list tok))
           (k : sx -> list tok -> pres (sx * list tok)) : pres (sx * list tok) :=
  match r with
  | TSub q :: TRP :: r' => k (SInSub neg lhs q) r'
  | TRP :: r' => k (SIn neg lhs []) r'
  | _ => pbind (its r) (fun y =>
           match snd y with
           | TRP :: r' => k (SIn neg lhs (fst y)) r'
           | _ => PErr
           end)
  end.

Section Parser.
  Variable pt : ptable.

  Fixpoint primary (f : nat) (ts : list tok) {struct f} : pres (sx * list tok) :=
    match f with
    | O => PFuel
    | S f' =>
        match ts with
        | TLP :: r =>
            pbind (parse f' O r) (fun x => match x with (e, TRP :: r') => POk (e, r') | _ => PErr end)
        | TCol c :: r => POk (SCol c, r)
        | TNum z :: r => POk (SNum z, r)
        | TFlo h :: r => POk (SFlo h, r)
        | TStr s :: r => POk (SStr s, r)
        | TNull :: r => POk (SNull, r)
        | TFn FMod :: TLP :: r =>
            pbind (parse f' O r) (fun x =>
              match x with
              | (a, TComma :: r1) =>
                  pbind (parse f' O r1) (fun y =>
                    match y with (b, TRP :: r2) => POk (SBin BMod a b, r2) | _ => PErr end)
              | _ => PErr
              end)
        | _ => PErr
        end
    end
  with unary (f : nat) (ts : list tok) {struct f} : pres (sx * list tok) :=
    match f with
    | O => PFuel
    | S f' =>
        match ts with
        | TOp BSub :: r => pbind (unary f' r) (fun x => POk (SNeg (fst x), snd x))
        | TOp BAdd :: r => pbind (unary f' r) (fun x => POk (SPos (fst x), snd x))
        | _ => primary f' ts
        end
    end
  with parse (f : nat) (minp : nat) (ts : list tok) {struct f} : pres (sx * list tok) :=
    match f with
    | O => PFuel
    | S f' =>
        match ts with
        | TNot :: r =>
            if Nat.leb minp (p_not pt)
            then pbind (parse f' (p_not pt) r) (fun x => loop f' minp (SNot (fst x)) (snd x))
            else PErr
        | _ => pbind (unary f' ts) (fun x => loop f' minp (fst x) (snd x))
        end
    end
  with loop (f : nat) (minp : nat) (lhs : sx) (ts : list tok) {struct f} : pres (sx * list tok) :=
    match f with
    | O => PFuel
    | S f' =>
        match ts with
        | TOp o :: r =>
            if Nat.leb minp (p_bin pt o)
            then pbind (parse f' (S (p_bin pt o)) r) (fun x => loop f' minp (SBin o lhs (fst x)) (snd x))
            else POk (lhs, ts)
        | TIs :: TNull :: r =>
            if Nat.leb minp (p_is pt) then loop f' minp (SIsNull false lhs) r else POk (lhs, ts)
        | TIs :: TNot :: TNull :: r =>
            if Nat.leb minp (p_is pt) then loop f' minp (SIsNull true lhs) r else POk (lhs, ts)
        | TIn :: TLP :: r =>
            if Nat.leb minp (p_in pt) then in_tail false lhs r (items f') (loop f' minp) else POk (lhs, ts)
        | TNot :: TIn :: TLP :: r =>
            if Nat.leb minp (p_in pt) then in_tail true lhs r (items f') (loop f' minp) else POk (lhs, ts)
        | _ => POk (lhs, ts)
        end
    end
  (* expression {, expression} *)
  with items (f : nat) (ts : list tok) {struct f} : pres (list sx * list tok) :=
    match f with
    | O => PFuel
    | S f' =>
        pbind (parse f' O ts) (fun x =>
          match snd x with
          | TComma :: r => pbind (items f' r) (fun y => POk (fst x :: fst y, snd y))
          | _ => POk ([fst x], snd x)
          end)
    end.
End Parser.

Inductive outcome := Parsed (e : sx) | SyntaxError | OutOfFuel.
Definition parse_fuel (ts : list tok) : nat := (8 * List.length ts + 8)%nat.
(* parse a complete token sequence *)
Definition parse_sql (pt : ptable) (ts : list tok) : outcome :=
  match parse pt (parse_fuel ts) O ts with
  | POk (e, []) => Parsed e
  | POk _ => SyntaxError
  | PErr => SyntaxError
  | PFuel => OutOfFuel
  end.
(* what the engine's front end makes of the rendered pieces *)
Definition parse_rendered (pt : ptable) (ts : list tok) : outcome := parse_sql pt (sql_tokens ts).

(* ================================================================ meaning *)
Definition num_sx (z : Z) : sx := if z <? 0 then SNeg (SNum (- z)) else SNum z.
Definition flo_sx (h : Z) : sx := if h <? 0 then SNeg (SFlo (- h)) else SFlo h.
Definition atom_sx (a : atom) : sx :=
  match a with AInt z => num_sx z | AStr s => SStr s | ANone => SNull | AFlo h => flo_sx h end.
(* the SQL expression a Python tree stands for *)
Fixpoint denote (n : node) : sx :=
  match n with
  | NField c => SCol c
  | NAtom a => atom_sx a
  | NSQLOp (OB o) a b => SBin o (denote a) (denote b)
  | NSQLOp OIs a (NAtom ANone) => SIsNull false (denote a)
  | NSQLOp OIsNot a (NAtom ANone) => SIsNull true (denote a)
  | NSQLOp OIn a (NList l) => SIn false (denote a) (map denote l)
  | NSQLModulo a b => SBin BMod (denote a) (denote b)
  | NSQLCall2 FMod a b => SBin BMod (denote a) (denote b)
  | NSQLPrefix PNeg a => SNeg (denote a)
  | NSQLPrefix PPos a => SPos (denote a)
  | NSQLPrefix PNot a => SNot (denote a)
  | NINSubquery neg a (NSelect k) => SInSub neg (denote a) k
  | _ => SBad
  end.

(* ---------------- values and three-valued logic *)
(* sqlite's storage classes in play: NULL, INTEGER, TEXT, REAL.  REAL values are
   kept as exact rationals: the correspondence only ever produces values that
   doubles represent exactly (halves, quotients by powers of two). *)
Inductive val := VNull | VInt (z : Z) | VStr (s : list N) | VReal (q : QArith_base.Q).
Inductive tv := TT | TF | TU.
Definition q_is_zero (q : QArith_base.Q) : bool := Z.eqb (QArith_base.Qnum q) 0.
Definition tv_of (v : val) : tv :=
  match v with
  | VNull => TU
  | VInt z => if z =? 0 then TF else TT
  | VStr _ => TU
  | VReal q => if q_is_zero q then TF else TT
  end.
Definition val_of_tv (t : tv) : val := match t with TT => VInt 1 | TF => VInt 0 | TU => VNull end.
Definition val_of_bool (b : bool) : val := VInt (if b then 1 else 0).
Definition and3 (a b : tv) : tv :=
  match a, b with TF, _ | _, TF => TF | TT, TT => TT | _, _ => TU end.
Definition or3 (a b : tv) : tv :=
  match a, b with TT, _ | _, TT => TT | TF, TF => TF | _, _ => TU end.
Definition not3 (a : tv) : tv := match a with TT => TF | TF => TT | TU => TU end.

Fixpoint codes_cmp (a b : list N) : comparison :=
  match a, b with
  | [], [] => Eq
  | [], _ :: _ => Lt
  | _ :: _, [] => Gt
  | x :: a', y :: b' => match N.compare x y with Eq => codes_cmp a' b' | c => c end
  end.
(* a number as a rational *)
Definition as_q (v : val) : option QArith_base.Q :=
  match v with VInt z => Some (QArith_base.inject_Z z) | VReal q => Some q | _ => None end.
Definition cmp_vals (x y : val) : option comparison :=
  match x, y with
  | VStr a, VStr b => Some (codes_cmp a b)
  | _, _ => match as_q x, as_q y with
            | Some p, Some q => Some (QArith_base.Qcompare p q)
            | _, _ => None
            end
  end.
Definition cmp_holds (o : binop) (c : comparison) : bool :=
  match o, c with
  | BEq, Eq | BNe, Lt | BNe, Gt | BLt, Lt | BLe, Lt | BLe, Eq | BGt, Gt | BGe, Gt | BGe, Eq => true
  | _, _ => false
  end.
(* CAST(q AS INTEGER): truncation toward zero *)
Definition q_trunc (q : QArith_base.Q) : Z := Z.quot (QArith_base.Qnum q) (Zpos (QArith_base.Qden q)).
(* sqlite's arithmetic: INTEGER op INTEGER stays INTEGER (/ truncates, % is the
   remainder); with a REAL operand + - * / are real; % casts both operands to
   INTEGER and gives a REAL; a zero divisor gives NULL *)
Definition v_bin (o : binop) (x y : val) : val :=
  match o with
  | BAnd => val_of_tv (and3 (tv_of x) (tv_of y))
  | BOr => val_of_tv (or3 (tv_of x) (tv_of y))
  | BEq | BNe | BLt | BLe | BGt | BGe =>
      match cmp_vals x y with Some c => val_of_bool (cmp_holds o c) | None => VNull end
  | _ =>
      match x, y with
      | VInt a, VInt b =>
          match o with
          | BAdd => VInt (a + b) | BSub => VInt (a - b) | BMul => VInt (a * b)
          | BDiv => if b =? 0 then VNull else VInt (Z.quot a b)
          | _ => if b =? 0 then VNull else VInt (Z.rem a b)
          end
      | _, _ =>
          match as_q x, as_q y with
          | Some p, Some q =>
              match o with
              | BAdd => VReal (QArith_base.Qplus p q)
              | BSub => VReal (QArith_base.Qminus p q)
              | BMul => VReal (QArith_base.Qmult p q)
              | BDiv => if q_is_zero q then VNull else VReal (QArith_base.Qdiv p q)
              | _ => if q_trunc q =? 0 then VNull
                     else VReal (QArith_base.inject_Z (Z.rem (q_trunc p) (q_trunc q)))
              end
          | _, _ => VNull
          end
      end
  end.
Definition v_neg (x : val) : val :=
  match x with VInt a => VInt (- a) | VReal q => VReal (QArith_base.Qopp q) | _ => VNull end.
Definition v_pos (x : val) : val := match x with VInt a => VInt a | VReal q => VReal q | _ => VNull end.
Definition v_not (x : val) : val := val_of_tv (not3 (tv_of x)).
Definition v_is_null (x : val) : bool := match x with VNull => true | _ => false end.
Definition v_isnull (neg : bool) (x : val) : val := val_of_bool (xorb neg (v_is_null x)).
Definition val_eqb (x y : val) : bool :=
  match x, y with
  | VInt a, VInt b => a =? b
  | VStr a, VStr b => codes_eqb a b
  | _, _ => match as_q x, as_q y with
            | Some p, Some q => QArith_base.Qeq_bool p q
            | _, _ => false
            end
  end.
(* x IN (l): over an empty list FALSE whatever x is; otherwise UNKNOWN for a NULL
   x, TRUE when some element equals x, UNKNOWN when none does but one is NULL *)
Definition in3 (x : val) (l : list val) : tv :=
  match l with
  | [] => TF
  | _ :: _ =>
      if v_is_null x then TU
      else if existsb (val_eqb x) l then TT
      else if existsb v_is_null l then TU else TF
  end.
Definition v_in (neg : bool) (x : val) (l : list val) : val :=
  val_of_tv (if neg then not3 (in3 x l) else in3 x l).
Definition atom_val (a : atom) : val :=
  match a with
  | AInt z => VInt z | AStr s => VStr s | ANone => VNull
  | AFlo h => VReal (QArith_base.Qmake h 2)
  end.

(* a row of the queried table and the contents of the subqueries *)
Record env := { e_col : col -> val; e_sub : N -> list val }.

Fixpoint eval3 (E : env) (e : sx) : val :=
  match e with
  | SCol c => e_col E c
  | SNum z => VInt z
  | SFlo h => VReal (QArith_base.Qmake h 2)
  | SStr s => VStr s
  | SNull => VNull
  | SBin o a b => v_bin o (eval3 E a) (eval3 E b)
  | SNeg a => v_neg (eval3 E a)
  | SPos a => v_pos (eval3 E a)
  | SNot a => v_not (eval3 E a)
  | SIsNull neg a => v_isnull neg (eval3 E a)
  | SIn neg a l => v_in neg (eval3 E a) (map (eval3 E) l)
  | SInSub neg a k => v_in neg (eval3 E a) (e_sub E k)
  | SBad => VNull
  end.

(* the Python tree evaluated directly (its intended meaning) *)
Fixpoint evaln (E : env) (n : node) : val :=
  match n with
  | NField c => e_col E c
  | NAtom a => atom_val a
  | NSQLOp (OB o) a b => v_bin o (evaln E a) (evaln E b)
  | NSQLOp OIs a (NAtom ANone) => v_isnull false (evaln E a)
  | NSQLOp OIsNot a (NAtom ANone) => v_isnull true (evaln E a)
  | NSQLOp OIn a (NList l) => v_in false (evaln E a) (map (evaln E) l)
  | NSQLModulo a b => v_bin BMod (evaln E a) (evaln E b)
  | NSQLCall2 FMod a b => v_bin BMod (evaln E a) (evaln E b)
  | NSQLPrefix PNeg a => v_neg (evaln E a)
  | NSQLPrefix PPos a => v_pos (evaln E a)
  | NSQLPrefix PNot a => v_not (evaln E a)
  | NINSubquery neg a (NSelect k) => v_in neg (evaln E a) (e_sub E k)
  | _ => VNull
  end.

(* a WHERE clause keeps the rows on which it is TRUE *)
Definition selected (v : val) : bool := match tv_of v with TT => true | _ => false end.

(* ================================================================ typing *)
Inductive ity := IAny | ITy (t : ty).      (* IAny: the NULL literal fits every type *)
Definition ity_is (i : ity) (t : ty) : bool := match i with IAny => true | ITy u => ty_eqb u t end.
Definition ity_compatible (a b : ity) : bool :=
  match a, b with ITy t, ITy u => ty_eqb t u | _, _ => true end.
Definition atom_ity (a : atom) : ity :=
  match a with AInt _ | AFlo _ => ITy TyNum | AStr _ => ITy TyStr | ANone => IAny end.
Inductive opkind := KArith | KCmp | KLogic.
Definition kind (o : binop) : opkind :=
  match o with
  | BAdd | BSub | BMul | BDiv | BMod => KArith
  | BAnd | BOr => KLogic
  | _ => KCmp
  end.
Definition is_list (n : node) : bool := match n with NList _ => true | _ => false end.

Fixpoint infer (n : node) : option ity :=
  match n with
  | NField (Col t _) => Some (ITy t)
  | NAtom a => Some (atom_ity a)
  | NList _ | NSelect _ | NBad => None
  | NSQLOp (OB o) a b =>
      match infer a, infer b with
      | Some x, Some y =>
          match kind o with
          | KArith => if ity_is x TyNum && ity_is y TyNum then Some (ITy TyNum) else None
          | KCmp => if ity_compatible x y then Some (ITy TyBool) else None
          | KLogic => if ity_is x TyBool && ity_is y TyBool then Some (ITy TyBool) else None
          end
      | _, _ => None
      end
  | NSQLOp OIn a b =>
      match infer a, b with
      | Some x, NList l =>
          if existsb (fun t => ity_is x t &&
                               forallb (fun c => match infer c with Some y => ity_is y t | None => false end) l)
                     [TyNum; TyStr]
          then Some (ITy TyBool) else None
      | _, _ => None
      end
  | NSQLOp _ a b =>
      match infer a with
      | Some _ => if is_none b then Some (ITy TyBool) else None
      | None => None
      end
  | NSQLModulo a b | NSQLCall2 _ a b =>
      match infer a, infer b with
      | Some x, Some y => if ity_is x TyNum && ity_is y TyNum then Some (ITy TyNum) else None
      | _, _ => None
      end
  | NSQLPrefix PNot a =>
      match infer a with Some x => if ity_is x TyBool then Some (ITy TyBool) else None | None => None end
  | NSQLPrefix _ a =>
      match infer a with Some x => if ity_is x TyNum then Some (ITy TyNum) else None | None => None end
  | NINSubquery _ a s =>
      match infer a with
      | Some x => if ity_is x TyNum && is_select s then Some (ITy TyBool) else None
      | None => None
      end
  end.
(* well-typed trees: the domain of the property *)
Definition wt (n : node) : bool := match infer n with Some _ => true | None => false end.
(* ... usable as a filter *)
Definition wt_filter (n : node) : bool :=
  match infer n with Some x => ity_is x TyBool | None => false end.

(* ================================================================ side conditions *)
Definition is_insub (n : node) : bool := match n with NINSubquery _ _ _ => true | _ => false end.
Definition is_notprefix (n : node) : bool := match n with NSQLPrefix PNot _ => true | _ => false end.
(* may stand directly after a unary sign / before IN (subquery) *)
Definition unary_ok (n : node) : bool := negb (is_insub n) && negb (is_notprefix n).

(* the purely syntactic well-formedness the parse theorem needs; implied by wt *)
Fixpoint wf (n : node) : bool :=
  match n with
  | NField _ | NAtom _ => true
  | NList _ | NSelect _ | NBad => false
  | NSQLOp (OB _) a b => wf a && wf b
  | NSQLOp OIn a b => wf a && match b with NList l => forallb wf l | _ => false end
  | NSQLOp _ a b => wf a && is_none b
  | NSQLModulo a b | NSQLCall2 _ a b => wf a && wf b
  | NSQLPrefix PNot a => wf a
  | NSQLPrefix _ a => wf a && unary_ok a
  | NINSubquery _ a s => wf a && unary_ok a && is_select s
  end.

(* an IN-subquery that renders itself parenthesised (its item's text starts with "(") *)
Definition closed_insub (d : dialect) (n : node) : bool :=
  match n with NINSubquery _ a _ => is_lp_headed (render d a) | _ => false end.

(* the one table-relative condition left: NOT directly over an unparenthesised
   "item IN (...)" needs NOT to bind no tighter than IN (true of std_table) *)
Fixpoint safe (pt : ptable) (d : dialect) (n : node) : bool :=
  match n with
  | NSQLOp (OB _) a b | NSQLModulo a b | NSQLCall2 _ a b => safe pt d a && safe pt d b
  | NSQLOp OIn a b => safe pt d a && match b with NList l => forallb (safe pt d) l | _ => true end
  | NSQLOp _ a b => safe pt d a
  | NSQLPrefix PNot a =>
      safe pt d a && (if is_insub a && negb (closed_insub d a) then Nat.leb (p_not pt) (p_in pt) else true)
  | NSQLPrefix _ a => safe pt d a
  | NINSubquery _ a _ => safe pt d a
  | _ => true
  end.

Fixpoint no_subquery (n : node) : bool :=
  match n with
  | NSQLOp _ a b | NSQLModulo a b | NSQLCall2 _ a b => no_subquery a && no_subquery b
  | NSQLPrefix _ a => no_subquery a
  | NINSubquery _ _ _ | NSelect _ => false
  | NList l => forallb no_subquery l
  | _ => true
  end.

Definition is_cmp (o : binop) : bool := match kind o with KCmp => true | _ => false end.
