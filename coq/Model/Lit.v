(* Model for C02: how SQLObject turns Python values into SQL text, and how the
   library's statement templates place that text.  Definitions only.

   The converters themselves are the GENERATED functions of Gen/Lit.v
   (transliterated from converters.py on every run); this file only adds the
   registry dispatch by value type (sqlrepr), the recursion of
   SequenceConverter, the statement templates' glue, and the token skeletons
   the theorems speak about. *)
From Coq Require Import List NArith ZArith Bool.
From Lib Require Import Str Lex.
From Gen Require Import Lit.
Import ListNotations.
Open Scope N_scope.

(* Python values given as data *)
Inductive value :=
| VStr (s : str)
| VInt (z : Z)
| VBool (b : bool)
| VNone
| VDate (y m d : N)
| VDateTime (y m d hh mm ss us : N)
| VTime (hh mm ss us : N)
| VSeq (l : list value).          (* tuple / list / dict keys / set *)

Fixpoint sequence {A} (l : list (option A)) : option (list A) :=
  match l with
  | [] => Some []
  | x :: r => match x, sequence r with Some a, Some b => Some (a :: b) | _, _ => None end
  end.

(* converters.sqlrepr(v, db): dispatch on the Python type through the registry *)
Fixpoint render (d : dialect) (v : value) : option str :=
  match v with
  | VStr s => gen_StringLikeConverter d s
  | VInt z => gen_IntConverter d z
  | VBool b => gen_BoolConverter d b
  | VNone => gen_NoneConverter d
  | VDate y m dd => gen_DateConverter d y m dd
  | VDateTime y m dd hh mm ss us => gen_DateTimeConverterMS d y m dd hh mm ss us
  | VTime hh mm ss us => gen_TimeConverterMS d hh mm ss us
  | VSeq l => obind (sequence (map (render d) l)) (gen_SequenceConverter d)
  end.

Definition render_all (d : dialect) (vs : list value) : option (list str) := sequence (map (render d) vs).

(* ---------------------------------------------------------------- statement templates *)
(* DBAPI._insertSQL(table, names, values) *)
Definition insert_sql (d : dialect) (table : str) (names : list str) (values : list value) : option str :=
  obind (render_all d values) (gen_insertSQL table names).

(* DBAPI._SO_update(so, [(dbName, value) ...]) *)
Definition update_sql (d : dialect) (table idname : str) (id : value) (sets : list (str * value)) : option str :=
  obind (render d id) (fun rid =>
  obind (render_all d (map snd sets)) (fun rs =>
  gen_SO_update table idname rid (map (fun p => gen_update_item (fst p) (snd p)) (combine (map fst sets) rs)))).

(* DBAPI._SO_columnClause: `name = lit AND name IS NULL AND ...` *)
Definition is_none (v : value) : bool := match v with VNone => true | _ => false end.
Definition clause_sql (d : dialect) (items : list (str * value)) : option str :=
  obind (render_all d (map snd items)) (fun rs =>
  Some (join gen_clause_sep
          (map (fun p => gen_clause_item (fst (fst p)) (is_none (snd (fst p))) (snd p)) (combine items rs)))).

(* column == value  (SQLObjectField.__eq__: ISNULL for None, SQLOp('=') otherwise) *)
Definition s_eq : str := [61].
Definition s_IS : str := [73; 83].
Definition s_IN : str := [73; 78].
Definition eq_sql (d : dialect) (col : str) (v : value) : option str :=
  obind (render d v) (fun r => gen_SQLOp (if is_none v then s_IS else s_eq) col r).
(* IN(column, sequence) *)
Definition in_sql (d : dialect) (col : str) (vs : list value) : option str :=
  obind (render d (VSeq vs)) (fun r => gen_SQLOp s_IN col r).

(* ---------------------------------------------------------------- what the literal denotes *)
Definition pg_bool (b : bool) : str := if b then [116] else [102].
Definition s_NULL : str := [78; 85; 76; 76].

Definition date_text (y m d : N) : str := fixed 4 y ++ [45] ++ fixed 2 m ++ [45] ++ fixed 2 d.
Definition time_text (hh mm ss us : N) : str :=
  fixed 2 hh ++ [58] ++ fixed 2 mm ++ [58] ++ fixed 2 ss ++ [46] ++ fixed 6 us.

Fixpoint sep_tokens (sep : token) (l : list (list token)) : list token :=
  match l with
  | [] => []
  | [x] => x
  | x :: r => x ++ sep :: sep_tokens sep r
  end.

(* the token(s) a value must occupy: one literal token per scalar; a sequence
   is `(` lit `,` lit ... `)` *)
Fixpoint lit_tokens (d : dialect) (v : value) : list token :=
  match v with
  | VStr s => [TStr s]
  | VInt z => [TNum z]
  | VBool b => match d with Postgres => [TStr (pg_bool b)] | _ => [TNum (if b then 1 else 0)%Z] end
  | VNone => [TWord s_NULL]
  | VDate y m dd => [TStr (date_text y m dd)]
  | VDateTime y m dd hh mm ss us => [TStr (date_text y m dd ++ [32] ++ time_text hh mm ss us)]
  | VTime hh mm ss us => [TStr (time_text hh mm ss us)]
  | VSeq l => TPunct c_lp :: sep_tokens (TPunct c_comma) (map (lit_tokens d) l) ++ [TPunct c_rp]
  end.

(* ---------------------------------------------------------------- which strings a backend can take *)
(* a backslash immediately followed by LF or CR LF (Transact-SQL line continuation) *)
Fixpoint has_continuation (s : str) : bool :=
  match s with
  | [] => false
  | c :: r =>
      ((c =? c_bsl) &&
       match r with
       | c2 :: r2 => (c2 =? c_lf) || ((c2 =? c_cr) && match r2 with c3 :: _ => c3 =? c_lf | [] => false end)
       | [] => false
       end)
      || has_continuation r
  end.

(* the guard of the two known trigger classes:
   postgres -- the string holds a NUL (rendered \0, which an E'' literal reads as an octal escape);
   sybase/mssql -- the string holds backslash + line break (removed by the T-SQL lexer) *)
Definition str_ok (d : dialect) (s : str) : bool :=
  match d with
  | Postgres => negb (contains c_nul s)
  | Sybase | Mssql => negb (has_continuation s)
  | _ => true
  end.

Fixpoint value_ok (d : dialect) (v : value) : bool :=
  match v with
  | VStr s => str_ok d s
  | VSeq l => forallb (value_ok d) l
  | _ => true
  end.

(* identifiers (table / column names) are developer input: sqlbuilder.sqlIdentifier *)
Definition safe_ident (w : str) : bool :=
  match w with
  | c :: r => is_alpha c && forallb is_word_char r
  | [] => false
  end.

(* the Python sqlite3 driver refuses a statement that contains a NUL character
   (ProgrammingError: the query contains a null character) -- observed on every run *)
Definition sqlite_accepts (text : str) : bool := negb (contains c_nul text).

(* ---------------------------------------------------------------- token skeletons *)
Definition w_INSERT : str := [73; 78; 83; 69; 82; 84].
Definition w_INTO : str := [73; 78; 84; 79].
Definition w_VALUES : str := [86; 65; 76; 85; 69; 83].
Definition w_UPDATE : str := [85; 80; 68; 65; 84; 69].
Definition w_SET : str := [83; 69; 84].
Definition w_WHERE : str := [87; 72; 69; 82; 69].
Definition w_AND : str := [65; 78; 68].

Definition insert_skeleton (d : dialect) (table : str) (names : list str) (values : list value) : list token :=
  [TWord w_INSERT; TWord w_INTO; TWord table; TPunct c_lp]
  ++ sep_tokens (TPunct c_comma) (map (fun n => [TWord n]) names)
  ++ [TPunct c_rp; TWord w_VALUES; TPunct c_lp]
  ++ sep_tokens (TPunct c_comma) (map (lit_tokens d) values)
  ++ [TPunct c_rp].

Definition update_skeleton (d : dialect) (table idname : str) (id : value) (sets : list (str * value)) : list token :=
  [TWord w_UPDATE; TWord table; TWord w_SET]
  ++ sep_tokens (TPunct c_comma)
       (map (fun p => [TWord (fst p); TPunct c_eq; TPunct c_lp] ++ lit_tokens d (snd p) ++ [TPunct c_rp]) sets)
  ++ [TWord w_WHERE; TWord idname; TPunct c_eq; TPunct c_lp] ++ lit_tokens d id ++ [TPunct c_rp].

Definition clause_skeleton (d : dialect) (items : list (str * value)) : list token :=
  sep_tokens (TWord w_AND)
    (map (fun p => [TWord (fst p); (if is_none (snd p) then TWord s_IS else TPunct c_eq)] ++ lit_tokens d (snd p)) items).

(* ((col) = (lit))   /   ((col) IS NULL) *)
Definition eq_skeleton (d : dialect) (col : str) (v : value) : list token :=
  [TPunct c_lp; TPunct c_lp; TWord col; TPunct c_rp]
  ++ (if is_none v then [TWord s_IS; TWord s_NULL]
      else match v with
           | VSeq _ => TPunct c_eq :: lit_tokens d v
           | _ => [TPunct c_eq; TPunct c_lp] ++ lit_tokens d v ++ [TPunct c_rp]
           end)
  ++ [TPunct c_rp].

(* ((col) IN (lit, lit, ...)) *)
Definition in_skeleton (d : dialect) (col : str) (vs : list value) : list token :=
  [TPunct c_lp; TPunct c_lp; TWord col; TPunct c_rp; TWord s_IN] ++ lit_tokens d (VSeq vs) ++ [TPunct c_rp].

(* ---------------------------------------------------------------- the members of a rendered list *)
(* func.NAME(v1, ..., vn) -- sqlbuilder.SQLCall.__sqlrepr__: the rendered name followed by the rendered argument tuple *)
Definition call_sql (d : dialect) (name : str) (vs : list value) : option str :=
  obind (render d (VSeq vs)) (fun r => Some (name ++ r)).
Definition call_skeleton (d : dialect) (name : str) (vs : list value) : list token :=
  TWord name :: lit_tokens d (VSeq vs).

Definition is_punct (c : ch) (t : token) : bool := match t with TPunct x => x =? c | _ => false end.

(* depth of parentheses after token t *)
Definition depth_after (depth : nat) (t : token) : nat :=
  if is_punct c_lp t then S depth else if is_punct c_rp t then pred depth else depth.

(* cut a token list at the commas that are outside every parenthesis (depth 0);
   the result always has a first (possibly empty) member *)
Fixpoint split_top (depth : nat) (l : list token) : list (list token) :=
  match l with
  | [] => [[]]
  | t :: r =>
      if is_punct c_comma t && Nat.eqb depth 0 then [] :: split_top 0 r
      else match split_top (depth_after depth t) r with
           | x :: xs => (t :: x) :: xs
           | [] => [[t]]
           end
  end.

(* the members of a parenthesised list `(` m1 `,` m2 ... `)`: None when the tokens are not
   enclosed in one pair of parentheses; `()` has no member *)
Definition members (l : list token) : option (list (list token)) :=
  match l with
  | t :: r =>
      if is_punct c_lp t && is_punct c_rp (last r t) then
        Some (match removelast r with [] => [] | body => split_top 0 body end)
      else None
  | [] => None
  end.
