(* Model for C10.  Hand-written reference semantics (Python list slicing, the
   meaning of each dialect's LIMIT/OFFSET tail) and the evaluator that drives
   the GENERATED window arithmetic (Gen/Slice.v).  Definitions only. *)
From Coq Require Import List ZArith Bool.
From Lib Require Import PyLite.
From Gen Require Import Slice.
Import ListNotations.
Open Scope Z_scope.

Inductive outcome (R : Type) := Good (r : R) | PyErr (e : exn) | DbReject.
Arguments Good {R}. Arguments PyErr {R}. Arguments DbReject {R}.

Definition lift {R} (r : res R) : outcome R :=
  match r with Ok x => Good x | Err e => PyErr e end.
Definition obind {R S} (m : outcome R) (f : R -> outcome S) : outcome S :=
  match m with Good x => f x | PyErr e => PyErr e | DbReject => DbReject end.

Inductive dialect := Sqlite | Mysql | Postgres.

(* clause order of the generated statement text: x is appended before y *)
Definition clause_eqb (a b : clause) : bool :=
  match a, b with
  | CL_DISTINCT, CL_DISTINCT | CL_FROM, CL_FROM | CL_WHERE, CL_WHERE | CL_GROUPBY, CL_GROUPBY | CL_HAVING, CL_HAVING
  | CL_ORDERBY, CL_ORDERBY | CL_WINDOW, CL_WINDOW | CL_FORUPDATE, CL_FORUPDATE => true
  | _, _ => false
  end.
Fixpoint appended_before (x y : clause) (l : list clause) : bool :=
  match l with
  | [] => false
  | c :: r => if clause_eqb c x then existsb (clause_eqb y) r else if clause_eqb c y then false else appended_before x y r
  end.

Section WithA.
Context {A : Type}.

(* first n / all but the first n elements, counted in Z so that huge counts
   (MySQL's 2^64-1) never become unary numbers *)
Fixpoint take (n : Z) (l : list A) : list A :=
  match l with [] => [] | x :: r => if n <=? 0 then [] else x :: take (n - 1) r end.
Fixpoint drop (n : Z) (l : list A) : list A :=
  match l with [] => [] | x :: r => if n <=? 0 then l else drop (n - 1) r end.

(* ---------- Python list semantics (reference; Objects/sliceobject.c) ---------- *)
Definition zlen (l : list A) : Z := Z.of_nat (length l).

Definition norm_bound (len : Z) (x : option Z) (dflt : Z) : Z :=
  match x with
  | None => dflt
  | Some x => if x <? 0 then Z.max (x + len) 0 else Z.min x len
  end.

Definition pyslice (a b : option Z) (l : list A) : list A :=
  let len := zlen l in
  let lo := norm_bound len a 0 in
  let hi := norm_bound len b len in
  take (hi - lo) (drop lo l).

Definition pyindex (i : Z) (l : list A) : res A :=
  let len := zlen l in
  let j := if i <? 0 then i + len else i in
  if (j <? 0) || (len <=? j) then Err E_Index
  else match drop j l with x :: _ => Ok x | [] => Err E_Index end.

(* ---------- what a database does with the LIMIT/OFFSET tail ---------- *)


(* None = the engine rejects the statement *)
Definition run_clause (d : dialect) (c : list tok) (l : list A) : option (list A) :=
  match d, c with
  (* SQLite: a negative LIMIT means no limit, a negative OFFSET means 0 *)
  | Sqlite, [TKw K_LIMIT; TNum (VInt n)] =>
      Some (if n <? 0 then l else take n l)
  | Sqlite, [TKw K_LIMIT; TNum (VInt n); TKw K_OFFSET; TNum (VInt m)] =>
      let l' := drop (Z.max m 0) l in Some (if n <? 0 then l' else take n l')
  (* MySQL: LIMIT [offset,] row_count, both non-negative integer constants
     (that a constant above 2^64-1 is refused is not modelled) *)
  | Mysql, [TKw K_LIMIT; TNum (VInt n)] =>
      if 0 <=? n then Some (take n l) else None
  | Mysql, [TKw K_LIMIT; TNum (VInt m); TComma; TNum (VInt n)] =>
      if (0 <=? m) && (0 <=? n) then Some (take n (drop m l)) else None
  (* PostgreSQL: LIMIT n / OFFSET m / LIMIT n OFFSET m; negative is an error *)
  | Postgres, [TKw K_LIMIT; TNum (VInt n)] =>
      if 0 <=? n then Some (take n l) else None
  | Postgres, [TKw K_OFFSET; TNum (VInt m)] =>
      if 0 <=? m then Some (drop m l) else None
  | Postgres, [TKw K_LIMIT; TNum (VInt n); TKw K_OFFSET; TNum (VInt m)] =>
      if (0 <=? n) && (0 <=? m) then Some (take n (drop m l)) else None
  | _, _ => None
  end.

Definition limit_offset (d : dialect) :=
  match d with Sqlite => limit_offset_sqlite | Mysql => limit_offset_mysql
             | Postgres => limit_offset_postgres end.

(* ---------- executing a SelectResults with window ops (start, end) ---------- *)

(* list(select) : `full` is the complete, ordered result of the query *)
Definition run_select (d : dialect) (full : list A) (s e : pv) : outcome (list A) :=
  obind (lift (select_has_window s e)) (fun has =>
  if has then
    obind (lift (limit_offset d s e)) (fun c =>
    match run_clause d c full with Some r => Good r | None => DbReject end)
  else Good full).

Definition opt_pv (o : option Z) : pv := match o with None => VNone | Some z => VInt z end.
Definition pv_opt (v : pv) : res (option Z) :=
  match v with VNone => Ok None | VInt z => Ok (Some z) | VBool _ => Err E_Type end.

(* A value in the middle of a chain: still a SelectResults, or already a list *)
Inductive sel := SWin (s e : pv) | SList (l : list A).

Definition step_slice (d : dialect) (full : list A) (x : sel) (ab : option Z * option Z)
  : outcome sel :=
  let '(a, b) := ab in
  match x with
  | SList l => Good (SList (pyslice a b l))
  | SWin s e =>
      obind (lift (getitem_slice s e (opt_pv a) (opt_pv b))) (fun r =>
      match r with
      | RSelf => Good (SWin s e)
      | RWin s' e' => Good (SWin s' e')
      | RList a' b' =>
          obind (lift (pv_opt a')) (fun a' => obind (lift (pv_opt b')) (fun b' =>
          obind (run_select d full s e) (fun l => Good (SList (pyslice a' b' l)))))
      | _ => PyErr E_Other
      end)
  end.

Fixpoint run_chain (d : dialect) (full : list A) (x : sel) (chain : list (option Z * option Z))
  : outcome sel :=
  match chain with
  | [] => Good x
  | ab :: rest => obind (step_slice d full x ab) (fun x' => run_chain d full x' rest)
  end.

Definition materialise (d : dialect) (full : list A) (x : sel) : outcome (list A) :=
  match x with SList l => Good l | SWin s e => run_select d full s e end.

Definition step_index (d : dialect) (full : list A) (x : sel) (i : Z) : outcome A :=
  match x with
  | SList l => lift (pyindex i l)
  | SWin s e =>
      obind (lift (getitem_index s e (VInt i))) (fun r =>
      match r with
      | RListIdx (VInt j) => obind (run_select d full s e) (fun l => lift (pyindex j l))
      | RWinIdx0 s' e' => obind (run_select d full s' e') (fun l => lift (pyindex 0 l))
      | _ => PyErr E_Other
      end)
  end.

(* the library: select[a1:b1][a2:b2]... then list(...) or [...][i] *)
Definition impl_list (d : dialect) (full : list A) chain : outcome (list A) :=
  obind (run_chain d full (SWin (VInt 0) VNone) chain) (materialise d full).
Definition impl_index (d : dialect) (full : list A) chain (i : Z) : outcome A :=
  obind (run_chain d full (SWin (VInt 0) VNone) chain) (fun x => step_index d full x i).

(* the specification: the same chain on the Python list of all rows *)
Definition spec_list (full : list A) (chain : list (option Z * option Z)) : list A :=
  fold_left (fun l ab => pyslice (fst ab) (snd ab) l) chain full.
Definition spec_index (full : list A) chain (i : Z) : outcome A :=
  lift (pyindex i (spec_list full chain)).

(* limit(n) *)
Definition impl_limit (d : dialect) (full : list A) chain (n : Z) : outcome (list A) :=
  obind (run_chain d full (SWin (VInt 0) VNone) chain) (fun x =>
  match x with
  | SList l => PyErr E_Type      (* a Python list has no .limit *)
  | SWin s e =>
      obind (lift (limit_call s e (VInt n))) (fun r =>
      match r with
      | RSelf => run_select d full s e
      | RWin s' e' => run_select d full s' e'
      | RList a' b' =>
          obind (lift (pv_opt a')) (fun a' => obind (lift (pv_opt b')) (fun b' =>
          obind (run_select d full s e) (fun l => Good (pyslice a' b' l))))
      | _ => PyErr E_Other
      end)
  end).

(* ---------- Cls.select(limit=k): the window the constructor sets ---------- *)
Definition ctor_start (k : option Z) : outcome sel :=
  match k with
  | None => Good (SWin (VInt 0) VNone)
  | Some k => obind (lift (ctor_limit (VInt k) VNone VNone)) (fun w =>
              match w with Some (s, e) => Good (SWin s e) | None => Good (SWin (VInt 0) VNone) end)
  end.

(* the library: select(limit=k)[a1:b1][a2:b2]... then list(...), [...][i] or .limit(n) *)
Definition impl_list_from (d : dialect) (full : list A) (k : option Z) chain : outcome (list A) :=
  obind (ctor_start k) (fun x0 => obind (run_chain d full x0 chain) (materialise d full)).
Definition impl_index_from (d : dialect) (full : list A) (k : option Z) chain (i : Z) : outcome A :=
  obind (ctor_start k) (fun x0 => obind (run_chain d full x0 chain) (fun x => step_index d full x i)).
Definition limit_at (d : dialect) (full : list A) (x : sel) (n : Z) : outcome (list A) :=
  match x with
  | SList l => PyErr E_Type
  | SWin s e =>
      obind (lift (limit_call s e (VInt n))) (fun r =>
      match r with
      | RSelf => run_select d full s e
      | RWin s' e' => run_select d full s' e'
      | RList a' b' =>
          obind (lift (pv_opt a')) (fun a' => obind (lift (pv_opt b')) (fun b' =>
          obind (run_select d full s e) (fun l => Good (pyslice a' b' l))))
      | _ => PyErr E_Other
      end)
  end.
Definition impl_limit_from (d : dialect) (full : list A) (k : option Z) chain (n : Z) : outcome (list A) :=
  obind (ctor_start k) (fun x0 => obind (run_chain d full x0 chain) (fun x => limit_at d full x n)).

End WithA.
