(* Model for C14 -- generated schema matches the class declaration.
   Definitions only (no proofs).

   * strings are lists of code points; SQL text is modelled at TOKEN level
     (words, string literals as single tokens, parentheses, commas);
   * `create_table d caps decl` mirrors dbconnection.createTableSQL /
     createColumns / <dialect>.createIDColumn / col.SO*Col.<dialect>CreateSQL /
     _extraSQL for the seven dialects, bugs included;
   * `read_ddl` is the reference DDL reader (the specification side), and
     `skeleton_of` the skeleton a declaration denotes;
   * styles.mixedToUnder / underToMixed, main._getJoinsToCreate,
     index.*CreateIndexSQL, _SO_createJoinTableSQL;
   * a small schema/db state machine for createTable(ifNotExists),
     dropTable(ifExists), sqlmeta.addColumn/delColumn(changeSchema=True) on the
     sqlite code path. *)
From Coq Require Import List ZArith NArith Bool String Ascii.
Import ListNotations.
Open Scope string_scope.
Open Scope list_scope.
Open Scope N_scope.

(* ------------------------------------------------------------------ strings *)
Definition str := list N.

Fixpoint s2l (s : string) : str :=
  match s with
  | EmptyString => []
  | String a r => N_of_ascii a :: s2l r
  end.

Fixpoint str_eqb (a b : str) : bool :=
  match a, b with
  | [], [] => true
  | x :: a', y :: b' => (x =? y) && str_eqb a' b'
  | _, _ => false
  end.

(* Python's `a > b` on str: lexicographic on code points *)
Fixpoint str_gtb (a b : str) : bool :=
  match a, b with
  | [], _ => false
  | _ :: _, [] => true
  | x :: a', y :: b' => if x =? y then str_gtb a' b' else y <? x
  end.
Definition str_leb (a b : str) : bool := negb (str_gtb a b).

Definition is_upper (c : N) : bool := (65 <=? c) && (c <=? 90).
Definition is_lower (c : N) : bool := (97 <=? c) && (c <=? 122).
Definition lower_c (c : N) : N := if is_upper c then c + 32 else c.
Definition upper_c (c : N) : N := if is_lower c then c - 32 else c.
Definition upper_s (s : str) : str := map upper_c s.
Definition is_ascii (s : str) : bool := forallb (fun c => c <? 128) s.

Fixpoint ends_with (s suf : str) : bool :=
  if str_eqb s suf then true
  else match s with [] => false | _ :: r => ends_with r suf end.

Fixpoint mem_str (x : str) (l : list str) : bool :=
  match l with [] => false | y :: r => str_eqb x y || mem_str x r end.

(* decimal digits of a non-negative number (fuel = number of bits, never big) *)
Fixpoint digits_fuel (fuel : nat) (n : N) (acc : str) : str :=
  match fuel with
  | O => acc
  | S f => let q := n / 10 in
           let acc' := (48 + n mod 10) :: acc in
           if q =? 0 then acc' else digits_fuel f q acc'
  end.
Definition digits (n : N) : str := digits_fuel (S (N.to_nat (N.size n))) n [].

(* ------------------------------------------------------------------ tokens *)
Inductive tok :=
| W (s : str)        (* word: keyword, name, number *)
| Lit (s : str)      (* string literal, complete rendered text *)
| LP | RP | Comma | Semi
| Sym (c : N).       (* any other punctuation character *)

Definition tok_eqb (a b : tok) : bool :=
  match a, b with
  | W x, W y => str_eqb x y
  | Lit x, Lit y => str_eqb x y
  | LP, LP | RP, RP | Comma, Comma | Semi, Semi => true
  | Sym x, Sym y => x =? y
  | _, _ => false
  end.

Definition kw (s : string) : tok := W (s2l s).
Definition kws (l : list string) : list tok := map kw l.

(* %i / %d of a Python int *)
Definition int_toks (z : Z) : list tok :=
  match z with
  | Zneg p => [Sym 45; W (digits (Npos p))]
  | Z0 => [W (digits 0)]
  | Zpos p => [W (digits (Npos p))]
  end.

Fixpoint sep_by {A} (sep : list A) (l : list (list A)) : list A :=
  match l with
  | [] => []
  | [x] => x
  | x :: r => x ++ sep ++ sep_by sep r
  end.

(* ------------------------------------------------------------------ styles *)
Definition c_us : N := 95.   (* '_' *)

(* re.sub('[A-Z]+', mixedToUnderSub, s): `run` holds the lower-cased current
   run of capitals, reversed *)
Definition flush_run (run : str) : str :=
  match run with
  | [] => []
  | [c] => [c_us; c]
  | c :: r => c_us :: rev r ++ [c_us; c]
  end.
Fixpoint m2u_sub (s : str) (run : str) : str :=
  match s with
  | [] => flush_run run
  | c :: r => if is_upper c then m2u_sub r (lower_c c :: run)
              else flush_run run ++ c :: m2u_sub r []
  end.
Definition strip_us (s : str) : str :=
  match s with c :: r => if c =? c_us then r else s | [] => [] end.
Definition m2u_core (s : str) : str := strip_us (m2u_sub s []).
Definition drop_last (n : nat) (s : str) : str := firstn (List.length s - n)%nat s.
Definition mixedToUnder (s : str) : str :=
  if ends_with s (s2l "ID") then m2u_core (drop_last 2 s ++ s2l "_id") else m2u_core s.

(* re.sub('_.', lambda m: m.group(0)[1].upper(), name); '.' does not match '\n' *)
Fixpoint u2m_sub (s : str) : str :=
  match s with
  | [] => []
  | c :: r =>
      if c =? c_us then
        match r with
        | c2 :: r2 => if c2 =? 10 then c :: u2m_sub r else upper_c c2 :: u2m_sub r2
        | [] => [c]
        end
      else c :: u2m_sub r
  end.
Definition underToMixed (s : str) : str :=
  if ends_with s (s2l "_id") then u2m_sub (drop_last 3 s ++ s2l "ID") else u2m_sub s.

Definition capword (s : str) : str := match s with c :: r => upper_c c :: r | [] => [] end.
Definition lowerword (s : str) : str := match s with c :: r => lower_c c :: r | [] => [] end.

Inductive style_kind := StDefault | StMixed | StPlain.
Record style := { st_kind : style_kind; st_longid : bool }.

Definition attr_to_col (st : style) (a : str) : str :=
  match st_kind st with StDefault => mixedToUnder a | StMixed => capword a | StPlain => a end.
Definition class_to_table (st : style) (c : str) : str :=
  match st_kind st with
  | StDefault => match c with x :: r => lower_c x :: mixedToUnder r | [] => [] end
  | _ => c
  end.
Definition table_reference (st : style) (t : str) : str :=
  match st_kind st with StMixed => t ++ s2l "ID" | _ => t ++ s2l "_id" end.
Definition id_for_table (st : style) (t : str) : str :=
  if st_longid st then table_reference st t else s2l "id".
Definition attr_to_idattr (a : str) : str := a ++ s2l "ID".

(* ------------------------------------------------------------------ declarations *)
Inductive dialect := Sqlite | Mysql | Postgres | Firebird | Mssql | Sybase | Maxdb.
Definition all_dialects := [Sqlite; Mysql; Postgres; Firebird; Mssql; Sybase; Maxdb].
Definition dialect_eqb (a b : dialect) : bool :=
  match a, b with
  | Sqlite, Sqlite | Mysql, Mysql | Postgres, Postgres | Firebird, Firebird
  | Mssql, Mssql | Sybase, Sybase | Maxdb, Maxdb => true
  | _, _ => false
  end.

(* what the server is able to do : connection.can_use_... *)
Record caps := { mysql_micro : bool; mssql_micro : bool; mssql_max : bool }.

Inductive idtype := IdInt | IdStr.
Inductive idsize := SzNone | SzTiny | SzSmall | SzMedium | SzBig.
Inductive intfam := IInt | ITiny | ISmall | IMedium | IBig.
Inductive cascade := CNone | CTrue | CFalse | CNull.
Inductive action := ACascade | ARestrict | ASetNull.

(* the class a ForeignKey points to, as far as DDL is concerned *)
Record fktarget := { fk_table : str; fk_idname : str; fk_idtype : idtype }.

Inductive kind :=
| KString (len : option Z) (varchar : option bool)     (* varchar None = 'auto' *)
| KUnicode (len : option Z) (varchar : option bool)
| KInt (f : intfam) (len : option Z) (unsigned zerofill : bool)
| KBool | KFloat | KDateTime | KDate | KTime | KTimestamp
| KDecimal (size prec : Z)
| KEnum (vals : list (option str))
| KBlob (len : option Z)
| KPickle (len : option Z)
| KUuid
| KFk (target : fktarget) (csc : cascade) (refcol : option str)
| KCustom (ty : list tok).                              (* Col(sqlType=...) *)

Record coldecl := {
  c_name : str;                 (* python attribute name as written *)
  c_dbname : option str;
  c_kind : kind;
  c_notnone : bool;
  c_unique : option bool;       (* None = not given (NoDefault) *)
  c_altid : bool;
  c_default : bool;             (* a python-side default is present (no DDL effect) *)
  c_defsql : option (list tok)  (* defaultSQL, lexed *)
}.

Record idxdecl := {
  i_name : str;
  i_cols : list (str * option Z);   (* python column name, optional mysql prefix length *)
  i_unique : bool
}.

Inductive joinkind := JRelated | JMultiple.
Record joindecl := {
  j_kind : joinkind;
  j_other_class : str;
  j_other_table : str;
  j_inter : option str;
  j_joincol : option str;
  j_othercol : option str;
  j_create : bool;                  (* createRelatedTable *)
  j_other_creates : list str        (* intermediate tables of the OTHER class's RelatedJoins with createRelatedTable *)
}.

Record decl := {
  d_class : str;
  d_table : option str;
  d_idname : option str;
  d_idtype : idtype;
  d_idsize : idsize;
  d_style : style;
  d_cols : list coldecl;
  d_indexes : list idxdecl;
  d_joins : list joindecl
}.

Definition is_fk (k : kind) : bool := match k with KFk _ _ _ => true | _ => false end.

Definition table_of (d : decl) : str :=
  match d_table d with Some t => t | None => class_to_table (d_style d) (d_class d) end.
Definition idname_of (d : decl) : str :=
  match d_idname d with Some n => n | None => id_for_table (d_style d) (table_of d) end.

(* SOCol.__init__ / SOForeignKey.__init__: final python name and db name *)
Definition final_name (c : coldecl) : str :=
  if is_fk (c_kind c) then attr_to_idattr (c_name c) else c_name c.
Definition dbname_of (st : style) (c : coldecl) : str :=
  match c_dbname c with Some n => n | None => attr_to_col st (final_name c) end.

(* self.unique = alternateID if unique is NoDefault else unique *)
Definition eff_unique (c : coldecl) : bool :=
  match c_unique c with None => c_altid c | Some b => b end.

(* the specification's reading of the options *)
Definition spec_notnull (c : coldecl) : bool := c_notnone c || c_altid c.
Definition spec_unique (c : coldecl) : bool :=
  (match c_unique c with Some b => b | None => false end) || c_altid c.

Definition action_of (c : cascade) : option action :=
  match c with CNone => None | CTrue => Some ACascade | CFalse => Some ARestrict | CNull => Some ASetNull end.

(* ------------------------------------------------------------------ string literals *)
Definition c_q : N := 39.    (* ' *)
Definition c_bs : N := 92.   (* \ *)

(* converters.StringLikeConverter: the mysql/postgres table sqlStringReplace,
   applied entry after entry, amounts to this per-character map *)
Definition esc_full (c : N) : str :=
  if c =? c_q then [c_q; c_q]
  else if c =? c_bs then [c_bs; c_bs]
  else if c =? 0 then [c_bs; 48]
  else if c =? 8 then [c_bs; 98]
  else if c =? 10 then [c_bs; 110]
  else if c =? 13 then [c_bs; 114]
  else if c =? 9 then [c_bs; 116]
  else [c].
Definition esc_ansi (c : N) : str := if c =? c_q then [c_q; c_q] else [c].

Inductive conv := ConvMysql | ConvPostgres | ConvAnsi.
Definition has_bs (s : str) : bool := existsb (fun c => c =? c_bs) s.

(* (E prefix?, quoted text) *)
Definition sqlrepr_str (cv : conv) (s : str) : bool * str :=
  match cv with
  | ConvAnsi => (false, c_q :: flat_map esc_ansi s ++ [c_q])
  | ConvMysql => (false, c_q :: flat_map esc_full s ++ [c_q])
  | ConvPostgres => let b := flat_map esc_full s in (has_bs b, c_q :: b ++ [c_q])
  end.

(* the converter SOEnumCol uses for the value list: the one of the dialect the DDL
   is for (SOEnumCol._checkType(db) / _mysqlType / _firebirdType) *)
Definition enum_conv (d : dialect) : conv :=
  match d with
  | Mysql => ConvMysql
  | Postgres => ConvPostgres
  | _ => ConvAnsi
  end.

(* the token for a rendered value: always one literal (E'..' only arises from the
   PostgreSQL converter, and PostgreSQL's lexer reads it as one token) *)
Definition lit_toks (d : dialect) (v : option str) : list tok :=
  match v with
  | None => [kw "NULL"]
  | Some s =>
      let '(e, body) := sqlrepr_str (enum_conv d) s in
      if e then [Lit (69 :: body)] else [Lit body]
  end.

(* reading an ANSI string literal back: strip the quotes, undouble the quotes inside *)
Fixpoint unq_ansi (l : str) : option str :=
  match l with
  | [] => None
  | c :: r =>
      if c =? c_q then
        match r with
        | [] => Some []
        | c2 :: r2 => if c2 =? c_q then option_map (cons c_q) (unq_ansi r2) else None
        end
      else option_map (cons c) (unq_ansi r)
  end.
Definition unquote_ansi (l : str) : option str :=
  match l with c :: r => if c =? c_q then unq_ansi r else None | [] => None end.

Definition e_prefixed (d : dialect) (v : option str) : bool :=
  match v with None => false | Some s => fst (sqlrepr_str (enum_conv d) s) end.

(* ------------------------------------------------------------------ column types *)
Definition len_truthy (l : option Z) : bool :=
  match l with Some z => negb (z =? 0)%Z | None => false end.
Definition len_val (l : option Z) : Z := match l with Some z => z | None => 0%Z end.

(* SOStringLikeCol.__init__ *)
Definition eff_varchar (len : option Z) (vc : option bool) : bool :=
  if len_truthy len then (match vc with None => true | Some b => b end) else false.
(* the constructor's assertion *)
Definition string_decl_ok (len : option Z) (vc : option bool) : bool :=
  if len_truthy len then true else match vc with Some true => false | _ => true end.

Definition paren (l : list tok) : list tok := LP :: l ++ [RP].
Definition ty_n (name : string) (z : Z) : list tok := kw name :: paren (int_toks z).

(* SOStringLikeCol._sqlType *)
Definition string_sqltype (len : option Z) (vc : bool) : list tok :=
  if len_truthy len then
    if vc then ty_n "VARCHAR" (len_val len) else ty_n "CHAR" (len_val len)
  else [kw "TEXT"].

Definition mssql_string (cp : caps) (len : option Z) (vc : bool) (n : bool) : list tok :=
  let p := if n then "N" else "" in
  if len_truthy len then
    if vc then ty_n (String.append p "VARCHAR") (len_val len) else ty_n (String.append p "CHAR") (len_val len)
  else if mssql_max cp then kw (String.append p "VARCHAR") :: paren [kw "MAX"]
       else ty_n (String.append p "VARCHAR") 4000.

Definition string_type (d : dialect) (cp : caps) (len : option Z) (vc0 : option bool) (uni : bool) : list tok :=
  let vc := eff_varchar len vc0 in
  match d with
  | Mssql => mssql_string cp len vc uni
  | Firebird => if len_truthy len then string_sqltype len vc else kws ["BLOB"; "SUB_TYPE"; "TEXT"]
  | Maxdb => if len_truthy len then string_sqltype len vc else kws ["LONG"; "ASCII"]
  | _ => string_sqltype len vc
  end.

Definition int_name (f : intfam) : string :=
  match f with IInt => "INT" | ITiny => "TINYINT" | ISmall => "SMALLINT"
          | IMedium => "MEDIUMINT" | IBig => "BIGINT" end.
(* SOIntCol.addSQLAttrs *)
Definition int_type (f : intfam) (len : option Z) (uns zf : bool) : list tok :=
  [kw (int_name f)]
  ++ (match len with Some z => if (1 <=? z)%Z then paren (int_toks z) else [] | None => [] end)
  ++ (if uns then [kw "UNSIGNED"] else [])
  ++ (if zf then [kw "ZEROFILL"] else []).

Definition bool_type (d : dialect) : list tok :=
  match d with
  | Postgres | Mysql => [kw "BOOL"]
  | Sybase | Mssql => [kw "BIT"]
  | Firebird => [kw "INT"]
  | Maxdb | Sqlite => [kw "BOOLEAN"]
  end.
Definition float_type (d : dialect) : list tok :=
  match d with Mysql => kws ["DOUBLE"; "PRECISION"] | _ => [kw "FLOAT"] end.
Definition datetime_type (d : dialect) (cp : caps) : list tok :=
  match d with
  | Mysql => if mysql_micro cp then ty_n "DATETIME" 6 else [kw "DATETIME"]
  | Mssql => if mssql_micro cp then ty_n "DATETIME2" 6 else [kw "DATETIME"]
  | Sybase => [kw "DATETIME"]
  | _ => [kw "TIMESTAMP"]
  end.
Definition timestamp_type (d : dialect) (cp : caps) : list tok :=
  match d with
  | Mysql => if mysql_micro cp then ty_n "TIMESTAMP" 6 else [kw "TIMESTAMP"]
  | _ => datetime_type d cp
  end.
Definition date_type (d : dialect) : list tok :=
  match d with Mssql => ty_n "VARCHAR" 10 | _ => [kw "DATE"] end.
Definition time_type (d : dialect) (cp : caps) : list tok :=
  match d with
  | Mysql => if mysql_micro cp then ty_n "TIME" 6 else [kw "TIME"]
  | Mssql => if mssql_micro cp then ty_n "TIME" 6 else [kw "TIME"]
  | _ => [kw "TIME"]
  end.
Definition decimal_type (size prec : Z) : list tok :=
  kw "DECIMAL" :: paren (int_toks size ++ [Comma] ++ int_toks prec).

Definition z24 : Z := 16777216. Definition z16 : Z := 65536. Definition z8 : Z := 256.
Definition blob_type (d : dialect) (cp : caps) (len : option Z) : list tok :=
  match d with
  | Mysql =>
      if len_truthy len then
        if (z24 <=? len_val len)%Z then [kw "LONGBLOB"]
        else if (z16 <=? len_val len)%Z then [kw "MEDIUMBLOB"]
        else if (z8 <=? len_val len)%Z then [kw "BLOB"]
        else [kw "TINYBLOB"]
      else [kw "TINYBLOB"]
  | Postgres => [kw "BYTEA"]
  | Mssql => if mssql_max cp then kw "VARBINARY" :: paren [kw "MAX"] else [kw "IMAGE"]
  | _ => string_type d cp len (Some false) false
  end.
Definition pickle_type (d : dialect) (cp : caps) (len : option Z) : list tok :=
  match d with
  | Mysql =>
      if len_truthy len then
        if (z24 <=? len_val len)%Z then [kw "LONGBLOB"]
        else if (z16 <=? len_val len)%Z then [kw "MEDIUMBLOB"]
        else [kw "BLOB"]
      else [kw "BLOB"]
  | _ => blob_type d cp len
  end.
Definition uuid_type (d : dialect) : list tok :=
  match d with Postgres => [kw "UUID"] | _ => ty_n "VARCHAR" 36 end.

Definition numeric18 : list tok := kw "NUMERIC" :: paren [W (digits 18); Comma; W (digits 0)].
Definition key_type (d : dialect) (t : idtype) : list tok :=
  match d, t with
  | Sybase, IdInt => numeric18
  | Firebird, IdStr => ty_n "VARCHAR" 255
  | _, IdInt => [kw "INT"]
  | _, IdStr => [kw "TEXT"]
  end.

(* enum helpers *)
Definition has_none (vs : list (option str)) : bool :=
  existsb (fun v => match v with None => true | Some _ => false end) vs.
Definition enum_maxlen (vs : list (option str)) : Z :=
  fold_left (fun m v => Z.max m (match v with None => 0%Z | Some s => Z.of_nat (List.length s) end)) vs 0%Z.
Definition enum_list (d : dialect) (vs : list (option str)) : list tok :=
  sep_by [Comma] (map (lit_toks d) vs).
Definition enum_check (d : dialect) (db : str) (vs : list (option str)) : list tok :=
  kw "CHECK" :: paren (W db :: kw "in" :: paren (enum_list d vs)).
Definition not_none_vals (vs : list (option str)) : list (option str) :=
  filter (fun v => match v with None => false | Some _ => true end) vs.

(* ------------------------------------------------------------------ columns *)
(* SOCol._extraSQL *)
Definition extra_sql (c : coldecl) : list tok :=
  (if c_notnone c || c_altid c then kws ["NOT"; "NULL"] else [])
  ++ (if eff_unique c || c_altid c then [kw "UNIQUE"] else [])
  ++ (match c_defsql c with Some t => kw "DEFAULT" :: t | None => [] end).

Definition action_toks (cs : cascade) : list tok :=
  match cs with
  | CNone => []
  | CNull => kws ["ON"; "DELETE"; "SET"; "NULL"]
  | CTrue => kws ["ON"; "DELETE"; "CASCADE"]
  | CFalse => kws ["ON"; "DELETE"; "RESTRICT"]
  end.

Definition ref_idname (t : fktarget) (refcol : option str) : str :=
  match refcol with Some r => if match r with [] => true | _ => false end then fk_idname t else r
                  | None => fk_idname t end.

(* type tokens of a non-enum column; None = the method raises *)
Definition plain_type (d : dialect) (cp : caps) (k : kind) : option (list tok) :=
  match k with
  | KString len vc => Some (string_type d cp len vc false)
  | KUnicode len vc => Some (string_type d cp len vc true)
  | KInt f len u z => Some (int_type f len u z)
  | KBool => Some (bool_type d)
  | KFloat => Some (float_type d)
  | KDateTime => Some (datetime_type d cp)
  | KDate => Some (date_type d)
  | KTime => Some (time_type d cp)
  | KTimestamp => Some (timestamp_type d cp)
  | KDecimal s p => Some (decimal_type s p)
  | KBlob len => Some (blob_type d cp len)
  | KPickle len => Some (pickle_type d cp len)
  | KUuid => Some (uuid_type d)
  | KFk t _ _ => Some (key_type d (fk_idtype t))
  | KCustom ty => Some ty
  | KEnum _ => None
  end.

(* One column as a list of comma-separated segments (MaxDB's foreign key adds a
   second one).  None = the implementation raises. *)
Definition col_segs (d : dialect) (cp : caps) (st : style) (c : coldecl) : option (list (list tok)) :=
  let db := dbname_of st c in
  match c_kind c with
  | KEnum vs =>
      match vs with
      | [] => match d with
              | Maxdb => None                             (* TypeError *)
              | Mysql => Some [W db :: (kw "ENUM" :: paren []) ++ kws ["NOT"; "NULL"] ++ extra_sql c]
              | _ => None                                 (* max() of an empty sequence *)
              end
      | _ =>
        match d with
        | Maxdb => None
        | Mysql =>
            Some [W db :: (kw "ENUM" :: paren (enum_list d (not_none_vals vs)))
                       ++ (if has_none vs then [] else kws ["NOT"; "NULL"])
                       ++ extra_sql c]
        | Firebird =>
            Some [W db :: ty_n "VARCHAR" (enum_maxlen vs) ++ extra_sql c ++ enum_check d db vs]
        | _ =>
            Some [W db :: ty_n "VARCHAR" (enum_maxlen vs) ++ enum_check d db vs ++ extra_sql c]
        end
      end
  | KFk t cs rc =>
      let ty := key_type d (fk_idtype t) in
      let idn := ref_idname t rc in
      let refs := [kw "REFERENCES"; W (fk_table t); LP; W idn; RP] in
      match d with
      | Sqlite => Some [W db :: ty ++ extra_sql c
                          ++ [kw "CONSTRAINT"; W (db ++ s2l "_exists")] ++ refs ++ action_toks cs]
      | Sybase | Mssql => Some [W db :: ty ++ extra_sql c ++ refs]
      | Maxdb => Some [W db :: ty; [kw "FOREIGN"; kw "KEY"; LP; W db; RP] ++ refs]
      | _ => Some [W db :: ty ++ extra_sql c]
      end
  | k =>
      match plain_type d cp k with
      | Some ty => Some [W db :: ty ++ extra_sql c]
      | None => None
      end
  end.

(* <dialect>connection.createIDColumn *)
Definition mysql_int (s : idsize) : string :=
  match s with SzNone => "INT" | SzTiny => "TINYINT" | SzSmall => "SMALLINT"
          | SzMedium => "MEDIUMINT" | SzBig => "BIGINT" end.
Definition pg_serial (s : idsize) : string :=
  match s with SzTiny | SzSmall => "SMALLSERIAL" | SzMedium | SzNone => "SERIAL" | SzBig => "BIGSERIAL" end.

Definition id_col (d : dialect) (idn : str) (t : idtype) (sz : idsize) : list tok :=
  W idn ::
  match d, t with
  | Sqlite, IdStr => kws ["TEXT"; "PRIMARY"; "KEY"]
  | Sqlite, IdInt => kws ["INTEGER"; "PRIMARY"; "KEY"; "AUTOINCREMENT"]
  | Mysql, IdStr => kws ["TEXT"; "PRIMARY"; "KEY"]
  | Mysql, IdInt => kw (mysql_int sz) :: kws ["PRIMARY"; "KEY"; "AUTO_INCREMENT"]
  | Postgres, IdInt => kw (pg_serial sz) :: kws ["PRIMARY"; "KEY"]
  | Postgres, IdStr => kws ["TEXT"; "PRIMARY"; "KEY"]
  | Firebird, _ => key_type Firebird t ++ kws ["NOT"; "NULL"; "PRIMARY"; "KEY"]
  | Mssql, _ => key_type Mssql t ++ kws ["IDENTITY"; "UNIQUE"]
  | Sybase, _ => key_type Sybase t ++ kws ["IDENTITY"; "UNIQUE"]
  | Maxdb, _ => key_type Maxdb t ++ kws ["PRIMARY"; "KEY"]
  end.

Fixpoint all_some {A} (l : list (option A)) : option (list A) :=
  match l with
  | [] => Some []
  | None :: _ => None
  | Some x :: r => match all_some r with Some r' => Some (x :: r') | None => None end
  end.

(* dbconnection.createColumns, as segments *)
Definition table_segs (d : dialect) (cp : caps) (dc : decl) : option (list (list tok)) :=
  match all_some (map (col_segs d cp (d_style dc)) (d_cols dc)) with
  | Some segss => Some (id_col d (idname_of dc) (d_idtype dc) (d_idsize dc) :: List.concat segss)
  | None => None
  end.

(* dbconnection.createTableSQL: 'CREATE TABLE %s (\n%s\n)' *)
Definition create_table (d : dialect) (cp : caps) (dc : decl) : option (list tok) :=
  match table_segs d cp dc with
  | Some segs => Some (kw "CREATE" :: kw "TABLE" :: W (table_of dc) :: paren (sep_by [Comma] segs))
  | None => None
  end.

(* ------------------------------------------------------------------ reference constraints *)
Fixpoint after_last_dot (s : str) (acc : str) : str :=
  match s with
  | [] => rev acc
  | c :: r => if c =? 46 then after_last_dot r [] else after_last_dot r (c :: acc)
  end.

Definition fk_constraint (d : dialect) (tbl : str) (st : style) (c : coldecl) : option (list tok) :=
  match c_kind c with
  | KFk t cs rc =>
      let db := dbname_of st c in
      let tail := [kw "FOREIGN"; kw "KEY"; LP; W db; RP; kw "REFERENCES"; W (fk_table t); LP;
                   W (ref_idname t rc); RP] ++ action_toks cs in
      match d with
      | Postgres => Some (kws ["ALTER"; "TABLE"] ++ [W tbl; kw "ADD"; kw "CONSTRAINT";
                                                     W (db ++ s2l "_exists")] ++ tail)
      | Mysql => Some (kws ["ALTER"; "TABLE"] ++ [W tbl; kw "ADD"; kw "CONSTRAINT";
                         W (after_last_dot tbl [] ++ s2l "_" ++ db ++ s2l "_exists")] ++ tail)
      | _ => None
      end
  | _ => None
  end.

Fixpoint somes {A} (l : list (option A)) : list A :=
  match l with [] => [] | Some x :: r => x :: somes r | None :: r => somes r end.

(* dbconnection.createReferenceConstraints *)
Definition constraints (d : dialect) (dc : decl) : list (list tok) :=
  somes (map (fk_constraint d (table_of dc) (d_style dc)) (d_cols dc)).

(* ------------------------------------------------------------------ indexes *)
(* SODatabaseIndex.convertColumns: by final name, else by the name as written *)
Fixpoint find_col (cols : list coldecl) (n : str) (by_final : bool) : option coldecl :=
  match cols with
  | [] => None
  | c :: r => if str_eqb (if by_final then final_name c else c_name c) n then Some c
              else find_col r n by_final
  end.
Definition resolve_col (cols : list coldecl) (n : str) : option coldecl :=
  match find_col cols n true with Some c => Some c | None => find_col cols n false end.

Definition index_col_toks (d : dialect) (st : style) (cols : list coldecl) (ic : str * option Z)
  : option (list tok) :=
  match resolve_col cols (fst ic) with
  | Some c =>
      match d, snd ic with
      | Mysql, Some n => Some (W (dbname_of st c) :: paren (int_toks n))
      | _, _ => Some [W (dbname_of st c)]
      end
  | None => None
  end.

Definition index_stmt (d : dialect) (dc : decl) (ix : idxdecl) : option (list tok) :=
  match all_some (map (index_col_toks d (d_style dc) (d_cols dc)) (i_cols ix)) with
  | Some cs =>
      let t := table_of dc in
      match d with
      | Mysql => Some (kws ["ALTER"; "TABLE"] ++ [W t; kw "ADD"; kw (if i_unique ix then "UNIQUE" else "INDEX");
                                                  W (i_name ix)] ++ paren (sep_by [Comma] cs))
      | _ => Some ([kw "CREATE"] ++ (if i_unique ix then kws ["UNIQUE"; "INDEX"] else [kw "INDEX"])
                   ++ [W (t ++ s2l "_" ++ i_name ix); kw "ON"; W t] ++ paren (sep_by [Comma] cs))
      end
  | None => None
  end.

(* ------------------------------------------------------------------ join tables *)
Definition join_type (d : dialect) : list tok :=
  match d with Sybase => numeric18 ++ kws ["NOT"; "NULL"] | _ => kws ["INT"; "NOT"; "NULL"] end.

Definition sort2 (a b : str) : str * str := if str_gtb a b then (b, a) else (a, b).
Definition inter_table (dc : decl) (j : joindecl) : str :=
  match j_inter j with
  | Some t => t
  | None => let '(x, y) := sort2 (table_of dc) (j_other_table j) in x ++ s2l "_" ++ y
  end.
Definition join_col (dc : decl) (j : joindecl) : str :=
  match j_joincol j with Some c => c | None => table_reference (d_style dc) (table_of dc) end.
Definition other_col (dc : decl) (j : joindecl) : str :=
  match j_othercol j with Some c => c | None => table_reference (d_style dc) (j_other_table j) end.

(* main._getJoinsToCreate / _otherSideCreates: of two classes that declare the same
   intermediate table the one whose name sorts first owns it; a join declared on one
   side only is owned by that side *)
Definition creates_link (dc : decl) (j : joindecl) : bool :=
  match j_kind j with
  | JMultiple => false
  | JRelated => j_create j
                && negb (str_gtb (d_class dc) (j_other_class j)
                         && mem_str (inter_table dc j) (j_other_creates j))
  end.
Definition joins_to_create (dc : decl) : list joindecl := filter (creates_link dc) (d_joins dc).
(* what j_other_creates must hold when the other class is b *)
Definition other_creates (b : decl) : list str :=
  map (inter_table b)
      (filter (fun j => match j_kind j with JRelated => j_create j | JMultiple => false end) (d_joins b)).

Definition join_table_stmt (d : dialect) (dc : decl) (j : joindecl) : list tok :=
  kw "CREATE" :: kw "TABLE" :: W (inter_table dc j) ::
  paren ((W (join_col dc j) :: join_type d) ++ [Comma] ++ (W (other_col dc j) :: join_type d)).

(* main.createTableSQL: create; join tables; indexes -- and the constraint list *)
Definition create_sql (d : dialect) (cp : caps) (dc : decl) : option (list (list tok) * list (list tok)) :=
  match create_table d cp dc, all_some (map (index_stmt d dc) (d_indexes dc)) with
  | Some ct, Some ixs =>
      Some (ct :: map (join_table_stmt d dc) (joins_to_create dc) ++ ixs, constraints d dc)
  | _, _ => None
  end.

(* ================================================================== the reference reader *)
Definition kw_is (w : str) (k : string) : bool := str_eqb (upper_s w) (s2l k).

(* words that carry meaning for the reader at parenthesis depth 0 *)
Definition flag_words : list string := ["NOT"; "UNIQUE"; "PRIMARY"; "IDENTITY"; "REFERENCES"; "FOREIGN"].
Definition is_flag_word (w : str) : bool := existsb (kw_is w) flag_words.
(* words that may not be used as a table or column name *)
Definition reserved_words : list string :=
  ["NOT"; "NULL"; "UNIQUE"; "PRIMARY"; "KEY"; "IDENTITY"; "REFERENCES"; "FOREIGN"; "CONSTRAINT";
   "CHECK"; "DEFAULT"; "CREATE"; "TABLE"; "ON"; "DELETE"; "INDEX"; "ALTER"; "ADD"].
Definition is_reserved (w : str) : bool := existsb (kw_is w) reserved_words.
Definition name_ok (w : str) : bool := negb (match w with [] => true | _ => false end) && negb (is_reserved w).

(* split at commas outside parentheses *)
Fixpoint split_top (d : nat) (cur : list tok) (l : list tok) : list (list tok) :=
  match l with
  | [] => [rev cur]
  | t :: r =>
      match t with
      | Comma => match d with O => rev cur :: split_top O [] r | _ => split_top d (t :: cur) r end
      | LP => split_top (S d) (t :: cur) r
      | RP => split_top (pred d) (t :: cur) r
      | _ => split_top d (t :: cur) r
      end
  end.

Record flags := { f_nn : bool; f_uq : bool; f_pk : bool }.
Definition no_flags := {| f_nn := false; f_uq := false; f_pk := false |}.
Inductive fmode := MNorm | MNot | MPrim.
Record fstate := { fs_depth : nat; fs_mode : fmode; fs_flags : flags }.
Definition fs0 := {| fs_depth := O; fs_mode := MNorm; fs_flags := no_flags |}.

(* one token of a column definition (after its name) *)
Definition fstep (s : fstate) (t : tok) : option fstate :=
  let f := fs_flags s in
  match fs_mode s with
  | MNot =>
      match t with
      | W w => if kw_is w "NULL"
               then Some {| fs_depth := fs_depth s; fs_mode := MNorm;
                            fs_flags := {| f_nn := true; f_uq := f_uq f; f_pk := f_pk f |} |}
               else None
      | _ => None
      end
  | MPrim =>
      match t with
      | W w => if kw_is w "KEY"
               then Some {| fs_depth := fs_depth s; fs_mode := MNorm;
                            fs_flags := {| f_nn := f_nn f; f_uq := f_uq f; f_pk := true |} |}
               else None
      | _ => None
      end
  | MNorm =>
      match t with
      | LP => Some {| fs_depth := S (fs_depth s); fs_mode := MNorm; fs_flags := f |}
      | RP => match fs_depth s with
              | O => None
              | S n => Some {| fs_depth := n; fs_mode := MNorm; fs_flags := f |}
              end
      | W w =>
          match fs_depth s with
          | O =>
              if kw_is w "NOT" then Some {| fs_depth := O; fs_mode := MNot; fs_flags := f |}
              else if kw_is w "PRIMARY" then Some {| fs_depth := O; fs_mode := MPrim; fs_flags := f |}
              else if kw_is w "UNIQUE"
                   then Some {| fs_depth := O; fs_mode := MNorm;
                                fs_flags := {| f_nn := f_nn f; f_uq := true; f_pk := f_pk f |} |}
              else if kw_is w "IDENTITY"     (* T-SQL: an identity column is not nullable *)
                   then Some {| fs_depth := O; fs_mode := MNorm;
                                fs_flags := {| f_nn := true; f_uq := f_uq f; f_pk := f_pk f |} |}
              else Some s
          | S _ => Some s
          end
      | Comma => match fs_depth s with O => None | S _ => Some s end
      | _ => Some s
      end
  end.

Fixpoint frun (s : fstate) (l : list tok) : option fstate :=
  match l with
  | [] => Some s
  | t :: r => match fstep s t with Some s' => frun s' r | None => None end
  end.

Definition read_flags (l : list tok) : option flags :=
  match frun fs0 l with
  | Some {| fs_depth := O; fs_mode := MNorm; fs_flags := f |} =>
      (* PRIMARY KEY implies NOT NULL and UNIQUE *)
      Some (if f_pk f then {| f_nn := true; f_uq := true; f_pk := true |} else f)
  | _ => None
  end.

Record refsk := { r_table : str; r_col : str; r_action : option action }.

Definition read_action (l : list tok) : option (option action) :=
  match l with
  | W a :: W b :: W c :: rest =>
      if kw_is a "ON" && kw_is b "DELETE" then
        if kw_is c "CASCADE" then match rest with [] => Some (Some ACascade) | _ => None end
        else if kw_is c "RESTRICT" then match rest with [] => Some (Some ARestrict) | _ => None end
        else if kw_is c "SET" then
          match rest with [W e] => if kw_is e "NULL" then Some (Some ASetNull) else None | _ => None end
        else None
      else None
  | [] => Some None
  | _ => None
  end.

(* REFERENCES t ( c ) [ON DELETE ...] must close the definition *)
Definition read_ref_at (l : list tok) : option refsk :=
  match l with
  | W t :: LP :: W c :: RP :: rest =>
      match read_action rest with
      | Some a => Some {| r_table := t; r_col := c; r_action := a |}
      | None => None
      end
  | _ => None
  end.

(* find the REFERENCES clause of a column definition; outer None = malformed *)
Fixpoint find_ref (d : nat) (l : list tok) : option (option refsk) :=
  match l with
  | [] => Some None
  | t :: r =>
      match t with
      | LP => find_ref (S d) r
      | RP => find_ref (pred d) r
      | W w => match d with
               | O => if kw_is w "REFERENCES"
                      then match read_ref_at r with Some x => Some (Some x) | None => None end
                      else find_ref d r
               | S _ => find_ref d r
               end
      | _ => find_ref d r
      end
  end.

Record colsk := { k_name : str; k_nn : bool; k_uq : bool; k_pk : bool }.
Record fksk := { f_col : str; f_ref : refsk }.

Inductive seg := SegCol (c : colsk) (r : option refsk) | SegFk (f : fksk).

Definition read_seg (l : list tok) : option seg :=
  match l with
  | W n :: rest =>
      if kw_is n "FOREIGN" then
        match rest with
        | W k :: LP :: W c :: RP :: W r :: rest' =>
            if kw_is k "KEY" && kw_is r "REFERENCES" then
              match read_ref_at rest' with
              | Some x => Some (SegFk {| f_col := c; f_ref := x |})
              | None => None
              end
            else None
        | _ => None
        end
      else if is_reserved n then None
      else
        match read_flags rest, find_ref O rest with
        | Some f, Some r =>
            Some (SegCol {| k_name := n; k_nn := f_nn f; k_uq := f_uq f; k_pk := f_pk f |} r)
        | _, _ => None
        end
  | _ => None
  end.

Record skeleton := { s_table : str; s_cols : list colsk; s_fks : list fksk }.

Fixpoint seg_cols (l : list seg) : list colsk :=
  match l with [] => [] | SegCol c _ :: r => c :: seg_cols r | SegFk _ :: r => seg_cols r end.
Fixpoint seg_fks (l : list seg) : list fksk :=
  match l with
  | [] => []
  | SegCol c (Some x) :: r => {| f_col := k_name c; f_ref := x |} :: seg_fks r
  | SegCol _ None :: r => seg_fks r
  | SegFk f :: r => f :: seg_fks r
  end.

Definition unsnoc {A} (l : list A) : option (list A * A) :=
  match rev l with [] => None | x :: r => Some (rev r, x) end.

Definition read_ddl (l : list tok) : option skeleton :=
  match l with
  | W c :: W t :: W name :: LP :: body =>
      if kw_is c "CREATE" && kw_is t "TABLE" && name_ok name then
        match unsnoc body with
        | Some (inner, RP) =>
            match all_some (map read_seg (split_top O [] inner)) with
            | Some segs => Some {| s_table := name; s_cols := seg_cols segs; s_fks := seg_fks segs |}
            | None => None
            end
        | _ => None
        end
      else None
  | _ => None
  end.

(* ALTER TABLE s ADD CONSTRAINT n FOREIGN KEY ( c ) REFERENCES t ( i ) [ON DELETE ..] *)
Definition read_alter_fk (l : list tok) : option (str * fksk) :=
  match l with
  | W a :: W b :: W s :: W c :: W e :: W _ :: W f :: W g :: LP :: W col :: RP :: W h :: rest =>
      if kw_is a "ALTER" && kw_is b "TABLE" && kw_is c "ADD" && kw_is e "CONSTRAINT"
         && kw_is f "FOREIGN" && kw_is g "KEY" && kw_is h "REFERENCES" then
        match read_ref_at rest with
        | Some x => Some (s, {| f_col := col; f_ref := x |})
        | None => None
        end
      else None
  | _ => None
  end.

(* ---------- the specification: what a declaration denotes *)
Definition col_skeleton (st : style) (c : coldecl) : colsk :=
  {| k_name := dbname_of st c; k_nn := spec_notnull c; k_uq := spec_unique c; k_pk := false |}.
Definition id_skeleton (dc : decl) : colsk :=
  {| k_name := idname_of dc; k_nn := true; k_uq := true; k_pk := true |}.
Definition cols_skeleton (dc : decl) : list colsk :=
  id_skeleton dc :: map (col_skeleton (d_style dc)) (d_cols dc).

(* the foreign keys a declaration denotes: column, target table, target column, delete action *)
Definition fk_of (st : style) (c : coldecl) : option fksk :=
  match c_kind c with
  | KFk t cs rc => Some {| f_col := dbname_of st c;
                           f_ref := {| r_table := fk_table t; r_col := ref_idname t rc;
                                       r_action := action_of cs |} |}
  | _ => None
  end.
Definition declared_fks (dc : decl) : list fksk := somes (map (fk_of (d_style dc)) (d_cols dc)).

(* all foreign keys a dialect's statements declare (inline + ALTER TABLE) *)
Definition rendered_fks (d : dialect) (cp : caps) (dc : decl) : option (list fksk) :=
  match create_table d cp dc with
  | Some ct =>
      match read_ddl ct, all_some (map read_alter_fk (constraints d dc)) with
      | Some sk, Some alters => Some (s_fks sk ++ map snd alters)
      | _, _ => None
      end
  | None => None
  end.

Definition renders_fk (d : dialect) : bool := negb (dialect_eqb d Firebird).
Definition renders_action (d : dialect) : bool :=
  match d with Sqlite | Postgres | Mysql => true | _ => false end.
Definition drop_action (f : fksk) : fksk :=
  {| f_col := f_col f; f_ref := {| r_table := r_table (f_ref f); r_col := r_col (f_ref f); r_action := None |} |}.

(* ---------- index reader *)
Record idxsk := { x_table : str; x_name : str; x_cols : list str; x_unique : bool }.

(* c  |  c ( n ) *)
Definition read_idx_col (l : list tok) : option str :=
  match l with
  | [W c] => Some c
  | [W c; LP; W _; RP] => Some c
  | _ => None
  end.
Definition read_idx_cols (l : list tok) : option (list str) :=
  match l with
  | LP :: body =>
      match unsnoc body with
      | Some (inner, RP) => all_some (map read_idx_col (split_top O [] inner))
      | _ => None
      end
  | _ => None
  end.
Definition read_index (l : list tok) : option idxsk :=
  match l with
  | W a :: W b :: rest =>
      if kw_is a "CREATE" then
        let '(u, rest') := if kw_is b "UNIQUE" then (true, match rest with W _ :: r => r | _ => [] end)
                           else (false, rest) in
        match rest' with
        | W n :: W o :: W t :: cols =>
            if kw_is o "ON" then
              match read_idx_cols cols with
              | Some cs => Some {| x_table := t; x_name := n; x_cols := cs; x_unique := u |}
              | None => None
              end
            else None
        | _ => None
        end
      else if kw_is a "ALTER" && kw_is b "TABLE" then
        match rest with
        | W t :: W ad :: W k :: W n :: cols =>
            if kw_is ad "ADD" && (kw_is k "UNIQUE" || kw_is k "INDEX") then
              match read_idx_cols cols with
              | Some cs => Some {| x_table := t; x_name := n; x_cols := cs; x_unique := kw_is k "UNIQUE" |}
              | None => None
              end
            else None
        | _ => None
        end
      else None
  | _ => None
  end.

Definition index_name (d : dialect) (dc : decl) (ix : idxdecl) : str :=
  match d with Mysql => i_name ix | _ => table_of dc ++ s2l "_" ++ i_name ix end.
Definition index_skeleton (d : dialect) (dc : decl) (ix : idxdecl) (cols : list coldecl) : idxsk :=
  {| x_table := table_of dc; x_name := index_name d dc ix;
     x_cols := map (dbname_of (d_style dc)) cols; x_unique := i_unique ix |}.

(* ================================================================== validity *)
Definition cleanc (bad : str -> bool) : nat -> list tok -> option nat :=
  fix go (d : nat) (l : list tok) : option nat :=
    match l with
    | [] => Some d
    | t :: r =>
        match t with
        | LP => go (S d) r
        | RP => match d with O => None | S n => go n r end
        | Comma => match d with O => None | S _ => go d r end
        | W w => match d with O => if bad w then None else go d r | S _ => go d r end
        | _ => go d r
        end
    end.
(* developer-supplied SQL (defaultSQL, sqlType): balanced, no top-level comma, none of the reader's words *)
Definition safe_toks (l : list tok) : bool :=
  match cleanc is_flag_word O l with Some O => true | _ => false end.

Definition kind_valid (d : dialect) (k : kind) : bool :=
  match k with
  | KString len vc | KUnicode len vc => string_decl_ok len vc
  | KEnum vs => negb (dialect_eqb d Maxdb) && (match vs with [] => dialect_eqb d Mysql | _ => true end)
  | KFk t _ rc => name_ok (fk_table t) && name_ok (ref_idname t rc)
  | KCustom ty => safe_toks ty
  | _ => true
  end.

Definition col_valid (d : dialect) (st : style) (c : coldecl) : bool :=
  name_ok (dbname_of st c) && kind_valid d (c_kind c)
  && (match c_defsql c with Some t => safe_toks t | None => true end).

Definition valid (d : dialect) (dc : decl) : bool :=
  name_ok (table_of dc) && name_ok (idname_of dc) && forallb (col_valid d (d_style dc)) (d_cols dc).

(* trigger classes of the known deviations (see findings/C14.json) *)
(* mysql: ENUM(...) NOT NULL whenever None is not among the values *)
Definition mysql_enum_forced_nn (c : coldecl) : bool :=
  match c_kind c with KEnum vs => negb (has_none vs) && negb (spec_notnull c) | _ => false end.
(* maxdb: the foreign-key column drops _extraSQL *)
Definition maxdb_fk_drops_extra (c : coldecl) : bool :=
  is_fk (c_kind c) && (spec_notnull c || eff_unique c || c_altid c).
Definition skeleton_guard (d : dialect) (dc : decl) : bool :=
  match d with
  | Mysql => negb (existsb mysql_enum_forced_nn (d_cols dc))
  | Maxdb => negb (existsb maxdb_fk_drops_extra (d_cols dc))
  | _ => true
  end.
(* mssql / sybase: the id column is IDENTITY UNIQUE, not PRIMARY KEY *)
Definition id_is_primary (d : dialect) : bool :=
  match d with Mssql | Sybase => false | _ => true end.
Definition expected_cols (d : dialect) (dc : decl) : list colsk :=
  (if id_is_primary d then id_skeleton dc
   else {| k_name := idname_of dc; k_nn := true; k_uq := true; k_pk := false |})
  :: map (col_skeleton (d_style dc)) (d_cols dc).

Definition fk_cascades_none (dc : decl) : bool :=
  forallb (fun c => match c_kind c with KFk _ CNone _ => true | KFk _ _ _ => false | _ => true end) (d_cols dc).

(* ================================================================== engine behaviour on sqlite (definitions) *)
(* sqlite's grammar refuses a type name that continues after its parenthesised
   length (INT(5) UNSIGNED) *)
Definition sqlite_type_ok (k : kind) : bool :=
  match k with
  | KInt _ (Some z) u zf => negb ((1 <=? z)%Z && (u || zf))
  | _ => true
  end.
Definition sqlite_accepts (dc : decl) : bool :=
  forallb (fun c => sqlite_type_ok (c_kind c)) (d_cols dc).

(* ================================================================== schema / db state machine *)
(* a table: column names (db names, id first) and rows aligned with them *)
Record table := { t_name : str; t_cols : list str; t_rows : list (list Z) }.
Record dbstate := { db_tables : list table; db_indexes : list (str * str) (* index name, table *) }.

Fixpoint find_table (ts : list table) (n : str) : option table :=
  match ts with [] => None | t :: r => if str_eqb (t_name t) n then Some t else find_table r n end.
Definition table_exists (db : dbstate) (n : str) : bool :=
  match find_table (db_tables db) n with Some _ => true | None => false end.
Definition remove_table (ts : list table) (n : str) : list table :=
  filter (fun t => negb (str_eqb (t_name t) n)) ts.

(* every operation returns the state it leaves behind and whether a statement
   failed (sqlite autocommits: statements before the failing one stay) *)
Definition eres := (dbstate * bool)%type.
Definition ebind (m : eres) (f : dbstate -> eres) : eres :=
  match m with (db, true) => (db, true) | (db, false) => f db end.

(* `table_exists` above is the library's SQLiteConnection.tableExists: the name compared
   with `=`, i.e. exactly.  The ENGINE resolves table names without regard to ASCII case. *)
Definition same_name_ci (a b : str) : bool := str_eqb (upper_s a) (upper_s b).
Definition eng_has (db : dbstate) (n : str) : bool :=
  existsb (fun t => same_name_ci (t_name t) n) (db_tables db).

(* engine: CREATE TABLE fails when the name is taken, DROP TABLE when it is
   absent; dropping a table drops its indexes; index names are schema-wide *)
Definition eng_create (db : dbstate) (n : str) (cols : list str) : eres :=
  if eng_has db n then (db, true)
  else ({| db_tables := db_tables db ++ [{| t_name := n; t_cols := cols; t_rows := [] |}];
           db_indexes := db_indexes db |}, false).
Definition eng_drop (db : dbstate) (n : str) : eres :=
  if eng_has db n
  then ({| db_tables := filter (fun t => negb (same_name_ci (t_name t) n)) (db_tables db);
           db_indexes := filter (fun ix => negb (same_name_ci (snd ix) n)) (db_indexes db) |}, false)
  else (db, true).
Definition eng_create_index (db : dbstate) (name tbl : str) : eres :=
  if existsb (fun ix => str_eqb (fst ix) name) (db_indexes db) || eng_has db name
     || negb (eng_has db tbl) then (db, true)
  else ({| db_tables := db_tables db; db_indexes := db_indexes db ++ [(name, tbl)] |}, false).

Definition class_cols (dc : decl) : list str := idname_of dc :: map (dbname_of (d_style dc)) (d_cols dc).

Fixpoint efold {A} (f : dbstate -> A -> eres) (l : list A) (s : dbstate) : eres :=
  match l with [] => (s, false) | x :: r => ebind (f s x) (efold f r) end.

(* main.createJoinTables *)
Definition create_join_tables (dc : decl) (if_not_exists : bool) (db : dbstate) : eres :=
  efold (fun db j =>
           let n := inter_table dc j in
           if if_not_exists && table_exists db n then (db, false)
           else eng_create db n [join_col dc j; other_col dc j])
        (joins_to_create dc) db.
(* main.createIndexes (ifNotExists is ignored by the code) *)
Definition create_indexes (dc : decl) (db : dbstate) : eres :=
  efold (fun db ix => eng_create_index db (index_name Sqlite dc ix) (table_of dc)) (d_indexes dc) db.

(* main.createTable(ifNotExists=..., createJoinTables=..., createIndexes=...) *)
Definition create_table_full (dc : decl) (if_not_exists cj ci : bool) (db : dbstate) : eres :=
  if if_not_exists && table_exists db (table_of dc) then (db, false)
  else ebind (eng_create db (table_of dc) (class_cols dc)) (fun db1 =>
       ebind (if cj then create_join_tables dc if_not_exists db1 else (db1, false)) (fun db2 =>
       if ci then create_indexes dc db2 else (db2, false))).
Definition create_table_op (dc : decl) (if_not_exists : bool) (db : dbstate) : eres :=
  create_table_full dc if_not_exists true true db.

(* main.dropJoinTables / dropTable(ifExists=...) *)
Definition drop_join_tables (dc : decl) (if_exists : bool) (db : dbstate) : eres :=
  efold (fun db j =>
           let n := inter_table dc j in
           if if_exists && negb (table_exists db n) then (db, false) else eng_drop db n)
        (joins_to_create dc) db.
(* main.dropTable(ifExists=..., dropJoinTables=...) *)
Definition drop_table_full (dc : decl) (if_exists dj : bool) (db : dbstate) : eres :=
  if if_exists && negb (table_exists db (table_of dc)) then (db, false)
  else ebind (eng_drop db (table_of dc)) (fun db1 => if dj then drop_join_tables dc if_exists db1 else (db1, false)).
Definition drop_table_op (dc : decl) (if_exists : bool) (db : dbstate) : eres :=
  drop_table_full dc if_exists true db.

(* ---------- schema evolution on the sqlite code path *)
(* sqlite refuses ALTER TABLE ADD COLUMN for UNIQUE columns and, when the table
   has rows, for NOT NULL columns without a non-NULL default *)
Definition defsql_non_null (c : coldecl) : bool :=
  match c_defsql c with
  | Some [W w] => negb (kw_is w "NULL")
  | Some (_ :: _) => true
  | _ => false
  end.
Definition sqlite_add_ok (empty : bool) (c : coldecl) : bool :=
  negb (eff_unique c || c_altid c) && (negb (c_notnone c || c_altid c) || defsql_non_null c || empty)
  && sqlite_type_ok (c_kind c).

Fixpoint index_of (n : str) (l : list str) : option nat :=
  match l with
  | [] => None
  | x :: r => if str_eqb x n then Some O else match index_of n r with Some k => Some (S k) | None => None end
  end.
Definition znull : Z := (-999999)%Z.   (* stands for NULL in the abstract rows *)
Definition project (from : list str) (to : list str) (row : list Z) : list Z :=
  map (fun c => match index_of c from with Some k => nth k row znull | None => znull end) to.

(* addColumn / delColumn with changeSchema=True, and the same with changeSchema=False
   (n = final python name) *)
Inductive evo_op := EAdd (c : coldecl) | EDel (n : str) | EAddNoSchema (c : coldecl) | EDelNoSchema (n : str).
Definition changes_schema (op : evo_op) : bool :=
  match op with EAdd _ | EDel _ => true | _ => false end.

(* attributes every SQLObject class has (those the case generator draws colliding names from) *)
Definition so_attrs : list str :=
  map s2l ["expire"; "sync"; "set"; "destroySelf"; "select"; "get"; "q"; "j"; "sqlmeta"; "delete";
           "selectBy"; "syncUpdate"; "sqlrepr"; "tableExists"; "createTable"; "_connection"].
(* sqlmeta.addColumn refuses (AssertionError) a column whose name is `id`, is the name of a column
   the class has, or is an attribute of the class (a method, a declared index) -- before anything
   is changed *)
Definition add_clash (dc : decl) (c : coldecl) : bool :=
  let n := final_name c in
  str_eqb n (s2l "id")
  || existsb (fun x => str_eqb (final_name x) n) (d_cols dc)
  || mem_str n so_attrs
  || existsb (fun ix => str_eqb (i_name ix) n) (d_indexes dc).
Definition del_known (dc : decl) (n : str) : bool :=
  existsb (fun c => str_eqb (final_name c) n) (d_cols dc).

Record evo_state := { e_decl : decl; e_db : dbstate }.

Definition set_cols (dc : decl) (cs : list coldecl) : decl :=
  {| d_class := d_class dc; d_table := d_table dc; d_idname := d_idname dc; d_idtype := d_idtype dc;
     d_idsize := d_idsize dc; d_style := d_style dc; d_cols := cs; d_indexes := d_indexes dc;
     d_joins := d_joins dc |}.

Definition map_table (db : dbstate) (n : str) (f : table -> table) : list table :=
  map (fun x => if str_eqb (t_name x) n then f x else x) (db_tables db).

(* One sqlmeta.addColumn / delColumn(changeSchema=True).  addColumn alters the table
   first and leaves the class alone when the engine refuses; delColumn changes the
   class first, then recreates the table.  Returns the new state and whether a
   database statement failed. *)
Definition evo_step (s : evo_state) (op : evo_op) : evo_state * bool :=
  let dc := e_decl s in
  let tn := table_of dc in
  match op with
  | EAdd c =>
      let dc' := set_cols dc (d_cols dc ++ [c]) in
      let empty := match find_table (db_tables (e_db s)) tn with
                   | Some t => match t_rows t with [] => true | _ => false end
                   | None => true
                   end in
      if add_clash dc c then (s, true)
      else if table_exists (e_db s) tn && sqlite_add_ok empty c then
        ({| e_decl := dc';
            e_db := {| db_tables := map_table (e_db s) tn (fun t =>
                                      {| t_name := tn; t_cols := t_cols t ++ [dbname_of (d_style dc) c];
                                         t_rows := map (fun r => r ++ [znull]) (t_rows t) |});
                       db_indexes := db_indexes (e_db s) |} |}, false)
      else (s, true)
  | EDel n =>
      let dc' := set_cols dc (filter (fun c => negb (str_eqb (final_name c) n)) (d_cols dc)) in
      let orig := tn ++ s2l "_ORIGINAL" in
      if negb (existsb (fun c => str_eqb (final_name c) n) (d_cols dc)) then (s, true)   (* ValueError: unknown column *)
      else
      match find_table (db_tables (e_db s)) tn with
      | Some t =>
          (* recreateTableWithoutColumn: rename to <table>_ORIGINAL, create from the
             (already updated) class, INSERT ... SELECT the class's columns, drop
             the renamed table -- and with it every index the table had *)
          let cols' := class_cols dc' in
          if table_exists (e_db s) orig then ({| e_decl := dc'; e_db := e_db s |}, true)
          else if negb (sqlite_accepts dc') then
            (* the class holds a column sqlite refuses to create (left behind by a refused
               ADD COLUMN): CREATE TABLE fails after the rename, only the renamed original stays *)
            ({| e_decl := dc';
                e_db := {| db_tables := map (fun x => if str_eqb (t_name x) tn
                                                      then {| t_name := orig; t_cols := t_cols x; t_rows := t_rows x |}
                                                      else x) (db_tables (e_db s));
                           db_indexes := map (fun ix => if str_eqb (snd ix) tn then (fst ix, orig) else ix)
                                             (db_indexes (e_db s)) |} |},
             true)
          else if forallb (fun c => mem_str c (t_cols t)) cols' then
            ({| e_decl := dc';
                e_db := {| db_tables := map_table (e_db s) tn (fun t =>
                                          {| t_name := tn; t_cols := cols';
                                             t_rows := map (project (t_cols t) cols') (t_rows t) |});
                           db_indexes := filter (fun ix => negb (str_eqb (snd ix) tn)) (db_indexes (e_db s)) |} |},
             false)
          else
            (* class and table were out of step: the copy fails, the renamed
               original and an empty new table stay behind *)
            ({| e_decl := dc';
                e_db := {| db_tables := flat_map (fun x => if str_eqb (t_name x) tn
                                                          then [{| t_name := orig; t_cols := t_cols x; t_rows := t_rows x |};
                                                                {| t_name := tn; t_cols := cols'; t_rows := [] |}]
                                                          else [x]) (db_tables (e_db s));
                           db_indexes := map (fun ix => if str_eqb (snd ix) tn then (fst ix, orig) else ix)
                                             (db_indexes (e_db s)) |} |},
             true)
      | None => ({| e_decl := dc'; e_db := e_db s |}, true)
      end
  | EAddNoSchema c =>
      if add_clash dc c then (s, true)
      else ({| e_decl := set_cols dc (d_cols dc ++ [c]); e_db := e_db s |}, false)
  | EDelNoSchema n =>
      if del_known dc n
      then ({| e_decl := set_cols dc (filter (fun c => negb (str_eqb (final_name c) n)) (d_cols dc)); e_db := e_db s |}, false)
      else (s, true)
  end.

Fixpoint evo_run (s : evo_state) (ops : list evo_op) : evo_state * bool :=
  match ops with
  | [] => (s, false)
  | op :: r => let '(s', e) := evo_step s op in
               let '(s'', e') := evo_run s' r in (s'', e || e')
  end.

(* an op that goes through: an addColumn the engine accepts whatever the table holds, a
   delColumn of a column the class has *)
Definition op_ok (dc : decl) (op : evo_op) : bool :=
  match op with
  | EAdd c => sqlite_add_ok false c && negb (add_clash dc c)
  | EDel n => del_known dc n
  | EAddNoSchema c => negb (add_clash dc c)
  | EDelNoSchema n => del_known dc n
  end.
(* an op the class refuses before anything changes *)
Definition op_refused (dc : decl) (op : evo_op) : bool :=
  match op with
  | EAdd c | EAddNoSchema c => add_clash dc c
  | EDel n | EDelNoSchema n => negb (del_known dc n)
  end.
Fixpoint ops_ok (s : evo_state) (ops : list evo_op) : bool :=
  match ops with
  | [] => true
  | op :: r => op_ok (e_decl s) op && ops_ok (fst (evo_step s op)) r
  end.
