(* C15, second layer -- the instances of one row of the hierarchy of
   Model/Inherit.v, their cached column values, and sync() / syncUpdate() /
   expire() on them (main.py sync, syncUpdate, expire, _SO_loadValue,
   _SO_setValue, get; cache.py CacheFactory.expire; inheritance/__init__.py get).

   For one id and one level l of its chain there are up to two instances:

   - the CHAIN instance: what the `_parent` chain of the leaf instance that
     `get` hands out reaches at level l (attribute reads and writes of
     inherited columns are delegated to it);
   - the CACHE ENTRY of (class l, id) in the connection's identity map: the
     same instance (NSame), nothing (NAbsent), or ANOTHER instance of the same
     row (NOther v, holding the value v it loaded) -- expire() drops the
     entry, the next get() of that class makes a new instance, while the leaf
     keeps its old `_parent`.

   InheritableSQLObject.sync / syncUpdate / expire (since 47d20cb) act on the
   instance and on every instance above it in its `_parent` chain, ancestors
   first.  Definitions only. *)
From Coq Require Import List ZArith Bool.
From Model Require Import Inherit.
Import ListNotations.
Open Scope Z_scope.

Definition ival := option (option Z).       (* None: the attributes are not loaded (expired) *)
Inductive entry := NSame | NAbsent | NOther (v : option Z).
Record slot := mkslot { ci : ival; en : entry }.
Definition imap := cls -> Z -> slot.
(* no instance at all behaves as an expired chain instance outside the cache *)
Definition dflt : slot := mkslot None NAbsent.
Definition iempty : imap := fun _ _ => dflt.
Definition iupd (m : imap) (l : cls) (id : Z) (x : slot) : imap :=
  fun l' id' => if cls_eqb l' l && (id' =? id) then x else m l' id'.

(* _SO_loadValue: an attribute that is missing reloads the row *)
Definition loadv (s : st) (l : cls) (id : Z) (c : ival) : ival :=
  match c with Some v => Some v | None => Some (val_of s l id) end.

(* get() of class l on the way down reads `childName` of the cache entry's
   instance (a missing entry: a new instance is loaded and entered) *)
Definition touch (s : st) (l : cls) (id : Z) (x : slot) : slot :=
  match en x with
  | NSame => mkslot (loadv s l id (ci x)) NSame
  | NOther v => x
  | NAbsent => mkslot (ci x) (NOther (val_of s l id))
  end.
Fixpoint touch_all (s : st) (ls : list cls) (id : Z) (m : imap) : imap :=
  match ls with
  | [] => m
  | l :: r => touch_all s r id (iupd m l id (touch s l id (m l id)))
  end.

(* a new leaf looks for its parents: `while inst.parentClass and not
   inst._parent: inst._parent = parentClass.get(id, childUpdate=True)` -- the
   cache entry of each ancestor class (made if missing) until an instance that
   has its `_parent` already (a chain instance) *)
Fixpoint adopt (s : st) (ls : list cls) (id : Z) (m : imap) : imap :=
  match ls with
  | [] => m
  | l :: r =>
      match en (m l id) with
      | NSame => m
      | NOther v => adopt s r id (iupd m l id (mkslot (Some v) NSame))
      | NAbsent => adopt s r id (iupd m l id (mkslot (Some (val_of s l id)) NSame))
      end
  end.

(* E.get(id) for a row of class k, e in chain k *)
Definition iget (s : st) (e k : cls) (id : Z) (m : imap) : imap :=
  let m1 := touch_all s (seg e k) id m in
  match en (m1 k id) with
  | NOther v => adopt s (tl (rev (chain k))) id (iupd m1 k id (mkslot (Some v) NSame))
  | _ => m1
  end.

(* reading every attribute through every instance of the `_parent` chain *)
Fixpoint load_all (s : st) (ls : list cls) (id : Z) (m : imap) : imap :=
  match ls with
  | [] => m
  | l :: r => load_all s r id (iupd m l id (mkslot (loadv s l id (ci (m l id))) (en (m l id))))
  end.
Definition shown (m : imap) (l : cls) (id : Z) : option Z :=
  match ci (m l id) with Some v => v | None => None end.
Definition ivals (m : imap) (k : cls) (id : Z) : list (option Z) := map (fun l => shown m l id) (chain k).

(* get through e + all reads *)
Definition iview (s : st) (e k : cls) (id : Z) (m : imap) : imap * obj :=
  let m' := load_all s (chain k) id (iget s e k id m) in (m', mkobj id k (ivals m' k id)).

Fixpoint iseen (s : st) (es : list cls) (k : cls) (id : Z) (m : imap) : imap * list obj :=
  match es with
  | [] => (m, [])
  | e :: r => let (m1, o) := iview s e k id m in
              let (m2, os) := iseen s r k id m1 in (m2, o :: os)
  end.

Definition clear_id (m : imap) (id : Z) : imap := fun l i => if i =? id then dflt else m l i.
Fixpoint fresh_slots (s : st) (ls : list cls) (id : Z) (m : imap) : imap :=
  match ls with
  | [] => m
  | l :: r => fresh_slots s r id (iupd m l id (mkslot (Some (val_of s l id)) NSame))
  end.

(* ------------------------------------------------------------------ histories *)
Inductive iop :=
| Old (o : op)
| RawSet (l : cls) (id : Z) (v : option Z)        (* UPDATE <table of l> SET <col> = v WHERE id = ..., behind the ORM's back *)
| Sync (e : cls) (id : Z) (l : cls)                (* o = e.get(id); the instance of o's _parent chain at level l: .sync() *)
| SyncUpdate (e : cls) (id : Z) (l : cls)
| Expire (e : cls) (id : Z) (l : cls)
(* through the object the program HOLDS for the row (the one handed out last; nothing is fetched): *)
| HRead (id : Z) (l a : cls)              (* its _parent-chain instance of level l: read the ONE attribute owned by level a *)
| HSet (id : Z) (a : cls) (v : inval)     (* assign the attribute owned by level a through the leaf; nothing is read back *)
| HSync (id : Z) (l : cls)                (* .sync() on its chain instance of level l *)
| HExpire (id : Z) (l : cls).

Record ist := mkist { db : st; im : imap }.
Definition iinit : ist := mkist init iempty.

(* sync / syncUpdate / expire (direct updates: nothing is ever queued, syncUpdate returns at once).  On one instance: *)
Definition sync_at (s : st) (m : imap) (l : cls) (id : Z) : imap :=
  iupd m l id (mkslot (Some (val_of s l id)) (en (m l id))).
(* expire(): the attributes go; an instance that was not expired already also
   removes the cache entry of (class, id) -- whatever instance that is *)
Definition expire_at (m : imap) (l : cls) (id : Z) : imap :=
  match ci (m l id) with
  | None => m
  | Some _ => iupd m l id (mkslot None NAbsent)
  end.
(* InheritableSQLObject.sync / expire (since 47d20cb): the `_parent` instance first, recursively, then the instance
   itself -- the chain instances of the levels of chain l, root first *)
Fixpoint sync_list (s : st) (m : imap) (ls : list cls) (id : Z) : imap :=
  match ls with [] => m | a :: r => sync_list s (sync_at s m a id) r id end.
Fixpoint expire_list (m : imap) (ls : list cls) (id : Z) : imap :=
  match ls with [] => m | a :: r => expire_list (expire_at m a id) r id end.
Definition sync_up (s : st) (m : imap) (l : cls) (id : Z) : imap := sync_list s m (chain l) id.
Definition expire_up (m : imap) (l : cls) (id : Z) : imap := expire_list m (chain l) id.

Definition on_inst (S : ist) (e : cls) (id : Z) (l : cls) (f : st -> imap -> imap) : ist * res :=
  match get_obj (db S) e id with
  | inl x => (S, RErr x)
  | inr ob =>
      let m1 := iget (db S) e (ocls ob) id (im S) in
      if memc l (chain (ocls ob)) then (mkist (db S) (f (db S) m1), ROk)
      else (mkist (db S) m1, RSkip)
  end.

Definition istep (auto : bool) (S : ist) (o : iop) : ist * res :=
  match o with
  | RawSet l id v =>
      match sql_update l id v (db S) with
      | inl x => (S, RErr x)
      | inr s' => (mkist s' (im S), ROk)
      end
  | Sync e id l => on_inst S e id l (fun s m => sync_up s m l id)
  | SyncUpdate e id l => on_inst S e id l (fun _ m => m)
  | Expire e id l => on_inst S e id l (fun _ m => expire_up m l id)
  | HRead id l a =>
      match born_as (db S) id with
      | None => (S, RSkip)
      | Some k =>
          if memc l (chain k) && memc a (chain l) then
            (* the read is delegated to the chain instance of level a; a missing attribute reloads that instance's row *)
            let m' := iupd (im S) a id (mkslot (loadv (db S) a id (ci (im S a id))) (en (im S a id))) in
            (mkist (db S) m', RObj (mkobj id a [shown m' a id]))
          else (S, RSkip)
      end
  | HSync id l =>
      match born_as (db S) id with
      | None => (S, RSkip)
      | Some k => if memc l (chain k) then (mkist (db S) (sync_up (db S) (im S) l id), ROk) else (S, RSkip)
      end
  | HExpire id l =>
      match born_as (db S) id with
      | None => (S, RSkip)
      | Some k => if memc l (chain k) then (mkist (db S) (expire_up (im S) l id), ROk) else (S, RSkip)
      end
  | HSet id a v =>
      match born_as (db S) id with
      | None => (S, RSkip)
      | Some k =>
          if memc a (chain k) then
            match validate v with
            | inl x => (S, RErr x)
            | inr ov =>
                match sql_update a id ov (db S) with
                | inl x => (S, RErr x)
                | inr s' => (mkist s' (match ci (im S a id) with
                                       | Some _ => iupd (im S) a id (mkslot (Some ov) (en (im S a id)))
                                       | None => im S
                                       end), ROk)
                end
            end
          else (S, RSkip)
      end
  | Old (Create k a unk) =>
      match step auto (db S) (Create k a unk) with
      | (s', RObj ob) => (mkist s' (fresh_slots s' (chain k) (oid ob) (im S)), RObj ob)
      | (s', r) => (mkist s' (im S), r)
      end
  | Old (Get e id) =>
      match get_obj (db S) e id with
      | inl x => (S, RErr x)
      | inr ob => let (m', o') := iview (db S) e (ocls ob) id (im S) in (mkist (db S) m', RObj o')
      end
  | Old (SetAttr e id col v) =>
      match get_obj (db S) e id with
      | inl x => (S, RErr x)
      | inr ob =>
          let k := ocls ob in
          let m1 := iget (db S) e k id (im S) in
          if memc col (chain k) then
            match validate v with
            | inl x => (mkist (db S) m1, RErr x)
            | inr ov =>
                match sql_update col id ov (db S) with
                | inl x => (mkist (db S) m1, RErr x)
                | inr s' =>
                    (* cached only on an instance that is not expired *)
                    let m2 := match ci (m1 col id) with
                              | Some _ => iupd m1 col id (mkslot (Some ov) (en (m1 col id)))
                              | None => m1
                              end in
                    let (m3, os) := iseen s' (chain k) k id m2 in
                    (mkist s' m3, RSeen os)
                end
            end
          else (mkist (db S) m1, RSkip)
      end
  | Old (Destroy e id) =>
      let (s', r) := step auto (db S) (Destroy e id) in
      (mkist s' (match get_obj (db S) e id with inl _ => im S | inr _ => clear_id (im S) id end), r)
  | Old o' =>
      (* every other operation runs on an empty identity map and leaves it empty *)
      let (s', r) := step auto (db S) o' in (mkist s' iempty, r)
  end.

Fixpoint irun (auto : bool) (S : ist) (ops : list iop) : ist :=
  match ops with
  | [] => S
  | o :: r => irun auto (fst (istep auto S o)) r
  end.
Fixpoint itrace (auto : bool) (S : ist) (ops : list iop) : list (ist * res) :=
  match ops with
  | [] => []
  | o :: r => let sr := istep auto S o in sr :: itrace auto (fst sr) r
  end.

Definition itrigger (auto : bool) (S : ist) (o : iop) : bool :=
  match o with Old o' => trigger auto (db S) o' | _ => false end.
Fixpoint iclean (auto : bool) (S : ist) (ops : list iop) : bool :=
  match ops with
  | [] => true
  | o :: r => negb (itrigger auto S o) && iclean auto (fst (istep auto S o)) r
  end.
Definition ireachable (auto : bool) (S : ist) : Prop :=
  exists ops, iclean auto iinit ops = true /\ S = irun auto iinit ops.

(* ------------------------------------------------------------------ notions of the refresh theorems *)
(* the value of level l in what get handed out *)
Definition oat (ob : obj) (l : cls) : option Z := nth (pred (level l)) (ovals ob) None.
Definition stored (s : st) (k : cls) (id : Z) : list (option Z) := map (fun l => val_of s l id) (chain k).

(* no OTHER instance of a level of the row sits in the identity map with a value that is not the stored one *)
Definition entries_fresh (S : ist) (k : cls) (id : Z) : Prop :=
  forall l v, In l (chain k) -> en (im S l id) = NOther v -> v = val_of (db S) l id.


(* sync() (true) or expire() (false) on the instance of level l of what e.get(id) hands out; ... on every level of ls *)
Definition hrefresh_op (sync : bool) : Z -> cls -> iop := if sync then HSync else HExpire.
Definition refresh_op (sync : bool) : cls -> Z -> cls -> iop := if sync then Sync else Expire.
Definition all_levels (sync : bool) (e : cls) (id : Z) (ls : list cls) : list iop := map (refresh_op sync e id) ls.
Definition no_raw (o : iop) : bool := match o with RawSet _ _ _ => false | _ => true end.
