(* Model/Txn.v -- a parent connection and one Transaction object over the same
   sqlite file, transcribed from sqlobject/dbconnection.py (class Transaction:
   query / queryOne / queryInsertID / iterSelect / _SO_delete / commit / rollback /
   _makeObsolete / begin / assertActive / __getattr__; ConnWrapper),
   sqlobject/main.py (get / _init / _SO_loadValue / _SO_setValue / sync / expire /
   _create / _SO_finishCreate / destroySelf), sqlobject/cache.py
   (CacheFactory / CacheSet) and sqlobject/sqlite/sqliteconnection.py.
   Definitions only.

   Fixture: one class with two nullable Int columns a, b; two options of the class are part of the
   configuration: lazyUpdate (assignments are queued on the instance until syncUpdate()/sync()) and a UNIQUE
   constraint on column b (a statement that would make two rows carry the same non-NULL b is refused:
   DuplicateEntryError; nothing is written, but the statement was sent).  The parent
   connection and the transaction have each their own CacheSet and therefore
   their own instances of a row: the model keeps one heap and one cache per
   side.

   Database (sqlite, rollback-journal, DB-API connections in the legacy
   isolation_level="" mode, timeout 0): `committed` is what every connection
   other than the transaction's sees; `pending = Some t` from the
   transaction's first INSERT/UPDATE/DELETE (sqlite's RESERVED lock is held
   from there on, also when the statement matched no row) until its COMMIT or
   ROLLBACK, and `t` is the transaction's private view.  While the lock is
   held a write on the parent connection fails at once (OperationalError,
   database is locked); reads on the parent connection succeed and see
   `committed`.  Before its first write the transaction's connection is in
   autocommit mode and reads `committed`. *)
From Coq Require Import List ZArith Bool.
Import ListNotations.
Open Scope Z_scope.

(* ------------------------------------------------------------------ values, rows, tables *)
Inductive side := Par | Txn.
Definition side_eqb (a b : side) : bool :=
  match a, b with Par, Par | Txn, Txn => true | _, _ => false end.
Definition other (sd : side) : side := match sd with Par => Txn | Txn => Par end.

Definition val := option Z.                     (* None = NULL *)
Definition val_eqb (a b : val) : bool :=
  match a, b with None, None => true | Some x, Some y => x =? y | _, _ => false end.
Definition row := list val.                     (* columns by creation order: 0 = a, 1 = b *)
Definition ncols : nat := 2.

Record table := { t_rows : list (Z * row); t_next : Z }.   (* rows by ascending id; t_next = sqlite_sequence + 1 *)
Definition empty_table : table := {| t_rows := []; t_next := 1 |}.

Fixpoint set_nth {X} (n : nat) (x : X) (l : list X) : list X :=
  match l, n with
  | [], _ => []
  | _ :: r, O => x :: r
  | y :: r, S n' => y :: set_nth n' x r
  end.
Fixpoint assoc {X} (id : Z) (l : list (Z * X)) : option X :=
  match l with [] => None | (k, v) :: r => if k =? id then Some v else assoc id r end.
Fixpoint assoc_remove {X} (id : Z) (l : list (Z * X)) : list (Z * X) :=
  match l with [] => [] | (k, v) :: r => if k =? id then assoc_remove id r else (k, v) :: assoc_remove id r end.
(* dict assignment: keep the position of an existing key, append a new one *)
Fixpoint assoc_set {X} (id : Z) (x : X) (l : list (Z * X)) : list (Z * X) :=
  match l with
  | [] => [(id, x)]
  | (k, v) :: r => if k =? id then (k, x) :: r else (k, v) :: assoc_set id x r
  end.
Fixpoint mem_nat (n : nat) (l : list nat) : bool :=
  match l with [] => false | x :: r => Nat.eqb x n || mem_nat n r end.
Fixpoint mem_z (n : Z) (l : list Z) : bool :=
  match l with [] => false | x :: r => (x =? n) || mem_z n r end.

Definition tbl_lookup (t : table) (id : Z) : option row := assoc id (t_rows t).
Definition tbl_insert (r : row) (t : table) : Z * table :=
  (t_next t, {| t_rows := t_rows t ++ [(t_next t, r)]; t_next := t_next t + 1 |}).
Definition tbl_update (id : Z) (c : nat) (v : val) (t : table) : table :=
  match assoc id (t_rows t) with
  | None => t                                    (* UPDATE of an absent row changes nothing *)
  | Some r => {| t_rows := assoc_set id (set_nth c v r) (t_rows t); t_next := t_next t |}
  end.
Definition tbl_delete (id : Z) (t : table) : table :=
  {| t_rows := assoc_remove id (t_rows t); t_next := t_next t |}.

(* a UNIQUE constraint on column `col`: would value v collide with a row other than `skip`?  (NULLs never collide) *)
Definition clash (col : nat) (t : table) (skip : option Z) (v : val) : bool :=
  match v with
  | None => false
  | Some _ =>
      existsb (fun e => negb (match skip with Some id => fst e =? id | None => false end) && val_eqb (nth col (snd e) None) v)
              (t_rows t)
  end.
(* an UPDATE of row id: a row that is not there matches nothing and collides with nothing *)
Definition upd_clash (col : nat) (t : table) (id : Z) (v : val) : bool :=
  match tbl_lookup t id with Some _ => clash col t (Some id) v | None => false end.

(* ------------------------------------------------------------------ exceptions, statements *)
Inductive exc :=
| ENotFound          (* SQLObjectNotFound *)
| EOperational       (* database is locked *)
| EAssertion         (* assertActive / begin on a running transaction *)
| EAttribute         (* ConnWrapper method access on a Python without inspect.getargspec *)
| EBadHandle         (* harness: the slot is empty *)
| EDuplicate         (* DuplicateEntryError: the UNIQUE column refuses the statement *)
| EPickling.         (* pickle.PicklingError: __getstate__ refuses an instance bound to an explicit connection *)

Inductive stmt :=
| SSelectOne (sd : side) (id : Z)
| SSelectCol (sd : side) (id : Z) (c : nat)           (* one column of one row (_SO_getValue, cacheValues = False) *)
| SSelect (sd : side)
| SCount (sd : side)
| SInsert (sd : side)
| SUpdate (sd : side) (id : Z) (c : nat)
| SUpdateCols (sd : side) (id : Z) (cs : list nat)     (* one UPDATE setting several columns (syncUpdate) *)
| SDelete (sd : side) (id : Z).

(* ------------------------------------------------------------------ state *)
Record inst := {
  i_id : Z;
  i_vals : list (option val);        (* the _SO_val_<col> attributes; None = attribute absent *)
  i_expired : bool;                  (* sqlmeta.expired *)
  i_obsolete : bool;                 (* sqlmeta._obsolete (destroySelf) *)
  i_pending : list (option val)      (* _SO_createValues of a lazyUpdate instance, by column: Some v = an assignment queued and
                                        not written yet; sqlmeta.dirty = some column is queued *)
}.

Record cachef := {
  c_present : bool;                  (* a CacheFactory exists for the class (made on first get / created) *)
  c_strong : list (Z * nat);         (* CacheFactory.cache, dict order *)
  c_weak : list (Z * nat);           (* CacheFactory.expiredCache (weak references), dict order *)
  c_count : Z; c_offset : Z          (* cullCount, cullOffset *)
}.
Definition empty_cache : cachef := {| c_present := false; c_strong := []; c_weak := []; c_count := 0; c_offset := 0 |}.

(* one connection object (the parent DBConnection, or the Transaction): its instances and its CacheSet *)
Record conn := { heap : list inst; cache : cachef }.
Definition empty_conn : conn := {| heap := []; cache := empty_cache |}.

(* wrapOk: ConnWrapper can wrap class methods (inspect.getargspec exists in the running Python) *)
Record config := { doCache : bool; cullFreq : Z; cullFrac : Z; wrapOk : bool;
                   lazy : bool;       (* sqlmeta.lazyUpdate of the class *)
                   uniq : bool;       (* column b carries a UNIQUE constraint *)
                   cacheVals : bool }.  (* sqlmeta.cacheValues of the class: false = every attribute read queries the database *)

Record st := {
  par : conn;                        (* parent connection *)
  txn : conn;                        (* the Transaction *)
  slots : list (option (side * nat));(* references the application holds *)
  committed : table;
  pending : option table;            (* the transaction's private view while it holds the write lock *)
  deleted : list Z;                  (* Transaction._deletedCache[class] *)
  tobs : bool;                       (* Transaction._obsolete *)
  log : list stmt                    (* statements of the current operation, newest first *)
}.

Definition init : st :=
  {| par := empty_conn; txn := empty_conn; slots := []; committed := empty_table; pending := None;
     deleted := []; tobs := false; log := [] |}.

Definition with_par (s : st) x := {| par := x; txn := txn s; slots := slots s; committed := committed s; pending := pending s; deleted := deleted s; tobs := tobs s; log := log s |}.
Definition with_txn (s : st) x := {| par := par s; txn := x; slots := slots s; committed := committed s; pending := pending s; deleted := deleted s; tobs := tobs s; log := log s |}.
Definition with_slots (s : st) x := {| par := par s; txn := txn s; slots := x; committed := committed s; pending := pending s; deleted := deleted s; tobs := tobs s; log := log s |}.
Definition with_committed (s : st) x := {| par := par s; txn := txn s; slots := slots s; committed := x; pending := pending s; deleted := deleted s; tobs := tobs s; log := log s |}.
Definition with_pending (s : st) x := {| par := par s; txn := txn s; slots := slots s; committed := committed s; pending := x; deleted := deleted s; tobs := tobs s; log := log s |}.
Definition with_deleted (s : st) x := {| par := par s; txn := txn s; slots := slots s; committed := committed s; pending := pending s; deleted := x; tobs := tobs s; log := log s |}.
Definition with_tobs (s : st) x := {| par := par s; txn := txn s; slots := slots s; committed := committed s; pending := pending s; deleted := deleted s; tobs := x; log := log s |}.
Definition with_log (s : st) x := {| par := par s; txn := txn s; slots := slots s; committed := committed s; pending := pending s; deleted := deleted s; tobs := tobs s; log := x |}.

Definition cn (s : st) (sd : side) : conn := match sd with Par => par s | Txn => txn s end.
Definition with_cn (s : st) (sd : side) (c : conn) : st := match sd with Par => with_par s c | Txn => with_txn s c end.
Definition cch (s : st) (sd : side) : cachef := cache (cn s sd).
Definition with_cch (s : st) (sd : side) (c : cachef) : st := with_cn s sd {| heap := heap (cn s sd); cache := c |}.
Definition with_heap (s : st) (sd : side) (h : list inst) : st := with_cn s sd {| heap := h; cache := cache (cn s sd) |}.

(* what a connection reads *)
Definition view (s : st) (sd : side) : table :=
  match sd with
  | Par => committed s
  | Txn => match pending s with Some t => t | None => committed s end
  end.

(* ------------------------------------------------------------------ the result monad *)
Inductive res (A : Type) := Ret (a : A) | Raise (e : exc).
Arguments Ret {A}. Arguments Raise {A}.
Definition M (A : Type) := st -> res A * st.
Definition ret {A} (a : A) : M A := fun s => (Ret a, s).
Definition raise {A} (e : exc) : M A := fun s => (Raise e, s).
Definition bind {A B} (m : M A) (f : A -> M B) : M B :=
  fun s => match m s with (Ret a, s') => f a s' | (Raise e, s') => (Raise e, s') end.
Notation "x <- m ;; k" := (bind m (fun x => k)) (at level 61, m at next level, right associativity).
Notation "m ;;; k" := (bind m (fun _ => k)) (at level 61, right associativity).
Definition gets {A} (f : st -> A) : M A := fun s => (Ret (f s), s).
Definition modify (f : st -> st) : M unit := fun s => (Ret tt, f s).

(* ------------------------------------------------------------------ instances *)
Definition blank_inst (id : Z) : inst :=
  {| i_id := id; i_vals := [None; None]; i_expired := false; i_obsolete := false; i_pending := [None; None] |}.
Definition get_inst (s : st) (sd : side) (o : nat) : inst := nth o (heap (cn s sd)) (blank_inst 0).
Definition upd_inst (sd : side) (o : nat) (f : inst -> inst) : M unit :=
  modify (fun s => with_heap s sd (set_nth o (f (get_inst s sd o)) (heap (cn s sd)))).
Definition new_inst (sd : side) (i : inst) : M nat :=
  fun s => (Ret (length (heap (cn s sd))), with_heap s sd (heap (cn s sd) ++ [i])).

Definition i_with_vals (i : inst) v := {| i_id := i_id i; i_vals := v; i_expired := i_expired i; i_obsolete := i_obsolete i; i_pending := i_pending i |}.
Definition i_with_expired (i : inst) v := {| i_id := i_id i; i_vals := i_vals i; i_expired := v; i_obsolete := i_obsolete i; i_pending := i_pending i |}.
Definition i_with_obsolete (i : inst) v := {| i_id := i_id i; i_vals := i_vals i; i_expired := i_expired i; i_obsolete := v; i_pending := i_pending i |}.
Definition i_with_pending (i : inst) v := {| i_id := i_id i; i_vals := i_vals i; i_expired := i_expired i; i_obsolete := i_obsolete i; i_pending := v |}.

(* the queued assignments of a lazyUpdate instance *)
Definition is_some {X} (x : option X) : bool := match x with Some _ => true | None => false end.
Definition dirty (i : inst) : bool := existsb is_some (i_pending i).
Definition no_queue (p : list (option val)) : list (option val) := map (fun _ => None) p.
Fixpoint queued_from (c : nat) (p : list (option val)) : list (nat * val) :=
  match p with
  | [] => []
  | Some v :: r => (c, v) :: queued_from (S c) r
  | None :: r => queued_from (S c) r
  end.
Definition queued (i : inst) : list (nat * val) := queued_from 0 (i_pending i).   (* by creation order of the columns *)
(* a row as the instance shows it after a reload: queued values stay on top *)
Fixpoint overlay (p : list (option val)) (r : row) : row :=
  match p, r with
  | Some v :: ps, _ :: rs => v :: overlay ps rs
  | None :: ps, x :: rs => x :: overlay ps rs
  | _, _ => r
  end.
(* the attributes that speak about the database: those of the columns with no assignment queued *)
Fixpoint mask (vals : list (option val)) (p : list (option val)) : list (option val) :=
  match vals, p with
  | v :: vs, Some _ :: ps => None :: mask vs ps
  | v :: vs, None :: ps => v :: mask vs ps
  | _, _ => vals
  end.

(* ------------------------------------------------------------------ liveness (CPython reference counting) *)
Definition slot_refs (s : st) (sd : side) : list nat :=
  flat_map (fun x => match x with
                     | Some (sd', o) => if side_eqb sd sd' then [o] else []
                     | None => []
                     end) (slots s).
(* alive = referenced by the application, by the connection's strong cache, or by a frame of the running operation *)
Definition alive (s : st) (sd : side) (roots : list nat) (o : nat) : bool :=
  mem_nat o roots || mem_nat o (slot_refs s sd) || mem_nat o (map snd (c_strong (cch s sd))).

(* ------------------------------------------------------------------ the database *)
Definition dead (s : st) (sd : side) : bool := match sd with Txn => tobs s | Par => false end.

(* a reading statement: Transaction.query* assert the transaction is active before anything is sent *)
Definition stmt_read (sd : side) (q : stmt) : M table :=
  fun s => if dead s sd then (Raise EAssertion, s)
           else (Ret (view s sd), with_log s (q :: log s)).

(* a writing statement.  `refused t`: the UNIQUE constraint refuses it against table t -- it was sent and has taken the
   write lock (on the transaction's connection the transaction is open from here on, with the view it had), nothing is
   written, DuplicateEntryError *)
Definition stmt_write {A} (sd : side) (q : stmt) (refused : table -> bool) (f : table -> A * table) : M A :=
  fun s =>
    match sd with
    | Txn =>
        if tobs s then (Raise EAssertion, s)
        else if refused (view s Txn) then (Raise EDuplicate, with_pending (with_log s (q :: log s)) (Some (view s Txn)))
        else let '(a, t) := f (view s Txn) in
             (Ret a, with_pending (with_log s (q :: log s)) (Some t))
    | Par =>
        match pending s with
        | Some _ => (Raise EOperational, with_log s (q :: log s))      (* the transaction holds the write lock *)
        | None => if refused (committed s) then (Raise EDuplicate, with_log s (q :: log s))
                  else let '(a, t) := f (committed s) in
                       (Ret a, with_committed (with_log s (q :: log s)) t)
        end
    end.

Definition db_select_one (sd : side) (id : Z) : M (option row) :=
  t <- stmt_read sd (SSelectOne sd id) ;; ret (tbl_lookup t id).
Definition db_delete (sd : side) (id : Z) : M unit :=
  stmt_write sd (SDelete sd id) (fun _ => false) (fun t => (tt, tbl_delete id t)).

Definition uniq_col : nat := 1.            (* column b *)
Fixpoint assoc_nat {X} (c : nat) (l : list (nat * X)) : option X :=
  match l with [] => None | (k, x) :: r => if Nat.eqb k c then Some x else assoc_nat c r end.
(* one UPDATE setting every queued column: the row gets the queued values on top *)
Definition tbl_update_cols (id : Z) (p : list (option val)) (t : table) : table :=
  match assoc id (t_rows t) with
  | None => t
  | Some r => {| t_rows := assoc_set id (overlay p r) (t_rows t); t_next := t_next t |}
  end.
(* every queued column exists in the row *)
Fixpoint fitsb (p : list (option val)) (r : row) : bool :=
  match p, r with
  | [], _ => true
  | Some _ :: _, [] => false
  | None :: ps, [] => fitsb ps []
  | _ :: ps, _ :: rs => fitsb ps rs
  end.

Section WithConfig.
Variable cfg : config.

Definition db_insert (sd : side) (r : row) : M Z :=
  stmt_write sd (SInsert sd) (fun t => uniq cfg && clash uniq_col t None (nth uniq_col r None)) (tbl_insert r).
Definition db_update (sd : side) (id : Z) (c : nat) (v : val) : M unit :=
  stmt_write sd (SUpdate sd id c) (fun t => uniq cfg && Nat.eqb c uniq_col && upd_clash uniq_col t id v)
             (fun t => (tt, tbl_update id c v t)).
(* syncUpdate: ONE UPDATE statement with every queued column *)
Definition db_update_cols (sd : side) (id : Z) (p : list (option val)) : M unit :=
  stmt_write sd (match queued_from 0 p with [(c, _)] => SUpdate sd id c | l => SUpdateCols sd id (map fst l) end)
             (fun t => uniq cfg && match nth uniq_col p None with Some v => upd_clash uniq_col t id v | None => false end)
             (fun t => (tt, tbl_update_cols id p t)).

(* ------------------------------------------------------------------ CacheFactory / CacheSet of one side *)
Definition set_cch (sd : side) (c : cachef) : M unit := modify (fun s => with_cch s sd c).
Definition c_with (strong weak : list (Z * nat)) (cnt off : Z) : cachef :=
  {| c_present := true; c_strong := strong; c_weak := weak; c_count := cnt; c_offset := off |}.

(* positions cullOffset, cullOffset+cullFraction, ... of the key list *)
Fixpoint pick_every (frac : nat) (skip : nat) (l : list (Z * nat)) : list (Z * nat) :=
  match l with
  | [] => []
  | x :: r => match skip with
              | O => x :: pick_every frac (Nat.pred frac) r
              | S n => pick_every frac n r
              end
  end.

Definition cull (sd : side) (roots : list nat) : M unit :=
  s <- gets (fun s => s) ;;
  let c := cch s sd in
  let weak1 := filter (fun e => alive s sd roots (snd e)) (c_weak c) in
  let victims := pick_every (Z.to_nat (cullFrac cfg)) (Z.to_nat (c_offset c)) (c_strong c) in
  let strong' := filter (fun e => negb (existsb (fun v => fst v =? fst e) victims)) (c_strong c) in
  (* an evicted object keeps a weak entry only if something else still references it *)
  let s1 := with_cch s sd (c_with strong' weak1 (c_count c) (c_offset c)) in
  let weak2 := fold_left (fun w e => if alive s1 sd roots (snd e) then assoc_set (fst e) (snd e) w else w) victims weak1 in
  set_cch sd (c_with strong' weak2 (c_count c) ((c_offset c + 1) mod (cullFrac cfg))).

(* the counter bookkeeping at the head of CacheFactory.get / .created *)
Definition cull_tick (sd : side) (roots : list nat) : M unit :=
  c <- gets (fun s => cch s sd) ;;
  if c_count c >? cullFreq cfg then
    set_cch sd (c_with (c_strong c) (c_weak c) 0 (c_offset c)) ;;; cull sd roots
  else set_cch sd (c_with (c_strong c) (c_weak c) (c_count c + 1) (c_offset c)).

(* CacheSet.get: Some o = hit; None = miss (the caller creates and puts) *)
Definition ensure_factory (sd : side) : M unit :=
  c <- gets (fun s => cch s sd) ;;
  set_cch sd (c_with (c_strong c) (c_weak c) (c_count c) (c_offset c)).

Definition cache_get (sd : side) (id : Z) (roots : list nat) : M (option nat) :=
  ensure_factory sd ;;;
  if doCache cfg then
    cull_tick sd roots ;;;
    s <- gets (fun s => s) ;;
    let c := cch s sd in
    match assoc id (c_strong c) with
    | Some o => ret (Some o)
    | None =>
        match assoc id (c_weak c) with
        | None => ret None
        | Some o =>
            let weak' := assoc_remove id (c_weak c) in
            if alive s sd roots o then
              set_cch sd (c_with (assoc_set id o (c_strong c)) weak' (c_count c) (c_offset c)) ;;; ret (Some o)
            else
              set_cch sd (c_with (c_strong c) weak' (c_count c) (c_offset c)) ;;; ret None
        end
    end
  else
    s <- gets (fun s => s) ;;
    let c := cch s sd in
    match assoc id (c_weak c) with
    | None => ret None
    | Some o =>
        if alive s sd roots o then ret (Some o)
        else set_cch sd (c_with (c_strong c) (assoc_remove id (c_weak c)) (c_count c) (c_offset c)) ;;; ret None
    end.

Definition cache_put (sd : side) (id : Z) (o : nat) : M unit :=
  c <- gets (fun s => cch s sd) ;;
  if doCache cfg then set_cch sd (c_with (assoc_set id o (c_strong c)) (c_weak c) (c_count c) (c_offset c))
  else set_cch sd (c_with (c_strong c) (assoc_set id o (c_weak c)) (c_count c) (c_offset c)).

Definition cache_created (sd : side) (id : Z) (o : nat) : M unit :=
  ensure_factory sd ;;;
  if doCache cfg then
    cull_tick sd [o] ;;;
    c <- gets (fun s => cch s sd) ;;
    set_cch sd (c_with (assoc_set id o (c_strong c)) (c_weak c) (c_count c) (c_offset c))
  else
    c <- gets (fun s => cch s sd) ;;
    set_cch sd (c_with (c_strong c) (assoc_set id o (c_weak c)) (c_count c) (c_offset c)).

(* CacheFactory.expire: purges the entry -- but returns early when the connection does not cache *)
Definition cache_expire (sd : side) (id : Z) : M unit :=
  c <- gets (fun s => cch s sd) ;;
  if negb (doCache cfg) || negb (c_present c) then ret tt
  else set_cch sd (c_with (assoc_remove id (c_strong c)) (assoc_remove id (c_weak c)) (c_count c) (c_offset c)).

(* CacheFactory.purge (destroySelf): drops the strong and the weak entry whatever the caching mode *)
Definition cache_purge (sd : side) (id : Z) : M unit :=
  c <- gets (fun s => cch s sd) ;;
  if negb (c_present c) then ret tt
  else set_cch sd (c_with (assoc_remove id (c_strong c)) (assoc_remove id (c_weak c)) (c_count c) (c_offset c)).

(* CacheFactory.tryGet (pure) *)
Definition try_get (s : st) (sd : side) (id : Z) : option nat :=
  let c := cch s sd in
  match (match assoc id (c_weak c) with Some o => if alive s sd [] o then Some o else None | None => None end) with
  | Some o => Some o
  | None => if doCache cfg then assoc id (c_strong c) else None
  end.

(* CacheFactory.allIDs: strong keys, then the ids whose weak reference is live *)
Definition all_ids (s : st) (sd : side) : list Z :=
  let c := cch s sd in
  (if doCache cfg then map fst (c_strong c) else []) ++
  map fst (filter (fun e => alive s sd [] (snd e)) (c_weak c)).

(* ------------------------------------------------------------------ SQLObject *)
(* _SO_selectInit *)
Definition select_init (sd : side) (o : nat) (r : row) : M unit :=
  upd_inst sd o (fun i => i_with_vals i (map Some r)).

(* SQLObject.get(id, connection, selectResults) *)
Definition so_get (sd : side) (id : Z) (sel : option row) (roots : list nat) : M nat :=
  hit <- cache_get sd id roots ;;
  match hit with
  | Some o =>
      match sel with
      | Some r =>
          i <- gets (fun s => get_inst s sd o) ;;
          if dirty i then ret o               (* a row fetched by a select does not overwrite queued assignments *)
          else select_init sd o r ;;; upd_inst sd o (fun i => i_with_expired i false) ;;; ret o
      | None => ret o
      end
  | None =>
      o <- new_inst sd (blank_inst id) ;;
      match sel with
      | Some r => select_init sd o r ;;; cache_put sd id o ;;; ret o
      | None =>
          r <- db_select_one sd id ;;
          match r with
          | None => raise ENotFound
          | Some r => select_init sd o r ;;; cache_put sd id o ;;; ret o
          end
      end
  end.

Definition set_val (c : nat) (v : val) (i : inst) : inst := i_with_vals i (set_nth c (Some v) (i_vals i)).

(* the row as an instance shows it after a reload: the queued assignments of a lazyUpdate instance stay on top *)
Definition reloaded (i : inst) (r : row) : row := if lazy cfg && dirty i then overlay (i_pending i) r else r.

(* attribute read.  cacheValues = False (_SO_getValue): the column is fetched every time -- AssertionError when the
   instance was destroyed (before anything is sent) or the row is not there; the instance is not touched (it still carries
   the attributes its last load left, nothing reads them).  Else _SO_loadValue: *)
Definition so_read (sd : side) (o : nat) (c : nat) : M val :=
  i <- gets (fun s => get_inst s sd o) ;;
  if negb (cacheVals cfg) then
    if i_obsolete i then raise EAssertion
    else
      t <- stmt_read sd (SSelectCol sd (i_id i) c) ;;
      match tbl_lookup t (i_id i) with
      | None => raise EAssertion
      | Some r => ret (nth c r None)
      end
  else
  match nth c (i_vals i) None with
  | Some v => ret v
  | None =>
      upd_inst sd o (fun i => i_with_expired i false) ;;;
      r <- db_select_one sd (i_id i) ;;
      match r with
      | None => raise ENotFound
      | Some r =>
          (* unwritten assignments stay visible after the reload *)
          let r' := reloaded i r in
          select_init sd o r' ;;; ret (nth c r' None)
      end
  end.

(* attribute assignment (_SO_setValue).  Eager: UPDATE, then cache the value -- unless the instance is
   flagged expired (it reloads the whole row on the next read) or the class does not cache values.  lazyUpdate: nothing is sent; the value is
   queued and cached (also on an expired instance) *)
Definition so_set (sd : side) (o : nat) (c : nat) (v : val) : M unit :=
  i <- gets (fun s => get_inst s sd o) ;;
  if lazy cfg then upd_inst sd o (fun i => i_with_pending (set_val c v i) (set_nth c (Some v) (i_pending i)))
  else
    db_update sd (i_id i) c v ;;;
    if i_expired i || negb (cacheVals cfg) then ret tt else upd_inst sd o (set_val c v).

(* syncUpdate: nothing queued, nothing done (no statement, not even the check that the transaction is active);
   else the one UPDATE, then the queue is emptied (it stays when the statement raised) *)
Definition so_sync_update (sd : side) (o : nat) : M unit :=
  i <- gets (fun s => get_inst s sd o) ;;
  if dirty i then
    db_update_cols sd (i_id i) (i_pending i) ;;; upd_inst sd o (fun i => i_with_pending i (no_queue (i_pending i)))
  else ret tt.

(* sqlmeta._perConnection: the instance was made with an explicit connection other than its class's.  The class of the
   fixture lives on the parent connection, so these are exactly the instances obtained through the Transaction
   (Cls.get(id, connection=trans), Cls(connection=trans, ...), a select through trans, trans.Cls(...)) *)
Definition per_conn (sd : side) : bool := match sd with Txn => true | Par => false end.

(* pickle.dumps(inst) -> __getstate__: an instance bound to an explicit connection is refused (PicklingError) BEFORE anything
   else happens; else a lazyUpdate instance with queued assignments writes them first (syncUpdate: one UPDATE; an exception
   of the statement leaves pickle.dumps); the pickled state is the id and whatever column attributes the instance carries *)
Definition so_pickle (sd : side) (o : nat) : M (Z * list (option val)) :=
  if per_conn sd then raise EPickling
  else
    i <- gets (fun s => get_inst s sd o) ;;
    (if lazy cfg && dirty i then so_sync_update sd o else ret tt) ;;;
    i' <- gets (fun s => get_inst s sd o) ;;
    ret (i_id i', i_vals i').

(* sync: write what is queued (lazyUpdate), then reload *)
Definition so_reload (sd : side) (o : nat) : M unit :=
  i <- gets (fun s => get_inst s sd o) ;;
  r <- db_select_one sd (i_id i) ;;
  match r with
  | None => raise ENotFound
  | Some r => select_init sd o r ;;; upd_inst sd o (fun i => i_with_expired i false)
  end.
Definition so_sync (sd : side) (o : nat) : M unit :=
  (if lazy cfg then so_sync_update sd o else ret tt) ;;; so_reload sd o.

(* expire: always drop whatever column attributes are there (a missing one is no error) and whatever is queued; flag the instance and purge
   the row's cache entry only if it was not flagged already (an instance that is expired already left the cache then;
   the row's entry may be another instance's by now) *)
Definition so_expire (sd : side) (o : nat) : M unit :=
  i <- gets (fun s => get_inst s sd o) ;;
  upd_inst sd o (fun i => i_with_pending (i_with_vals i (map (fun _ => None) (i_vals i))) (no_queue (i_pending i))) ;;;
  if i_expired i then ret tt
  else
    upd_inst sd o (fun i => i_with_expired i true) ;;;
    cache_expire sd (i_id i).

(* destroySelf: Transaction._SO_delete notes the id before it sends the DELETE *)
Definition so_destroy (sd : side) (o : nat) : M unit :=
  i <- gets (fun s => get_inst s sd o) ;;
  (match sd with
   | Txn => modify (fun s => with_deleted s (deleted s ++ [i_id i]))
   | Par => ret tt
   end) ;;;
  db_delete sd (i_id i) ;;;
  upd_inst sd o (fun i => i_with_obsolete i true) ;;;
  cache_purge sd (i_id i).

(* __init__ / _create / _SO_finishCreate with both columns given *)
Definition so_create (sd : side) (a b : val) : M nat :=
  id <- db_insert sd [a; b] ;;
  o <- new_inst sd {| i_id := id; i_vals := [Some a; Some b]; i_expired := false; i_obsolete := false; i_pending := [None; None] |} ;;
  cache_created sd id o ;;;
  r <- db_select_one sd id ;;
  match r with
  | None => raise ENotFound
  | Some r => select_init sd o r ;;; ret o
  end.

(* Iteration.next over the fetched rows: get() each with its row; the result list keeps the objects alive *)
Fixpoint select_rows (sd : side) (rows : list (Z * row)) (acc : list nat) : M (list nat) :=
  match rows with
  | [] => ret acc
  | (id, r) :: rest => o <- so_get sd id (Some r) acc ;; select_rows sd rest (acc ++ [o])
  end.

(* ------------------------------------------------------------------ Transaction *)
(* the loop of commit (over the parent's cache) and of rollback (over the transaction's own):
   tryGet each id, expire() what is found; an exception leaves the loop *)
Fixpoint expire_ids (sd : side) (ids : list Z) : M unit :=
  match ids with
  | [] => ret tt
  | id :: rest =>
      found <- gets (fun s => try_get s sd id) ;;
      (match found with Some o => so_expire sd o | None => ret tt end) ;;;
      expire_ids sd rest
  end.

Definition make_obsolete : M unit :=
  modify (fun s => with_deleted (with_tobs s true) []).

Definition low_commit (s : st) : st := with_pending (with_committed s (view s Txn)) None.
Definition low_rollback (s : st) : st := with_pending s None.

Definition txn_commit (close : bool) : M unit :=
  s <- gets (fun s => s) ;;
  if tobs s then ret tt
  else
    modify low_commit ;;;
    s1 <- gets (fun s => s) ;;
    expire_ids Par (all_ids s1 Txn ++ deleted s1) ;;;
    if close then make_obsolete else ret tt.

Definition txn_rollback : M unit :=
  s <- gets (fun s => s) ;;
  if tobs s then ret tt
  else
    let ids := all_ids s Txn in
    modify low_rollback ;;;
    expire_ids Txn ids ;;;
    make_obsolete.

Definition txn_begin : M unit :=
  s <- gets (fun s => s) ;;
  if tobs s then modify (fun s => with_tobs s false) else raise EAssertion.

(* conn.Cls / trans.Cls: Transaction.__getattr__ asserts the transaction is active; a wrapped class
   *method* (get, select) needs inspect.getargspec, calling the wrapper (create) does not *)
Definition wrapper_access (sd : side) (via is_method : bool) : M unit :=
  if via then
    s <- gets (fun s => s) ;;
    if dead s sd then raise EAssertion
    else if is_method && negb (wrapOk cfg) then raise EAttribute else ret tt
  else ret tt.

(* ------------------------------------------------------------------ operations of the harness *)
Inductive op :=
| OCreate (sd : side) (via : bool) (a b : val)      (* Cls(a=, b=, connection=) / trans.Cls(a=, b=)   -> new slot *)
| OGet (sd : side) (via : bool) (id : Z)            (* Cls.get(id, connection=) / trans.Cls.get(id)    -> new slot *)
| OSelect (sd : side) (via : bool) (keep : option nat)  (* list(Cls.select(orderBy=id, connection=)); keep the n-th in a new slot *)
| OCount (sd : side)                                (* Cls.select(connection=).count() *)
| ORead (h : nat) (c : nat)
| OSet (h : nat) (c : nat) (v : val)
| ODestroy (h : nat)
| OExpire (h : nat)
| OSync (h : nat)
| OSyncUpdate (h : nat)
| OPickle (h : nat)                                 (* pickle.dumps(instance) *)
| ODrop (h : nat)
| OCull (sd : side)
| OCommit (close : bool)
| ORollback
| OBegin.

Inductive outv :=
| RNone
| RObj (id : Z) (same_as : option nat)     (* an object: its row id, and the slot that already held this very object *)
| RObjs (l : list (Z * option nat))
| RVal (v : val)
| RNum (n : Z)
| RState (id : Z) (vals : list (option val)).   (* a pickled instance: its id and the column attributes in the state *)

Definition slot_of (s : st) (sd : side) (o : nat) : option nat :=
  (fix go (l : list (option (side * nat))) (n : nat) : option nat :=
     match l with
     | [] => None
     | Some (sd', x) :: r => if side_eqb sd sd' && Nat.eqb x o then Some n else go r (S n)
     | None :: r => go r (S n)
     end) (slots s) 0%nat.

Definition push_slot (x : option (side * nat)) : M unit :=
  modify (fun s => with_slots s (slots s ++ [x])).

Definition hold (sd : side) (o : nat) : M outv :=
  s <- gets (fun s => s) ;;
  let tok := slot_of s sd o in
  push_slot (Some (sd, o)) ;;;
  ret (RObj (i_id (get_inst s sd o)) tok).

(* a slot-creating operation always creates its slot; a failed one leaves it empty *)
Definition hold_or_none (sd : side) (m : M nat) : M outv :=
  fun s => match m s with
           | (Ret o, s') => hold sd o s'
           | (Raise e, s') => (Raise e, with_slots s' (slots s' ++ [None]))
           end.
Definition or_empty_slot {A} (keep : bool) (m : M A) : M A :=
  fun s => match m s with
           | (Ret a, s') => (Ret a, s')
           | (Raise e, s') => (Raise e, if keep then with_slots s' (slots s' ++ [None]) else s')
           end.

Definition handle (h : nat) : M (side * nat) :=
  s <- gets (fun s => s) ;;
  match nth h (slots s) None with Some x => ret x | None => raise EBadHandle end.

Definition run_op (o : op) : M outv :=
  match o with
  | OCreate sd via a b => hold_or_none sd (wrapper_access sd via false ;;; so_create sd a b)
  | OGet sd via id => hold_or_none sd (wrapper_access sd via true ;;; so_get sd id None [])
  | OSelect sd via keep =>
      or_empty_slot (match keep with Some _ => true | None => false end) (
      wrapper_access sd via true ;;;
      t <- stmt_read sd (SSelect sd) ;;
      objs <- select_rows sd (t_rows t) [] ;;
      s <- gets (fun s => s) ;;
      let out := map (fun o => (i_id (get_inst s sd o), slot_of s sd o)) objs in
      match keep with
      | Some n => push_slot (match nth_error objs n with Some o => Some (sd, o) | None => None end) ;;; ret (RObjs out)
      | None => ret (RObjs out)
      end)
  | OCount sd => t <- stmt_read sd (SCount sd) ;; ret (RNum (Z.of_nat (length (t_rows t))))
  | ORead h c => x <- handle h ;; v <- so_read (fst x) (snd x) c ;; ret (RVal v)
  | OSet h c v => x <- handle h ;; so_set (fst x) (snd x) c v ;;; ret RNone
  | ODestroy h => x <- handle h ;; so_destroy (fst x) (snd x) ;;; ret RNone
  | OExpire h => x <- handle h ;; so_expire (fst x) (snd x) ;;; ret RNone
  | OSync h => x <- handle h ;; so_sync (fst x) (snd x) ;;; ret RNone
  | OSyncUpdate h => x <- handle h ;; so_sync_update (fst x) (snd x) ;;; ret RNone
  | OPickle h => x <- handle h ;; p <- so_pickle (fst x) (snd x) ;; ret (RState (fst p) (snd p))
  | ODrop h => modify (fun s => with_slots s (set_nth h None (slots s))) ;;; ret RNone
  | OCull sd =>
      c <- gets (fun s => cch s sd) ;;
      (if doCache cfg && c_present c then cull sd [] else ret tt) ;;; ret RNone
  | OCommit close => txn_commit close ;;; ret RNone
  | ORollback => txn_rollback ;;; ret RNone
  | OBegin => txn_begin ;;; ret RNone
  end.

(* one step of a history: fresh statement log, run, result *)
Definition step (s : st) (o : op) : res outv * st := run_op o (with_log s []).

Fixpoint run (s : st) (ops : list op) : st :=
  match ops with [] => s | o :: rest => run (snd (step s o)) rest end.

(* ------------------------------------------------------------------ vocabulary of the theorems *)
(* on which connection an operation acts; None = the handle is empty *)
Definition op_side (s : st) (o : op) : option side :=
  match o with
  | OCreate sd _ _ _ | OGet sd _ _ | OSelect sd _ _ | OCount sd | OCull sd => Some sd
  | ORead h _ | OSet h _ _ | ODestroy h | OExpire h | OSync h | OSyncUpdate h | OPickle h =>
      match nth h (slots s) None with Some x => Some (fst x) | None => None end
  | ODrop h => match nth h (slots s) None with Some x => Some (fst x) | None => None end
  | OCommit _ | ORollback | OBegin => Some Txn
  end.
Definition is_commit (o : op) : bool := match o with OCommit _ => true | _ => false end.

(* the references the application holds on one side, by slot *)
Definition side_slots (s : st) (sd : side) : list (option nat) :=
  map (fun x => match x with
                | Some (sd', o) => if side_eqb sd sd' then Some o else None
                | None => None
                end) (slots s).

(* an instance the program can still reach on side sd *)
Definition reachable_obj (s : st) (sd : side) (o : nat) : bool := alive s sd [] o.

(* every cached attribute agrees with table t (and none is cached when the row is gone) *)
Definition shows_vals (t : table) (id : Z) (vals : list (option val)) : bool :=
  match tbl_lookup t id with
  | Some r =>
      (fix go (vals : list (option val)) (r : row) : bool :=
         match vals, r with
         | [], _ => true
         | None :: vs, _ :: rs => go vs rs
         | Some v :: vs, x :: rs => val_eqb v x && go vs rs
         | Some _ :: _, [] => false
         | None :: vs, [] => go vs []
         end) vals r
  | None => forallb (fun v => match v with None => true | Some _ => false end) vals
  end.
(* ... of instance i: every cached attribute of a column with NO assignment queued (a queued value is what the program
   assigned and has not written yet -- it says nothing about the database) *)
Definition shows (t : table) (i : inst) : bool := shows_vals t (i_id i) (mask (i_vals i) (i_pending i)).

Fixpoint seq_nat (n : nat) : list nat := match n with O => [] | S k => seq_nat k ++ [k] end.

(* every reachable, undestroyed parent-side instance shows the committed table *)
Definition par_fresh (s : st) : bool :=
  forallb (fun o => negb (reachable_obj s Par o) || i_obsolete (get_inst s Par o) || shows (committed s) (get_inst s Par o))
          (seq_nat (length (heap (par s)))).

Definition no_vals (i : inst) : bool :=
  forallb (fun v => match v with None => true | Some _ => false end) (i_vals i).

(* the row of this id differs between the transaction's view and the committed table *)
Definition row_eqb (a b : row) : bool :=
  (fix go (a b : row) : bool :=
     match a, b with
     | [], [] => true
     | x :: a', y :: b' => val_eqb x y && go a' b'
     | _, _ => false
     end) a b.
Definition changed (s : st) (id : Z) : bool :=
  match tbl_lookup (view s Txn) id, tbl_lookup (committed s) id with
  | None, None => false
  | Some r, Some r' => negb (row_eqb r r')
  | _, _ => true
  end.

(* GUARD of the commit theorem: the bookkeeping of Transaction.commit reaches every parent-side
   instance that would otherwise be left stale.  For every reachable undestroyed parent-side instance
   whose row the transaction changed and which caches something: the id is among those commit walks over
   (ids in the transaction's cache at this moment, or deleted in it) and the parent's cache still hands out
   this very instance. *)
Definition commit_reaches (s : st) : bool :=
  let ids := all_ids s Txn ++ deleted s in
  forallb (fun o =>
             let i := get_inst s Par o in
             negb (reachable_obj s Par o) || i_obsolete i || no_vals i || negb (changed s (i_id i)) ||
             (mem_z (i_id i) ids &&
              match try_get s Par (i_id i) with Some o' => Nat.eqb o' o | None => false end))
          (seq_nat (length (heap (par s)))).

(* GUARD of the rollback theorem: every reachable undestroyed transaction-side instance that caches something
   is still handed out by the transaction's cache *)
Definition rollback_reaches (s : st) : bool :=
  forallb (fun o =>
             let i := get_inst s Txn o in
             negb (reachable_obj s Txn o) || i_obsolete i || no_vals i ||
             match try_get s Txn (i_id i) with Some o' => Nat.eqb o' o | None => false end)
          (seq_nat (length (heap (txn s)))).

(* GUARD of parent-side writes in the history theorem: the other reachable undestroyed parent-side instances
   of the row of instance o cache nothing (there is one live copy of the row on the parent side -- the
   identity-map property C04, which expire()'s purge of the cache breaks) *)
Definition others_blankb (s : st) (o : nat) : bool :=
  forallb (fun o' => Nat.eqb o' o || negb (reachable_obj s Par o') || i_obsolete (get_inst s Par o') ||
                     negb (i_id (get_inst s Par o') =? i_id (get_inst s Par o)) || no_vals (get_inst s Par o'))
          (seq_nat (length (heap (par s)))).

(* what a step of a history must satisfy for the parent side to stay fresh: commits reach what they must;
   an assignment through a parent-side instance goes to an existing row and column and to the only cached
   copy; so does destroySelf *)
Definition is_sync_update (o : op) : bool := match o with OSyncUpdate _ => true | _ => false end.
Definition step_ok (s : st) (o : op) : bool :=
  match o with
  | OCommit _ => tobs s || commit_reaches s
  | OSet h c _ =>
      match nth h (slots s) None with
      | Some (Par, x) =>
          if lazy cfg then Nat.ltb c (length (i_pending (get_inst s Par x)))     (* a queued assignment: column c exists *)
          else
            match pending s with
            | None =>
                (* (a class with cacheValues = False leaves the attributes of its last load behind: nothing reads them -- C07_read --
                   and par_fresh does not speak about such classes) *)
                cacheVals cfg && others_blankb s x &&
                match tbl_lookup (committed s) (i_id (get_inst s Par x)) with Some r => Nat.ltb c (length r) | None => false end
            | Some _ => true
            end
      | _ => true
      end
  | OSyncUpdate h | OSync h | OPickle h =>
      (* writing the queue of a parent-side instance (pickling a lazyUpdate instance does, too): as an assignment, for every
         queued column *)
      match nth h (slots s) None, pending s with
      | Some (Par, x), None =>
          negb (lazy cfg || is_sync_update o) || negb (dirty (get_inst s Par x)) ||
          (others_blankb s x &&
           match tbl_lookup (committed s) (i_id (get_inst s Par x)) with
           | Some r => fitsb (i_pending (get_inst s Par x)) r
           | None => false
           end)
      | _, _ => true
      end
  | ODestroy h =>
      match nth h (slots s) None, pending s with
      | Some (Par, x), None => others_blankb s x
      | _, _ => true
      end
  | _ => true
  end.

Fixpoint hist_ok (s : st) (ops : list op) : bool :=
  match ops with
  | [] => true
  | o :: rest => step_ok s o && hist_ok (snd (step s o)) rest
  end.

(* does the operation need the database?  (what a finished transaction must refuse) *)
Definition needs_db (s : st) (o : op) : bool :=
  match o with
  | OCreate _ _ _ _ | OSelect _ _ _ | OCount _ => true
  | OGet sd via id => via          (* without the wrapper a cache hit needs no statement *)
  | ORead h c => match nth h (slots s) None with
                 | Some (sd, x) => negb (cacheVals cfg) ||
                                   match nth c (i_vals (get_inst s sd x)) None with Some _ => false | None => true end
                 | None => false
                 end
  | OSet h _ _ => if lazy cfg then false else match nth h (slots s) None with Some _ => true | None => false end
  | ODestroy h | OSync h => match nth h (slots s) None with Some _ => true | None => false end
  | OSyncUpdate h => match nth h (slots s) None with Some (sd, x) => dirty (get_inst s sd x) | None => false end
  | _ => false
  end.

End WithConfig.
