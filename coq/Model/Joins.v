(* Model for C13 (join accessors mirror the stored relation).  Definitions only.

   A small relational state -- three classes A, B, P; B carries a foreign key to
   A; three intermediate tables: A--B (joins declared on both sides), A--P (a
   join declared on A only) and P--P (a mirrored pair of joins on P) -- the
   operations of the history language, and the join accessors as joins.py
   computes them.  The pieces that Tie A regenerates from the source come from
   Gen/Joins.v: the order of the two statements of doSort's multi-key branch,
   which column/value goes where in performJoin/add/remove of SORelatedJoin, and
   which column destroySelf's two clean-up loops delete by. *)
From Coq Require Import List ZArith Bool Permutation Sorted.
From Gen Require Import Joins.
Import ListNotations.
Open Scope Z_scope.

(* ------------------------------------------------------------------ *)
(* Sort keys and Python-side sorting (joins.py doSort)                 *)
(* ------------------------------------------------------------------ *)
Inductive kcol := K0 | K1 | K2.
Inductive col := CId | CK (k : kcol).
(* how a key is written: a name ('k0' / '-k0': k_desc is the '-' prefix) or a
   sqlbuilder expression (Cls.q.k0 / DESC(Cls.q.k0): k_desc is the DESC wrapper).
   doSort turns the expression forms into the name forms (`.original`), the
   query flavours hand them to ORDER BY as they are. *)
Inductive kform := FName | FExpr.
Record skey := { k_col : col; k_desc : bool; k_form : kform }.
(* the join's orderBy: None, a single name, or a list/tuple of names *)
Inductive order := ONone | OOne (k : skey) | OList (ks : list skey).

Definition order_keys (o : order) : list skey :=
  match o with ONone => [] | OOne k => [k] | OList ks => ks end.
(* orderBy=[] makes doSort recurse for ever and renders an empty ORDER BY *)
Definition order_ok (o : order) : bool :=
  match o with OList [] => false | _ => true end.
(* a join declared without orderBy takes the other class's sqlmeta.defaultOrder
   (SOJoin.orderBy) *)
Inductive jorder := JGiven (o : order) | JDefault.
Definition effective (d : order) (jo : jorder) : order :=
  match jo with JGiven o => o | JDefault => d end.
Definition is_expr (k : skey) : bool := match k_form k with FExpr => true | FName => false end.
Definition has_expr (o : order) : bool := existsb is_expr (order_keys o).
(* two orderings that name the same columns and directions, however written *)
Definition same_key (k k' : skey) : Prop := k_col k = k_col k' /\ k_desc k = k_desc k'.

(* None (SQL NULL) sorts below every integer: joins.Min on the Python side,
   NULLS FIRST (ascending) in sqlite *)
Definition cmp_opt (a b : option Z) : comparison :=
  match a, b with
  | None, None => Eq
  | None, Some _ => Lt
  | Some _, None => Gt
  | Some x, Some y => Z.compare x y
  end.

Section Sorting.
Context {A : Type} (val : col -> A -> option Z).

(* comparison under one key; reverse=True / DESC reverses every comparison *)
Definition cmp_key (k : skey) (x y : A) : comparison :=
  let c := cmp_opt (val (k_col k) x) (val (k_col k) y) in
  if k_desc k then CompOpp c else c.
Definition le_key (k : skey) (x y : A) : bool :=
  match cmp_key k x y with Gt => false | _ => true end.

(* list.sort(key=, reverse=) is a stable sort: elements that compare equal
   keep their order (also with reverse=True) *)
Fixpoint insert_key (k : skey) (x : A) (l : list A) : list A :=
  match l with
  | [] => [x]
  | y :: r => if le_key k x y then x :: y :: r else y :: insert_key k x r
  end.
Definition sort_key (k : skey) (l : list A) : list A := fold_right (insert_key k) [] l.

(* doSort(results, orderBy) for a list/tuple orderBy.  One element: sort by it.
   Otherwise the statements of the multi-key branch in source order
   (gen_doSort_multi).  `None` = the recursion does not end (orderBy=[]), or
   orderBy[0] of an empty list. *)
Fixpoint doSort (fuel : nat) (ks : list skey) (l : list A) : option (list A) :=
  match fuel with
  | O => None
  | S f =>
      match ks with
      | [k] => Some (sort_key k l)
      | _ =>
          fold_left
            (fun acc st =>
               match acc with
               | None => None
               | Some l' =>
                   match st with
                   | RecTail => doSort f (tl ks) l'
                   | SortHead => match ks with k :: _ => Some (sort_key k l') | [] => None end
                   end
               end)
            gen_doSort_multi (Some l)
      end
  end.

(* SOJoin._applyOrderBy *)
Definition apply_order (o : order) (l : list A) : option (list A) :=
  match o with
  | ONone => Some l
  | OOne k => Some (sort_key k l)
  | OList ks => doSort (S (length ks)) ks l
  end.

(* ORDER BY k1, k2 DESC, ...: lexicographic; what the engine does with ties is
   not specified *)
Fixpoint lex_le (ks : list skey) (x y : A) : bool :=
  match ks with
  | [] => true
  | k :: r => match cmp_key k x y with Lt => true | Gt => false | Eq => lex_le r x y end
  end.
Fixpoint lex_eq (ks : list skey) (x y : A) : bool :=
  match ks with
  | [] => true
  | k :: r => match cmp_key k x y with Eq => lex_eq r x y | _ => false end
  end.
Fixpoint ssorted_b (le : A -> A -> bool) (l : list A) : bool :=
  match l with [] => true | x :: r => forallb (le x) r && ssorted_b le r end.

(* stability: l' keeps, within every class of elements that tie on all keys,
   the order those elements had in l *)
Definition stable_wrt (ks : list skey) (l l' : list A) : Prop :=
  forall x, filter (lex_eq ks x) l' = filter (lex_eq ks x) l.
End Sorting.

(* ------------------------------------------------------------------ *)
(* The relational state                                                *)
(* ------------------------------------------------------------------ *)
Record row := { r_id : Z; r_k0 : option Z; r_k1 : option Z; r_k2 : option Z; r_fk : option Z }.
Definition rval (c : col) (r : row) : option Z :=
  match c with CId => Some (r_id r) | CK K0 => r_k0 r | CK K1 => r_k1 r | CK K2 => r_k2 r end.

Inductive cls := CA | CB | CP.
Inductive ltab := LAB | LAP | LPP.          (* intermediate tables *)
Inductive side := First | Second.           (* the two columns of an intermediate table *)

Record state := {
  tA : list row; tB : list row; tP : list row;      (* ascending id = sqlite's scan order *)
  lAB : list (Z * Z); lAP : list (Z * Z); lPP : list (Z * Z);   (* insertion (rowid) order *)
  nA : Z; nB : Z; nP : Z                            (* AUTOINCREMENT high-water marks *)
}.
Definition init : state :=
  {| tA := []; tB := []; tP := []; lAB := []; lAP := []; lPP := []; nA := 0; nB := 0; nP := 0 |}.

Definition tab (c : cls) (s : state) : list row :=
  match c with CA => tA s | CB => tB s | CP => tP s end.
Definition seqno (c : cls) (s : state) : Z :=
  match c with CA => nA s | CB => nB s | CP => nP s end.
Definition link (t : ltab) (s : state) : list (Z * Z) :=
  match t with LAB => lAB s | LAP => lAP s | LPP => lPP s end.
Definition set_tab (c : cls) (t : list row) (n : Z) (s : state) : state :=
  match c with
  | CA => {| tA := t; tB := tB s; tP := tP s; lAB := lAB s; lAP := lAP s; lPP := lPP s; nA := n; nB := nB s; nP := nP s |}
  | CB => {| tA := tA s; tB := t; tP := tP s; lAB := lAB s; lAP := lAP s; lPP := lPP s; nA := nA s; nB := n; nP := nP s |}
  | CP => {| tA := tA s; tB := tB s; tP := t; lAB := lAB s; lAP := lAP s; lPP := lPP s; nA := nA s; nB := nB s; nP := n |}
  end.
Definition set_link (t : ltab) (l : list (Z * Z)) (s : state) : state :=
  match t with
  | LAB => {| tA := tA s; tB := tB s; tP := tP s; lAB := l; lAP := lAP s; lPP := lPP s; nA := nA s; nB := nB s; nP := nP s |}
  | LAP => {| tA := tA s; tB := tB s; tP := tP s; lAB := lAB s; lAP := l; lPP := lPP s; nA := nA s; nB := nB s; nP := nP s |}
  | LPP => {| tA := tA s; tB := tB s; tP := tP s; lAB := lAB s; lAP := lAP s; lPP := l; nA := nA s; nB := nB s; nP := nP s |}
  end.

(* which class the ids of a link-table column belong to (the schema) *)
Definition link_cls (t : ltab) (sd : side) : cls :=
  match t, sd with
  | LAB, First => CA | LAB, Second => CB
  | LAP, First => CA | LAP, Second => CP
  | LPP, _ => CP
  end.
Definition flip (sd : side) : side := match sd with First => Second | Second => First end.
Definition col_of (sd : side) (r : Z * Z) : Z := match sd with First => fst r | Second => snd r end.

(* an SORelatedJoin: its intermediate table and which column is its joinColumn
   (the other one is its otherColumn).  The mirrored definition on the other
   class is the same table with the sides swapped. *)
Record rjoin := { j_link : ltab; j_side : side }.
Definition mirror (j : rjoin) : rjoin := {| j_link := j_link j; j_side := flip (j_side j) |}.
Definition j_owner (j : rjoin) : cls := link_cls (j_link j) (j_side j).
Definition j_other (j : rjoin) : cls := link_cls (j_link j) (flip (j_side j)).
Definition side_of (j : rjoin) (r : jrole) : side :=
  match r with RJoinCol => j_side j | ROtherCol => flip (j_side j) end.

(* the joins declared in the fixture: A.rbs, A.ps, B.ras, P.fr, P.of.  (Each
   exists in a list and a query flavour; they issue the same statements.)
   P declares nothing towards A: the A--P table is one-sided. *)
Definition jA_rbs := {| j_link := LAB; j_side := First |}.
Definition jA_ps := {| j_link := LAP; j_side := First |}.
Definition jB_ras := {| j_link := LAB; j_side := Second |}.
Definition jP_fr := {| j_link := LPP; j_side := First |}.
Definition jP_of := {| j_link := LPP; j_side := Second |}.
Definition all_joins : list rjoin := [jA_rbs; jA_ps; jB_ras; jP_fr; jP_of].

Definition cls_eqb (a b : cls) : bool :=
  match a, b with CA, CA | CB, CB | CP, CP => true | _, _ => false end.
Definition side_eqb (a b : side) : bool :=
  match a, b with First, First | Second, Second => true | _, _ => false end.

Definition ids (t : list row) : list Z := map r_id t.
Definition has_id (i : Z) (t : list row) : bool := existsb (fun r => r_id r =? i) t.
Definition live (c : cls) (i : Z) (s : state) : bool := has_id i (tab c s).
Definition get_row (t : list row) (i : Z) : option row := find (fun r => r_id r =? i) t.
Definition fk_is (a : Z) (r : row) : bool :=
  match r_fk r with Some x => x =? a | None => false end.

(* ------------------------------------------------------------------ *)
(* Operations                                                          *)
(* ------------------------------------------------------------------ *)
(* b.a = None / b.aID = i (any integer; nothing checks it) / b.a = A.get(i) *)
Inductive fkv := FkNone | FkId (i : Z) | FkObj (i : Z).
Inductive op :=
| Create (c : cls) (explicit : option Z) (k0 k1 k2 : option Z) (fk : fkv)
| SetKey (c : cls) (i : Z) (k : kcol) (v : option Z)
| SetFk (b : Z) (v : fkv)
| Add (j : rjoin) (inst other : Z)           (* inst.add<X>(other) through join j of inst's class *)
| Remove (j : rjoin) (inst other : Z)
| Destroy (c : cls) (i : Z)
(* the ManyToMany / OneToMany descriptors (joins.py SOManyToMany, SOOneToMany and
   their select wrappers) *)
| MAdd (j : rjoin) (inst other : Z)                     (* inst.<m2m>.add(other) *)
| MRemove (j : rjoin) (inst other : Z)                  (* inst.<m2m>.remove(other) *)
| MCreate (j : rjoin) (inst : Z) (k0 k1 k2 : option Z)  (* inst.<m2m>.create(k0=.., k1=.., k2=..) *)
| OCreate (a : Z) (k0 k1 k2 : option Z).                (* a.<o2m>.create(k0=.., k1=.., k2=..) *)

(* objects are addressed by id; the harness fetches them with cls.get(id),
   which raises SQLObjectNotFound for a row that does not exist; an explicit id
   that is taken makes the INSERT fail *)
Inductive status := SOk | SNotFound | SDuplicate.

Definition fkv_live (v : fkv) (s : state) : bool :=
  match v with FkObj i => live CA i s | _ => true end.
Definition fkv_val (v : fkv) : option Z :=
  match v with FkNone => None | FkId i => Some i | FkObj i => Some i end.

Definition op_status (s : state) (o : op) : status :=
  match o with
  | Create c ex _ _ _ fk =>
      if negb (fkv_live fk s) then SNotFound
      else match ex with
           | Some i => if live c i s then SDuplicate else SOk
           | None => SOk
           end
  | SetKey c i _ _ => if live c i s then SOk else SNotFound
  | SetFk b v => if live CB b s && fkv_live v s then SOk else SNotFound
  | Add j x y | Remove j x y =>
      if live (j_owner j) x s && live (j_other j) y s then SOk else SNotFound
  | Destroy c i => if live c i s then SOk else SNotFound
  | MAdd j x y | MRemove j x y =>
      if live (j_owner j) x s && live (j_other j) y s then SOk else SNotFound
  | MCreate j x _ _ _ => if live (j_owner j) x s then SOk else SNotFound
  | OCreate a _ _ _ => if live CA a s then SOk else SNotFound
  end.

Fixpoint insert_row (r : row) (t : list row) : list row :=
  match t with
  | [] => [r]
  | x :: t' => if r_id r <? r_id x then r :: x :: t' else x :: insert_row r t'
  end.
Definition update_row (i : Z) (f : row -> row) (t : list row) : list row :=
  map (fun r => if r_id r =? i then f r else r) t.
Definition set_key (k : kcol) (v : option Z) (r : row) : row :=
  match k with
  | K0 => {| r_id := r_id r; r_k0 := v; r_k1 := r_k1 r; r_k2 := r_k2 r; r_fk := r_fk r |}
  | K1 => {| r_id := r_id r; r_k0 := r_k0 r; r_k1 := v; r_k2 := r_k2 r; r_fk := r_fk r |}
  | K2 => {| r_id := r_id r; r_k0 := r_k0 r; r_k1 := r_k1 r; r_k2 := v; r_fk := r_fk r |}
  end.
Definition set_fk (v : option Z) (r : row) : row :=
  {| r_id := r_id r; r_k0 := r_k0 r; r_k1 := r_k1 r; r_k2 := r_k2 r; r_fk := v |}.

Definition arg_val (a : jarg) (inst other : Z) : Z :=
  match a with AInst => inst | AOther => other end.

(* _SO_intermediateInsert: INSERT INTO t (c1, c2) VALUES (v1, v2); both columns
   are NOT NULL, so a column that receives no value makes the INSERT fail *)
Definition assigned (j : rjoin) (asg : list (jrole * jarg)) (sd : side) (inst other : Z) : option Z :=
  match find (fun p => side_eqb (side_of j (fst p)) sd) asg with
  | Some p => Some (arg_val (snd p) inst other)
  | None => None
  end.
Definition related_add (j : rjoin) (inst other : Z) (s : state) : state :=
  match assigned j gen_related_add First inst other, assigned j gen_related_add Second inst other with
  | Some x, Some y => set_link (j_link j) (link (j_link j) s ++ [(x, y)]) s
  | _, _ => s
  end.
(* _SO_intermediateDelete: DELETE FROM t WHERE c1 = (v1) AND c2 = (v2) *)
Definition matches (j : rjoin) (cond : list (jrole * jarg)) (inst other : Z) (r : Z * Z) : bool :=
  forallb (fun p => col_of (side_of j (fst p)) r =? arg_val (snd p) inst other) cond.
Definition related_remove (j : rjoin) (inst other : Z) (s : state) : state :=
  set_link (j_link j) (filter (fun r => negb (matches j gen_related_remove inst other r)) (link (j_link j) s)) s.

(* _ManyToManySelectWrapper.add / remove: the same two statements, with the roles
   as that class passes them *)
Definition m2m_add (j : rjoin) (inst other : Z) (s : state) : state :=
  match assigned j gen_m2m_add First inst other, assigned j gen_m2m_add Second inst other with
  | Some x, Some y => set_link (j_link j) (link (j_link j) s ++ [(x, y)]) s
  | _, _ => s
  end.
Definition m2m_remove (j : rjoin) (inst other : Z) (s : state) : state :=
  set_link (j_link j) (filter (fun r => negb (matches j gen_m2m_remove inst other r)) (link (j_link j) s)) s.

(* destroySelf: DELETE FROM t WHERE col=id for every related join of the
   object's own class (first loop) and for every related join of any class
   that names the object's class as its otherClass (second loop) *)
Definition link_delete_where (t : ltab) (sd : side) (v : Z) (s : state) : state :=
  set_link t (filter (fun r => negb (col_of sd r =? v)) (link t s)) s.
Definition delete_roles (j : rjoin) (roles : list jrole) (v : Z) (s : state) : state :=
  fold_left (fun s rl => link_delete_where (j_link j) (side_of j rl) v s) roles s.
Definition destroy_links (c : cls) (i : Z) (s : state) : state :=
  let s1 := fold_left (fun s j => if cls_eqb (j_owner j) c then delete_roles j gen_destroy_own i s else s)
                      all_joins s in
  fold_left (fun s j => if cls_eqb (j_other j) c then delete_roles j gen_destroy_dep i s else s)
            all_joins s1.
(* B.a has the default cascade=None: rows of B that point at a destroyed A keep
   the id *)
Definition destroy (c : cls) (i : Z) (s : state) : state :=
  let s' := destroy_links c i s in
  set_tab c (filter (fun r => negb (r_id r =? i)) (tab c s')) (seqno c s') s'.

Definition create (c : cls) (ex : option Z) (k0 k1 k2 : option Z) (fk : fkv) (s : state) : state :=
  let i := match ex with Some i => i | None => seqno c s + 1 end in
  let r := {| r_id := i; r_k0 := k0; r_k1 := k1; r_k2 := k2;
              r_fk := match c with CB => fkv_val fk | _ => None end |} in
  set_tab c (insert_row r (tab c s)) (Z.max (seqno c s) i) s.

Definition do_op (s : state) (o : op) : state :=
  match o with
  | Create c ex k0 k1 k2 fk => create c ex k0 k1 k2 fk s
  | SetKey c i k v => set_tab c (update_row i (set_key k v) (tab c s)) (seqno c s) s
  | SetFk b v => set_tab CB (update_row b (set_fk (fkv_val v)) (tB s)) (nB s) s
  | Add j x y => related_add j x y s
  | Remove j x y => related_remove j x y s
  | Destroy c i => destroy c i s
  | MAdd j x y => m2m_add j x y s
  | MRemove j x y => m2m_remove j x y s
  (* obj = otherClass(kw...); self.add(obj) *)
  | MCreate j x k0 k1 k2 =>
      m2m_add j x (seqno (j_other j) s + 1) (create (j_other j) None k0 k1 k2 FkNone s)
  (* kw[<attribute of the join column>] = self.forObject.id; otherClass(kw...)  (since /repo 80b2179) *)
  | OCreate a k0 k1 k2 => create CB None k0 k1 k2 (FkId a) s
  end.
Definition step (s : state) (o : op) : state :=
  match op_status s o with SOk => do_op s o | _ => s end.
Definition run (ops : list op) : state := fold_left step ops init.

(* ------------------------------------------------------------------ *)
(* The accessors                                                       *)
(* ------------------------------------------------------------------ *)
Inductive jres (R : Type) :=
| JOk (r : R)
| JNotFound       (* otherClass.get(id) raised SQLObjectNotFound *)
| JDiverge        (* doSort did not return *)
| JDbError.       (* the database refused the statement *)
Arguments JOk {R}. Arguments JNotFound {R}. Arguments JDiverge {R}. Arguments JDbError {R}.

(* [otherClass.get(id) for (id,) in ids] *)
Fixpoint get_all (t : list row) (l : list Z) : option (list row) :=
  match l with
  | [] => Some []
  | i :: l' =>
      match get_row t i, get_all t l' with
      | Some r, Some rs => Some (r :: rs)
      | _, _ => None
      end
  end.
Definition fetch_sorted (o : order) (t : list row) (l : list Z) : jres (list row) :=
  match get_all t l with
  | None => JNotFound
  | Some rows => match apply_order rval o rows with None => JDiverge | Some r => JOk r end
  end.

(* SOMultipleJoin.performJoin: SELECT id FROM b WHERE a_id = (a) [scan order],
   get each, doSort *)
Definition multiple_ids (s : state) (a : Z) : list Z := ids (filter (fk_is a) (tB s)).
Definition multiple_join (o : order) (s : state) (a : Z) : jres (list row) :=
  fetch_sorted o (tB s) (multiple_ids s a).

(* SORelatedJoin.performJoin: SELECT othercol FROM t WHERE joincol = (inst) *)
Definition select_link (j : rjoin) (sel : jrole * jrole) (inst : Z) (s : state) : list Z :=
  map (col_of (side_of j (fst sel)))
      (filter (fun r => col_of (side_of j (snd sel)) r =? inst) (link (j_link j) s)).
Definition related_ids (j : rjoin) (s : state) (inst : Z) : list Z := select_link j gen_related_select inst s.
Definition related_join (j : rjoin) (o : order) (s : state) (inst : Z) : jres (list row) :=
  fetch_sorted o (tab (j_other j) s) (related_ids j s inst).

(* SOSingleJoin.performJoin: None when count() = 0, else results[0] of the
   unordered select (sqlite: the first row of the scan) *)
Definition single_join (s : state) (a : Z) : option row := hd_error (filter (fk_is a) (tB s)).

(* ... when class B has a sqlmeta.defaultOrder the select is ordered by it and
   results[0] is a first row of that ordering (which one among tied rows is the
   engine's choice) *)
Definition single_first (d : order) (s : state) (a : Z) (r : option row) : Prop :=
  match r with
  | None => filter (fk_is a) (tB s) = []
  | Some x => In x (filter (fk_is a) (tB s)) /\
              forall y, In y (filter (fk_is a) (tB s)) -> lex_le rval (order_keys d) x y = true
  end.
Definition single_first_b (d : order) (s : state) (a : Z) (r : option Z) : bool :=
  match order_keys d, r with
  | [], _ => match single_join s a, r with
             | None, None => true | Some x, Some i => r_id x =? i | _, _ => false end
  | _, None => match filter (fk_is a) (tB s) with [] => true | _ => false end
  | ks, Some i => match get_row (filter (fk_is a) (tB s)) i with
                  | Some x => forallb (lex_le rval ks x) (filter (fk_is a) (tB s))
                  | None => false
                  end
  end.

(* The query-flavoured joins return a SelectResults; iterating it runs
   SELECT ... ORDER BY <orderBy>.  The model gives the candidate rows (in no
   particular order); the rows actually returned are some `q` with
   `sql_rows keys candidates q`. *)
Definition sql_multiple (o : order) (s : state) (a : Z) : jres (list row) :=
  if order_ok o then JOk (filter (fk_is a) (tB s)) else JDbError.

(* SOSQLRelatedJoin: FROM t, other, this WHERE other.id = t.othercol AND
   t.joincol = this.id AND this.id = inst.  The ordering columns -- 'id'
   included, since _mungeOrderBy maps it to the other class's qualified id
   column -- are columns of the other class. *)
Definition sql_related_sel : jrole * jrole := gen_sqlrelated_select.
(* ... unless the join is self-referential: then the other class is selected
   under the alias _SO_SQLRelatedJoin_OtherTable, the name keys are looked up on
   the alias (SelectResults._mungeOrderBy), but an expression key Cls.q.col is
   rendered with the real table name, which the FROM clause does not have:
   "no such column" *)
Definition self_join (j : rjoin) : bool := cls_eqb (j_owner j) (j_other j).
Definition sqlrel_order_ok (j : rjoin) (o : order) : bool := negb (self_join j && has_expr o).
Definition sql_related (j : rjoin) (o : order) (s : state) (inst : Z) : jres (list row) :=
  if negb (order_ok o) then JDbError
  else if negb (sqlrel_order_ok j o) then JDbError
  else if live (j_owner j) inst s then
    JOk (flat_map (fun i => match get_row (tab (j_other j) s) i with Some r => [r] | None => [] end)
                  (select_link j sql_related_sel inst s))
  else JOk [].

(* SOManyToMany.__get__: otherClass.select((other.id == t.othercol) & (t.joincol == inst.id)),
   one result row per link row whose partner exists; ordered by the other
   class's defaultOrder (there is no orderBy argument); .count() is the number
   of these rows.  SOOneToMany.__get__: otherClass.select(other.fkcol == inst.id). *)
Definition m2m_cands (j : rjoin) (s : state) (inst : Z) : list row :=
  flat_map (fun i => match get_row (tab (j_other j) s) i with Some r => [r] | None => [] end)
           (select_link j gen_m2m_select inst s).
Definition o2m_cands (s : state) (a : Z) : list row := filter (fk_is a) (tB s).

(* what sqlite may return for ORDER BY keys over the candidates *)
Definition sql_rows (keys : list skey) (cands q : list row) : Prop :=
  Permutation cands q /\
  StronglySorted (fun x y => lex_le rval keys x y = true) q.

(* the executable form used by the correspondence: q is given by ids *)
Fixpoint remove1 (x : Z) (l : list Z) : option (list Z) :=
  match l with
  | [] => None
  | y :: r => if x =? y then Some r else option_map (cons y) (remove1 x r)
  end.
Fixpoint perm_b (a b : list Z) : bool :=
  match a with
  | [] => match b with [] => true | _ => false end
  | x :: a' => match remove1 x b with Some b' => perm_b a' b' | None => false end
  end.
Definition sql_rows_b (keys : list skey) (cands : list row) (q : list Z) : bool :=
  perm_b (ids cands) q &&
  match get_all cands q with
  | Some rows => ssorted_b (lex_le rval keys) rows
  | None => false
  end.

(* two orderBy values of the same shape whose keys name the same columns and
   directions ('-k0' against DESC(Cls.q.k0), 'k1' against Cls.q.k1) *)
Definition same_order (o o' : order) : Prop :=
  match o, o' with
  | ONone, ONone => True
  | OOne k, OOne k' => same_key k k'
  | OList ks, OList ks' => Forall2 same_key ks ks'
  | _, _ => False
  end.
