(* Model for C11 (topic Query).  Definitions only.

   Layer 1 -- what SQL the library emits for a query shape: the ORDER BY term
   list (through the GENERATED _mungeOrderBy / __init__ / reversed /
   Select.__sqlrepr__ tail / DESC.__sqlrepr__ of Gen/Query.v), the DISTINCT
   flag, the WHERE clause (sqlbuilder comparisons; the GENERATED pieces of
   _SO_columnClause for selectBy), the aggregate expression, count()'s
   assertions and arithmetic (GENERATED), getOne's case split (GENERATED).

   Layer 2 -- a reference semantics of that SQL subset as sqlite implements it:
   three-valued WHERE, DISTINCT over the selected columns, ORDER BY as *any*
   permutation of the candidates that is sorted by the key list (NULL lowest),
   COUNT / SUM / MIN / MAX / AVG with sqlite's accumulators.

   Specification side -- what the user asked for, defined without the library:
   the requested key/direction list of an orderBy argument, the Python-level
   meaning of a filter, sums/minima over lists. *)
From Coq Require Import List ZArith NArith Bool Permutation Sorted.
From Lib Require Import PyLite QueryPy.
From Gen Require Import Query.
Import ListNotations.
Open Scope Z_scope.

(* ================================================================ the table *)
(* fixture class:  a, b : IntCol;  s : StringCol (values are order-preserving
   tokens);  fk : ForeignKey (Python name fkID, column fk_id);  u : IntCol(unique);
   unique index ix over (s, fk).  All nullable. *)
Inductive col := CId | CA | CB | CS | CFk | CU.
Record row := mkrow { rid : Z; ra : option Z; rb : option Z; rs : option Z; rfk : option Z; ru : option Z }.

Definition getc (c : col) (r : row) : option Z :=
  match c with
  | CId => Some (rid r) | CA => ra r | CB => rb r | CS => rs r | CFk => rfk r | CU => ru r
  end.

Definition col_eqb (a b : col) : bool :=
  match a, b with
  | CId, CId | CA, CA | CB, CB | CS, CS | CFk, CFk | CU, CU => true
  | _, _ => false
  end.

Definition oz_eqb (a b : option Z) : bool :=
  match a, b with
  | None, None => true
  | Some x, Some y => x =? y
  | _, _ => false
  end.

Definition row_eqb (x y : row) : bool :=
  (rid x =? rid y) && oz_eqb (ra x) (ra y) && oz_eqb (rb x) (rb y) && oz_eqb (rs x) (rs y)
  && oz_eqb (rfk x) (rfk y) && oz_eqb (ru x) (ru y).

Definition n_id : str := [105; 100]%N.
Definition n_a : str := [97]%N.
Definition n_b : str := [98]%N.
Definition n_s : str := [115]%N.
Definition n_fkID : str := [102; 107; 73; 68]%N.
Definition n_fk_id : str := [102; 107; 95; 105; 100]%N.
Definition n_u : str := [117]%N.
Definition dash : str := [45]%N.

(* sqlmeta.columns: Python name -> column *)
Definition pycols : list (str * col) := [(n_a, CA); (n_b, CB); (n_s, CS); (n_fkID, CFk); (n_u, CU)].
(* the table's column names as the database knows them *)
Definition dbcols : list (str * col) := [(n_id, CId); (n_a, CA); (n_b, CB); (n_s, CS); (n_fk_id, CFk); (n_u, CU)].
Definition colnames : list str := map fst pycols.

Fixpoint lookup {V : Type} (n : str) (t : list (str * V)) : option V :=
  match t with
  | [] => None
  | (k, v) :: t' => if str_eqb n k then Some v else lookup n t'
  end.

(* ================================================================ layer 1: ORDER BY *)
(* sqlrepr of an orderBy item *)
Fixpoint render (e : ov) : rt :=
  match e with
  | OStr s => (RLit s, 0%nat)
  | OField s => (RField s, 0%nat)
  | OId => (RId, 0%nat)
  | OConst s => (RRaw s, 0%nat)
  | ONone => (RNull, 0%nat)
  | ODesc x => gen_desc_sqlrepr render x
  end.
(* _str_or_sqlrepr: a plain string goes through verbatim *)
Definition render_top (e : ov) : rt :=
  match e with OStr s => (RRaw s, 0%nat) | _ => render e end.

(* the ORDER BY terms of a SelectResults whose class has `dflt` as
   sqlmeta.defaultOrder, whose orderBy argument is `given`, and whose reversed
   flag is `rev`;  None = no ORDER BY *)
Definition emit_order (cols : list str) (dflt given : oby) (rev : bool) : option (list rt) :=
  option_map (map render_top) (gen_order_clause (gen_init_order cols dflt given) rev).

(* reversed() applied n times to a fresh select *)
Definition rev_after (n : nat) : bool := Nat.iter n gen_reversed false.

(* an emitted term read as (atom, descending?) -- a term with two DESC words is not SQL *)
Definition rt_dir (t : rt) : option (ratom * bool) :=
  match snd t with
  | O => Some (fst t, false)
  | S O => Some (fst t, true)
  | _ => None
  end.
Fixpoint all_some {A : Type} (l : list (option A)) : option (list A) :=
  match l with
  | [] => Some []
  | None :: _ => None
  | Some x :: l' => match all_some l' with Some r => Some (x :: r) | None => None end
  end.
Definition emit_dirs (cols : list str) (dflt given : oby) (rev : bool) : option (option (list (ratom * bool))) :=
  match emit_order cols dflt given rev with
  | None => Some None
  | Some l => option_map Some (all_some (map rt_dir l))
  end.

(* ---------------------------------------------------------------- specification of an orderBy argument *)
Definition flip_dir (k : ratom * bool) : ratom * bool := (fst k, negb (snd k)).
(* a string: optional '-', then 'id', a Python column name, or raw SQL text *)
Definition name_req (cols : list str) (s : str) : ratom * bool :=
  let d := prefixb dash s in
  let n := if d then tl s else s in
  (if str_eqb n n_id then RId else if existsb (str_eqb n) cols then RField n else RRaw n, d).
(* a sqlbuilder expression: a column, SQLConstant, DESC(...) of those *)
Fixpoint expr_req (e : ov) : option (ratom * bool) :=
  match e with
  | OField s => Some (RField s, false)
  | OId => Some (RId, false)
  | OConst s => Some (RRaw s, false)
  | ODesc x => option_map flip_dir (expr_req x)
  | OStr _ | ONone => None
  end.
Definition item_req (cols : list str) (e : ov) : option (ratom * bool) :=
  match e with OStr s => Some (name_req cols s) | _ => expr_req e end.
Definition flip_if (b : bool) (k : ratom * bool) : ratom * bool := (fst k, xorb b (snd k)).
(* outer None: outside the specification (a string under DESC, None inside a
   list or under DESC);  inner None: no ordering requested *)
Definition spec_order (cols : list str) (dflt given : oby) (nrev : nat) : option (option (list (ratom * bool))) :=
  let o := match given with BNoDefault => dflt | _ => given end in
  match o with
  | BNoDefault => Some None
  | BVal ONone => Some None
  | BVal x => option_map (fun k => Some [flip_if (Nat.odd nrev) k]) (item_req cols x)
  | BList l => option_map (fun ks => Some (map (flip_if (Nat.odd nrev)) ks)) (all_some (map (item_req cols) l))
  end.

(* ================================================================ layer 1: WHERE *)
(* what is built with sqlbuilder: T.q.c == v, T.q.c != v (v may be None), AND, OR, NOT *)
Inductive wexpr :=
| WTrue
| WEq (c : col) (v : option Z)
| WNe (c : col) (v : option Z)
| WAnd (a b : wexpr)
| WOr (a b : wexpr)
| WNot (a : wexpr).

Inductive sop := OpEq | OpNe | OpIs | OpIsNot.
Inductive swhere :=
| STrue                                        (* 1 = 1 *)
| SCmp (c : col) (o : sop) (v : option Z)      (* c <op> literal; None is the literal NULL *)
| SAnd (a b : swhere)
| SOr (a b : swhere)
| SNot (a : swhere).

(* SQLExpression.__eq__/__ne__: None becomes IS NULL / IS NOT NULL *)
Fixpoint emit_where (w : wexpr) : swhere :=
  match w with
  | WTrue => STrue
  | WEq c None => SCmp c OpIs None
  | WEq c (Some v) => SCmp c OpEq (Some v)
  | WNe c None => SCmp c OpIsNot None
  | WNe c (Some v) => SCmp c OpNe (Some v)
  | WAnd a b => SAnd (emit_where a) (emit_where b)
  | WOr a b => SOr (emit_where a) (emit_where b)
  | WNot a => SNot (emit_where a)
  end.

(* ---------------------------------------------------------------- selectBy *)
Inductive kw := KwId | KwA | KwB | KwS | KwFkID | KwFk | KwU | KwBogus.
Definition kw_eqb (a b : kw) : bool :=
  match a, b with
  | KwId, KwId | KwA, KwA | KwB, KwB | KwS, KwS | KwFkID, KwFkID | KwFk, KwFk | KwU, KwU | KwBogus, KwBogus => true
  | _, _ => false
  end.
Fixpoint kwlookup (k : kw) (kws : list (kw * kval)) : option kval :=
  match kws with
  | [] => None
  | (k', v) :: r => if kw_eqb k k' then Some v else kwlookup k r
  end.
Definition has_kw (k : kw) (kws : list (kw * kval)) : bool :=
  match kwlookup k kws with Some _ => true | None => false end.
Definition kw_col (k : kw) : option col :=
  match k with
  | KwId => Some CId | KwA => Some CA | KwB => Some CB | KwS => Some CS
  | KwFkID | KwFk => Some CFk | KwU => Some CU | KwBogus => None
  end.

Definition opt_list {A : Type} (o : option A) : list A := match o with Some x => [x] | None => [] end.
Definition part (c : col) (k : kw) (kws : list (kw * kval)) : list (col * kval) :=
  opt_list (option_map (fun v => (c, v)) (kwlookup k kws)).

(* _SO_columnClause: the (column, value) list in the order of the source: id
   first, then the columns in declaration order; a foreign key by its own
   name first, else by the foreign name (object or id) *)
Definition clause_data (kws : list (kw * kval)) : list (col * kval) :=
  part CId KwId kws ++ part CA KwA kws ++ part CB KwB kws ++ part CS KwS kws
  ++ (if has_kw KwFkID kws then part CFk KwFkID kws
      else opt_list (option_map (fun o => (CFk, gen_fk_value o)) (kwlookup KwFk kws)))
  ++ part CU KwU kws.
(* keywords that are left over raise TypeError *)
Definition clause_leftover (kws : list (kw * kval)) : bool :=
  has_kw KwBogus kws || (has_kw KwFkID kws && has_kw KwFk kws).

Definition kv_sql (v : kval) : option Z :=
  match v with KNone => None | KInt z => Some z | KObj i => Some i end.
Definition word_op (w : cword) : sop := match w with WIS => OpIs | WEQ => OpEq end.
Definition clause_items (kws : list (kw * kval)) : list (col * cword * option Z) :=
  map (fun cv => (fst cv, gen_clause_word (snd cv), kv_sql (snd cv))) (clause_data kws).
Definition item_where (i : col * cword * option Z) : swhere :=
  SCmp (fst (fst i)) (word_op (snd (fst i))) (snd i).
Fixpoint join_items (l : list swhere) : swhere :=
  match l with
  | [] => STrue
  | [x] => x
  | x :: r => if gen_clause_and then SAnd x (join_items r) else SOr x (join_items r)
  end.
(* None = TypeError; no data = `return None` = SQLTrueClause *)
Definition selectby_where (kws : list (kw * kval)) : option swhere :=
  if clause_leftover kws then None else Some (join_items (map item_where (clause_items kws))).

(* ================================================================ layer 1: the SelectResults object *)
Record sr := mksr {
  sr_clause : swhere;
  sr_given : oby;          (* the orderBy argument last given; BNoDefault if never *)
  sr_rev : bool;
  sr_dist : bool
}.
Inductive mcall :=
| MOrderBy (o : oby)       (* .orderBy(o) *)
| MReversed                (* .reversed() *)
| MDistinct                (* .distinct() *)
| MFilter (w : option wexpr).   (* .filter(w); None is .filter(None) *)

Definition sr_call (s : sr) (m : mcall) : sr :=
  match m with
  | MOrderBy o => mksr (sr_clause s) o (sr_rev s) (sr_dist s)
  | MReversed => mksr (sr_clause s) (sr_given s) (gen_reversed (sr_rev s)) (sr_dist s)
  | MDistinct => mksr (sr_clause s) (sr_given s) (sr_rev s) true
  | MFilter None => s
  | MFilter (Some w) => mksr (SAnd (sr_clause s) (emit_where w)) (sr_given s) (sr_rev s) (sr_dist s)
  end.
Definition sr_calls (s : sr) (ms : list mcall) : sr := fold_left sr_call ms s.

(* how the SelectResults is made *)
Inductive src :=
| SSelect (w : wexpr) (o : oby) (rev dist : bool)     (* cls.select(w, orderBy=o, reversed=rev, distinct=dist) *)
| SSelectBy (kws : list (kw * kval)).                 (* cls.selectBy(kws as keywords) *)
Definition sr_make (s : src) : option sr :=
  match s with
  | SSelect w o r d => Some (mksr (emit_where w) o r d)
  | SSelectBy kws => option_map (fun c => mksr c BNoDefault false false) (selectby_where kws)
  end.

(* the SELECT statement of queryForSelect *)
Record sqlq := mkq { q_distinct : bool; q_where : swhere; q_order : option (list rt) }.
Definition sr_sql (dflt : oby) (s : sr) : sqlq :=
  mkq (sr_dist s) (sr_clause s) (emit_order colnames dflt (sr_given s) (sr_rev s)).

(* ================================================================ layer 2: sqlite *)
Inductive tv := TT | TF | TU.
Definition tv_of (b : bool) : tv := if b then TT else TF.
Definition and3 (a b : tv) : tv :=
  match a, b with
  | TF, _ | _, TF => TF
  | TT, TT => TT
  | _, _ => TU
  end.
Definition or3 (a b : tv) : tv :=
  match a, b with
  | TT, _ | _, TT => TT
  | TF, TF => TF
  | _, _ => TU
  end.
Definition not3 (a : tv) : tv := match a with TT => TF | TF => TT | TU => TU end.

Definition cmp3 (o : sop) (x v : option Z) : tv :=
  match o with
  | OpEq => match x, v with Some a, Some b => tv_of (a =? b) | _, _ => TU end
  | OpNe => match x, v with Some a, Some b => tv_of (negb (a =? b)) | _, _ => TU end
  | OpIs => tv_of (oz_eqb x v)
  | OpIsNot => tv_of (negb (oz_eqb x v))
  end.
Fixpoint eval3 (w : swhere) (r : row) : tv :=
  match w with
  | STrue => TT
  | SCmp c o v => cmp3 o (getc c r) v
  | SAnd a b => and3 (eval3 a r) (eval3 b r)
  | SOr a b => or3 (eval3 a r) (eval3 b r)
  | SNot a => not3 (eval3 a r)
  end.
Definition is_tt (t : tv) : bool := match t with TT => true | _ => false end.
Definition holds (w : swhere) (r : row) : bool := is_tt (eval3 w r).
Definition matching (w : swhere) (rows : list row) : list row := filter (holds w) rows.

(* SELECT DISTINCT id, a, b, s, fk_id, u: one copy of each distinct tuple *)
Fixpoint dedup (l : list row) : list row :=
  match l with
  | [] => []
  | r :: l' => r :: filter (fun x => negb (row_eqb r x)) (dedup l')
  end.
Definition candidates (q : sqlq) (rows : list row) : list row :=
  let m := matching (q_where q) rows in if q_distinct q then dedup m else m.

(* --- ORDER BY *)
Inductive skey := SKCol (c : col) (desc : bool) | SKConst.
Definition dir_of (n : nat) : bool := match n with O => false | _ => true end.
(* raw text is read as far as "<column name>( DESC)*" goes *)
Definition rev_desc_word : str := [67; 83; 69; 68; 32]%N.       (* " DESC" backwards *)
Fixpoint strip_rev (fuel : nat) (rs : str) : str * nat :=
  match fuel with
  | O => (rs, O)
  | S f => if prefixb rev_desc_word rs
           then let r := strip_rev f (skipn 5 rs) in (fst r, S (snd r))
           else (rs, O)
  end.
Definition norm_rt (t : rt) : rt :=
  match fst t with
  | RRaw s => let r := strip_rev (length s) (rev s) in (RRaw (rev (fst r)), (snd t + snd r)%nat)
  | _ => t
  end.
Inductive tres := TKey (k : skey) | TSyntax | TUnknown.
Definition col_key (n : nat) (o : option col) : tres :=
  match o with Some c => TKey (SKCol c (dir_of n)) | None => TUnknown end.
Definition resolve_term (t0 : rt) : tres :=
  let t := norm_rt t0 in
  match snd t with
  | S (S _) => TSyntax                                 (* x DESC DESC *)
  | n =>
      match fst t with
      | RField s => col_key n (lookup s pycols)
      | RId => TKey (SKCol CId (dir_of n))
      | RRaw s => col_key n (lookup s dbcols)          (* other text: not read by this model *)
      | RLit _ | RNull => TKey SKConst
      end
  end.
(* the statement is rejected / is outside the modelled SQL subset / orders by these keys *)
Inductive ores := OKeys (ks : list skey) | OReject | OUnknown.
Fixpoint resolve_terms (l : list rt) : ores :=
  match l with
  | [] => OKeys []
  | t :: r =>
      match resolve_term t, resolve_terms r with
      | TSyntax, _ | _, OReject => OReject
      | TUnknown, _ | _, OUnknown => OUnknown
      | TKey k, OKeys ks => OKeys (k :: ks)
      end
  end.
Definition resolve_order (o : option (list rt)) : ores :=
  match o with
  | None => OKeys []
  | Some [] => OReject                                 (* ORDER BY followed by nothing *)
  | Some l => resolve_terms l
  end.

(* NULL sorts lowest *)
Definition cmp_val (x y : option Z) : comparison :=
  match x, y with
  | None, None => Eq
  | None, Some _ => Lt
  | Some _, None => Gt
  | Some a, Some b => a ?= b
  end.
Definition cmp_key (k : skey) (r1 r2 : row) : comparison :=
  match k with
  | SKConst => Eq
  | SKCol c d => let x := cmp_val (getc c r1) (getc c r2) in if d then CompOpp x else x
  end.
Fixpoint lex_cmp (ks : list skey) (r1 r2 : row) : comparison :=
  match ks with
  | [] => Eq
  | k :: ks' => match cmp_key k r1 r2 with Eq => lex_cmp ks' r1 r2 | c => c end
  end.
Definition lex_le (ks : list skey) (r1 r2 : row) : bool :=
  match lex_cmp ks r1 r2 with Gt => false | _ => true end.
Definition ordered (ks : list skey) (l : list row) : Prop :=
  Sorted (fun a b => lex_le ks a b = true) l.

(* SQL fixes no order among ties: the engine may return ANY list `out` with *)
Definition select_accepts (q : sqlq) (rows out : list row) : Prop :=
  exists ks, resolve_order (q_order q) = OKeys ks /\
             Permutation out (candidates q rows) /\ ordered ks out.
Definition select_rejected (q : sqlq) : Prop := resolve_order (q_order q) = OReject.

(* --- aggregates: sqlite's accumulators, one step per row *)
Record acc := mkacc { ac_seen : list Z; ac_cnt : Z; ac_sum : Z; ac_min : option Z; ac_max : option Z }.
Definition acc0 : acc := mkacc [] 0 0 None None.
Definition zmem (z : Z) (l : list Z) : bool := existsb (Z.eqb z) l.
Definition acc_step (distinct : bool) (a : acc) (v : option Z) : acc :=
  match v with
  | None => a                                          (* NULLs are skipped *)
  | Some z =>
      if distinct && zmem z (ac_seen a) then a
      else mkacc (if distinct then z :: ac_seen a else ac_seen a) (ac_cnt a + 1) (ac_sum a + z)
                 (match ac_min a with None => Some z | Some m => Some (Z.min m z) end)
                 (match ac_max a with None => Some z | Some m => Some (Z.max m z) end)
  end.
Inductive aggres := ANull | AInt (z : Z) | ARat (num den : Z).   (* AVG is num/den *)
Definition agg_final (f : aggf) (a : acc) : aggres :=
  match f with
  | FCOUNT => AInt (ac_cnt a)
  | FSUM => if ac_cnt a =? 0 then ANull else AInt (ac_sum a)
  | FMIN => match ac_min a with None => ANull | Some m => AInt m end
  | FMAX => match ac_max a with None => ANull | Some m => AInt m end
  | FAVG => if ac_cnt a =? 0 then ANull else ARat (ac_sum a) (ac_cnt a)
  end.
Definition agg_exec (f : aggf) (distinct : bool) (vals : list (option Z)) : aggres :=
  agg_final f (fold_left (acc_step distinct) vals acc0).
Definition zlength {A : Type} (l : list A) : Z := Z.of_nat (length l).
(* COUNT( * ) and COUNT(DISTINCT id) *)
Definition count_star (w : swhere) (rows : list row) : Z := zlength (matching w rows).
Definition count_distinct_id (w : swhere) (rows : list row) : aggres :=
  agg_exec FCOUNT true (map (getc CId) (matching w rows)).

(* ================================================================ the library's final operations *)
Inductive out :=
| OInt (z : Z) | OAgg (a : aggres)
| OFound (id : Z) | ONotFound | ODefault | OIntegrity
| OAssert | OTypeError | ODbError | OOther.

(* count() on a SelectResults with window ops (start, end) (VNone when absent) *)
Definition run_count (s : sr) (win : pv * pv) (rows : list row) : out :=
  match count_distinct_id (sr_clause s) rows with
  | AInt cd =>
      match gen_count (fst win) (snd win) (VBool (sr_dist s)) (VInt (count_star (sr_clause s) rows)) (VInt cd) with
      | Ok (VInt z) => OInt z
      | Err E_Assert => OAssert
      | _ => OOther
      end
  | _ => OOther
  end.

Definition aggmeth_eqb (a b : aggmeth) : bool :=
  match a, b with MSum, MSum | MMin, MMin | MMax, MMax | MAvg, MAvg => true | _, _ => false end.
Fixpoint meth_fun (m : aggmeth) (t : list (aggmeth * aggf)) : option aggf :=
  match t with
  | [] => None
  | (m', f) :: r => if aggmeth_eqb m m' then Some f else meth_fun m r
  end.
(* the attribute of sum/min/max/avg: a string is raw SQL (a database column
   name), T.q.x is rendered as table.column *)
Definition resolve_attr (a : ratom) : option col :=
  match a with
  | RField s => lookup s pycols
  | RId => Some CId
  | RRaw s => lookup s dbcols
  | _ => None
  end.
(* accumulateSelect drops ORDER BY and the window; the function argument
   carries DISTINCT iff the select is distinct *)
Definition run_agg (s : sr) (win : pv * pv) (m : aggmeth) (attr : ratom) (rows : list row) : out :=
  let _ := win in                                      (* unlimited(): start := 0, end := None *)
  match meth_fun m gen_agg_table, resolve_attr attr with
  | Some f, Some c => OAgg (agg_exec f (gen_agg_distinct (sr_dist s)) (map (getc c) (matching (sr_clause s) rows)))
  | Some _, None => ODbError
  | None, _ => OOther
  end.

(* getOne: decided by the number of rows the SELECT returns *)
Definition run_getone (dflt : oby) (s : sr) (nodefault : bool) (rows : list row) : out :=
  let q := sr_sql dflt s in
  match resolve_order (q_order q) with
  | OReject => ODbError
  | _ =>
      let c := candidates q rows in
      match gen_getOne (zlength c) nodefault with
      | G1NotFound => ONotFound
      | G1Default => ODefault
      | G1Integrity => OIntegrity
      | G1First => match c with r :: _ => OFound (rid r) | [] => OOther end
      end
  end.

(* by<Col>(v) for the unique column u: SELECT ... WHERE u = v / u IS NULL, first row or NotFound *)
Definition altid_where (v : kval) : swhere := emit_where (WEq CU (kv_sql v)).
Definition altid_accepts (v : kval) (rows : list row) (o : out) : Prop :=
  match o with
  | ONotFound => matching (altid_where v) rows = []
  | OFound i => In i (map rid (matching (altid_where v) rows))
  | _ => False
  end.

(* ix.get(...) is selectBy(...).getOne() *)
Definition run_index (dflt : oby) (kws : list (kw * kval)) (rows : list row) : out :=
  match sr_make (SSelectBy kws) with
  | None => OTypeError
  | Some s => run_getone dflt s true rows
  end.

(* ================================================================ executable acceptance checks (used by Corr/C11.v; proved sound in Proofs) *)
Fixpoint remove_one (x : row) (l : list row) : option (list row) :=
  match l with
  | [] => None
  | y :: l' => if row_eqb x y then Some l'
               else match remove_one x l' with Some r => Some (y :: r) | None => None end
  end.
Fixpoint perm_b (a b : list row) : bool :=
  match a with
  | [] => match b with [] => true | _ => false end
  | x :: a' => match remove_one x b with Some b' => perm_b a' b' | None => false end
  end.
Fixpoint ordered_b (ks : list skey) (l : list row) : bool :=
  match l with
  | [] => true
  | x :: l' => match l' with [] => true | y :: _ => lex_le ks x y && ordered_b ks l' end
  end.
Definition select_check (q : sqlq) (rows out : list row) : bool :=
  match resolve_order (q_order q) with
  | OKeys ks => perm_b out (candidates q rows) && ordered_b ks out
  | _ => false
  end.
Definition find_row (rows : list row) (i : Z) : option row := find (fun r => rid r =? i) rows.
Definition altid_check (v : kval) (rows : list row) (o : out) : bool :=
  match o with
  | ONotFound => match matching (altid_where v) rows with [] => true | _ => false end
  | OFound i => zmem i (map rid (matching (altid_where v) rows))
  | _ => false
  end.

(* ================================================================ specification side *)
(* the meaning of a sqlbuilder filter, in SQL's three-valued reading of the
   Python expression (T.q.c == None means "c is NULL") *)
Fixpoint weval (w : wexpr) (r : row) : tv :=
  match w with
  | WTrue => TT
  | WEq c None => tv_of (oz_eqb (getc c r) None)
  | WEq c (Some v) => match getc c r with Some x => tv_of (x =? v) | None => TU end
  | WNe c None => tv_of (negb (oz_eqb (getc c r) None))
  | WNe c (Some v) => match getc c r with Some x => tv_of (negb (x =? v)) | None => TU end
  | WAnd a b => and3 (weval a r) (weval b r)
  | WOr a b => or3 (weval a r) (weval b r)
  | WNot a => not3 (weval a r)
  end.
Definition wsat (w : wexpr) (r : row) : bool := is_tt (weval w r).
(* the ordering argument, the number of reversals and the distinct flag a call chain asks for *)
Definition b2n (b : bool) : nat := if b then 1%nat else 0%nat.
Definition spec_given (o0 : oby) (ms : list mcall) : oby :=
  fold_left (fun g m => match m with MOrderBy o => o | _ => g end) ms o0.
Definition spec_nrev (r0 : bool) (ms : list mcall) : nat :=
  fold_left (fun n m => match m with MReversed => S n | _ => n end) ms (b2n r0).
Definition spec_distinct (d0 : bool) (ms : list mcall) : bool :=
  fold_left (fun d m => match m with MDistinct => true | _ => d end) ms d0.
(* the requested keys written as ORDER BY terms: atom, then DESC iff descending *)
Definition req_terms (keys : list (ratom * bool)) : list rt := map (fun k => (fst k, b2n (snd k))) keys.
(* all filters of a chain *)
Definition filters_of (ms : list mcall) : list wexpr :=
  flat_map (fun m => match m with MFilter (Some w) => [w] | _ => [] end) ms.

(* selectBy: plain Python equality on the attribute values (None == None) *)
Definition kw_holds (kws : list (kw * kval)) (r : row) (k : kw) : bool :=
  match kwlookup k kws, kw_col k with
  | Some v, Some c => oz_eqb (getc c r) (kv_sql v)
  | Some _, None => false
  | None, _ => true
  end.
Definition kw_sat (kws : list (kw * kval)) (r : row) : bool :=
  forallb (kw_holds kws r) [KwId; KwA; KwB; KwS; KwFkID; KwFk; KwU].

Fixpoint nonnull (l : list (option Z)) : list Z :=
  match l with
  | [] => []
  | None :: r => nonnull r
  | Some z :: r => z :: nonnull r
  end.
Definition zsum (l : list Z) : Z := fold_right Z.add 0 l.
(* first occurrences *)
Fixpoint zdedup_from (seen l : list Z) : list Z :=
  match l with
  | [] => []
  | z :: r => if zmem z seen then zdedup_from seen r else z :: zdedup_from (z :: seen) r
  end.
Definition zdedup (l : list Z) : list Z := zdedup_from [] l.
Definition is_min (m : Z) (l : list Z) : Prop := In m l /\ forall x, In x l -> m <= x.
Definition is_max (m : Z) (l : list Z) : Prop := In m l /\ forall x, In x l -> x <= m.

(* the values an aggregate ranges over: non-NULL, and each once for a distinct select *)
Definition distinct_vals (d : bool) (vals : list (option Z)) : list Z :=
  if d then zdedup (nonnull vals) else nonnull vals.
(* the SQL function behind sum/min/max/avg *)
Definition meth_f (m : aggmeth) : aggf :=
  match m with MSum => FSUM | MMin => FMIN | MMax => FMAX | MAvg => FAVG end.
(* select(w).filter(f1).filter(f2)...: the rows that satisfy all of them *)
Definition chain_sat (w : wexpr) (ms : list mcall) (r : row) : bool :=
  wsat w r && forallb (fun f => wsat f r) (filters_of ms).
(* window ops as count() sees them *)
Definition falsy (v : pv) : Prop := truthy v = false.
(* does the select carry a window?  (start non-zero, or any end -- 0 included) *)
Definition sliced (w : pv * pv) : bool :=
  truthy (fst w) || match snd w with VNone => false | _ => true end.
Definition pv_of_opt (o : option Z) : pv := match o with Some z => VInt z | None => VNone end.

(* Python list slicing with non-negative bounds: l[s:e] *)
Definition window {A : Type} (s : Z) (e : option Z) (l : list A) : list A :=
  let t := skipn (Z.to_nat s) l in
  match e with None => t | Some e => firstn (Z.to_nat (e - s)) t end.

(* table invariants *)
Definition ids_unique (rows : list row) : Prop := NoDup (map rid rows).
Definition u_unique (rows : list row) : Prop :=
  forall r1 r2 z, In r1 rows -> In r2 rows -> ru r1 = Some z -> ru r2 = Some z -> r1 = r2.
Definition ix_unique (rows : list row) : Prop :=
  forall r1 r2 x y, In r1 rows -> In r2 rows -> rs r1 = Some x -> rs r2 = Some x ->
                    rfk r1 = Some y -> rfk r2 = Some y -> r1 = r2.

(* ================================================================ connections *)
(* A SelectResults carries an optional per-call connection (ops['connection'],
   given as select(connection=c) / selectBy(connection=c) or by .connection(c));
   clone() copies ops, so .orderBy/.reversed/.distinct/.filter keep it.  Every
   operation of the object -- iteration, count(), sum/min/max/avg, getOne -- runs
   on `ops.get('connection') or sourceClass._connection`, and sees the table as
   THAT connection sees it: another database for a second connection, the
   committed rows plus its own uncommitted writes for a Transaction. *)
Definition conn := N.
Definition store := conn -> list row.            (* the contents of tq as seen through each connection *)
Record bsr := mkbsr { b_sr : sr; b_conn : option conn }.
Inductive bcall :=
| BCall (m : mcall)
| BConnection (c : option conn).                  (* .connection(c); None: .connection(None), back to the class's *)
Definition b_call (b : bsr) (m : bcall) : bsr :=
  match m with
  | BCall m => mkbsr (sr_call (b_sr b) m) (b_conn b)
  | BConnection c => mkbsr (b_sr b) c
  end.
Definition b_calls (b : bsr) (ms : list bcall) : bsr := fold_left b_call ms b.
Definition b_make (s : src) (c : option conn) : option bsr := option_map (fun x => mkbsr x c) (sr_make s).
(* SelectResults._getConnection *)
Definition conn_or (cls : conn) (c : option conn) : conn := match c with Some k => k | None => cls end.
Definition b_target (cls : conn) (b : bsr) : conn := conn_or cls (b_conn b).
Definition b_rows (st : store) (cls : conn) (b : bsr) : list row := st (b_target cls b).
Definition b_accepts (st : store) (cls : conn) (dflt : oby) (b : bsr) (out : list row) : Prop :=
  select_accepts (sr_sql dflt (b_sr b)) (b_rows st cls b) out.
Definition b_count (st : store) (cls : conn) (b : bsr) (win : pv * pv) : out := run_count (b_sr b) win (b_rows st cls b).
Definition b_agg (st : store) (cls : conn) (b : bsr) (win : pv * pv) (m : aggmeth) (attr : ratom) : out :=
  run_agg (b_sr b) win m attr (b_rows st cls b).
Definition b_getone (st : store) (cls : conn) (dflt : oby) (b : bsr) (nodefault : bool) : out :=
  run_getone dflt (b_sr b) nodefault (b_rows st cls b).
(* by<Col>(v, connection=c), ix.get(.., connection=c) *)
Definition b_altid_accepts (st : store) (cls : conn) (c : option conn) (v : kval) (o : out) : Prop :=
  altid_accepts v (st (conn_or cls c)) o.
Definition b_index (st : store) (cls : conn) (c : option conn) (dflt : oby) (kws : list (kw * kval)) : out :=
  run_index dflt kws (st (conn_or cls c)).
(* the chain without its .connection() calls *)
Definition plain_calls (ms : list bcall) : list mcall :=
  flat_map (fun m => match m with BCall x => [x] | BConnection _ => [] end) ms.
(* the binding in force at the end: the last .connection() call, else the keyword *)
Definition last_binding (c0 : option conn) (ms : list bcall) : option conn :=
  fold_left (fun c m => match m with BConnection k => k | BCall _ => c end) ms c0.

(* --- what a Transaction sees: the committed rows with its own writes applied in order *)
Inductive wr :=
| WPut (r : row)           (* INSERT of a new id, or UPDATE of that id to this row *)
| WDel (i : Z).            (* DELETE of that id *)
Definition wr_id (w : wr) : Z := match w with WPut r => rid r | WDel i => i end.
Definition has_id (i : Z) (rows : list row) : bool := existsb (fun x => rid x =? i) rows.
Definition apply_wr (rows : list row) (w : wr) : list row :=
  match w with
  | WPut r => if has_id (rid r) rows then map (fun x => if rid x =? rid r then r else x) rows else rows ++ [r]
  | WDel i => filter (fun x => negb (rid x =? i)) rows
  end.
Definition txn_view (committed : list row) (ws : list wr) : list row := fold_left apply_wr ws committed.
(* the last write to an id *)
Definition last_write (i : Z) (ws : list wr) : option wr :=
  fold_left (fun acc w => if wr_id w =? i then Some w else acc) ws None.
(* a database with one open transaction: connection 0 is the class's own (another
   database), 1 a plain connection to the file, 2 the transaction *)
Definition txn_store (other committed : list row) (ws : list wr) : store :=
  fun c => match c with 0%N => other | 1%N => committed | _ => txn_view committed ws end.
(* tables compared as sets of rows (ids unique): same rows in any order *)
Definition same_table (a b : list row) : bool := perm_b a b.
