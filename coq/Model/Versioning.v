(* C20 -- versioning.  Definitions only.

   A versioned plain (eager) class with the fixture columns of Model/Events.v
   (a = IntCol(unique=True), b = StringCol(default=None), c = ForeignKey(..., default=7)
   -- an integer column for everything modelled here, keyed `cID` in asDict();
   the UNIQUE constraint gives the database a reason to refuse a write that
   passed validation) and the
   version table that sqlobject/versioning synthesises for it (masterID, the
   master's columns, dateArchived -- the latter is not modelled).

   `vstep` is written after versioning/__init__.py (Versioning.rowUpdate is a
   RowUpdateSignal listener: since 6e91999 it first runs the columns'
   from_python on the event's values -- an ill-typed update raises Invalid
   there, nothing archived -- and then snapshots instance.sqlmeta.asDict()
   into a new version row, BEFORE main.py issues the UPDATE: an update the
   database then refuses leaves the version behind; Version.restore is
   masterClass.get(masterID).set( **values)) and main.py (_SO_setValue / set).
   `hist` is a ghost component: the successive states of every master row,
   extended by each successful update.  It plays no part in the behaviour.

   Round 6: destroySelf of a master (main.py destroySelf: the `master`
   ForeignKey of the version class has cascade=None, so the DELETE touches the
   master table only: the versions stay, filed under an id that AUTOINCREMENT
   never hands out again) and of a Version (one row of the version table
   goes); Version.nextVersion() / getChangedFields().  Two more ghosts: `arch`
   = every version ever archived, in id order (v_tbl without the deletions),
   `gone` = the ids of the destroyed versions. *)
From Coq Require Import List ZArith NArith Bool.
From Model Require Import Events.
Import ListNotations.
Open Scope Z_scope.

Record vrow := { v_id : Z; v_master : Z; v_vals : kwargs }.

Record vstate := {
  m_tbl : list (Z * kwargs);        (* master rows, all columns in creationOrder *)
  m_next : Z;
  v_tbl : list vrow;                (* version rows in id order *)
  v_next : Z;
  hist : list (Z * list kwargs);    (* ghost *)
  arch : list vrow;                 (* ghost: every version ever archived *)
  gone : list Z                     (* ghost: ids of the destroyed versions *)
}.
Definition vinit : vstate :=
  {| m_tbl := []; m_next := 1; v_tbl := []; v_next := 1; hist := []; arch := []; gone := [] |}.

Inductive vop :=
| VCreate (kw : list (col * val))
| VAssign (m : Z) (c : col) (v : val)        (* master.c = v *)
| VSet (m : Z) (kw : list (col * val))       (* master.set( **kw) *)
| VSetBad (m : Z) (kw : list (col * val))    (* master.set(zz=1, **kw): zz is neither a column nor an attribute *)
| VRestore (vid : Z)                         (* VersionClass.get(vid).restore() *)
| VDestroy (m : Z)                           (* master.destroySelf() *)
| VDestroyVer (vid : Z)                      (* VersionClass.get(vid).destroySelf() *)
| VNext (vid : Z)                            (* VersionClass.get(vid).nextVersion() *)
| VChanged (vid : Z).                        (* VersionClass.get(vid).getChangedFields() *)

Inductive voutcome :=
| VDone | VExn (e : exn) | VNoHandle
| VNextV (x : vrow)                 (* nextVersion() returned this version *)
| VNextM (m : Z) (r : kwargs)       (* nextVersion() returned the master (id, row) *)
| VFields (l : list col).           (* getChangedFields() *)

Fixpoint row_of (m : Z) (t : list (Z * kwargs)) : option kwargs :=
  match t with
  | [] => None
  | (i, r) :: rest => if Z.eqb m i then Some r else row_of m rest
  end.
Definition find_version (vid : Z) (t : list vrow) : option vrow :=
  find (fun x => Z.eqb (v_id x) vid) t.
(* master.versions: SELECT ... WHERE master_id = m (rows come back in id order) *)
Definition versions_of (m : Z) (st : vstate) : list vrow :=
  filter (fun x => Z.eqb (v_master x) m) (v_tbl st).

Fixpoint hist_get (m : Z) (h : list (Z * list kwargs)) : list kwargs :=
  match h with
  | [] => []
  | (i, l) :: rest => if Z.eqb m i then l else hist_get m rest
  end.
Fixpoint hist_push (m : Z) (r : kwargs) (h : list (Z * list kwargs)) : list (Z * list kwargs) :=
  match h with
  | [] => [(m, [r])]
  | (i, l) :: rest => if Z.eqb m i then (i, l ++ [r]) :: rest else (i, l) :: hist_push m r rest
  end.
Definition hist_of (m : Z) (st : vstate) : list kwargs := hist_get m (hist st).
(* ghost views: everything ever archived for m; is this version still there *)
Definition archived_of (m : Z) (st : vstate) : list vrow :=
  filter (fun x => Z.eqb (v_master x) m) (arch st).
Definition alive (g : list Z) (x : vrow) : bool := negb (existsb (Z.eqb (v_id x)) g).

(* ---- Version.nextVersion / getChangedFields ----
   nextVersion: SELECT ... WHERE master_id = self.masterID AND id > self.id
   ORDER BY id; the first row if there is one, else self.master (a get() of
   the master: SQLObjectNotFound when it was destroyed).  `t` is the version
   table that SELECT reads, `mt` the master table of the version's connection. *)
Inductive nres := NVer (x : vrow) | NMas (m : Z) (r : kwargs) | NNone.
Definition later_of (ver : vrow) (t : list vrow) : list vrow :=
  filter (fun x => Z.eqb (v_master x) (v_master ver) && Z.ltb (v_id ver) (v_id x)) t.
Definition next_in (t : list vrow) (mt : list (Z * kwargs)) (ver : vrow) : nres :=
  match later_of ver t with
  | x :: _ => NVer x
  | [] => match row_of (v_master ver) mt with Some r => NMas (v_master ver) r | None => NNone end
  end.
(* specification vocabulary: the successor of a version, given the part l2 of
   its master's version list that follows it: the next entry, or the master *)
Definition successor_in (mt : list (Z * kwargs)) (ver : vrow) (l2 : list vrow) : nres :=
  match l2 with
  | x :: _ => NVer x
  | [] => match row_of (v_master ver) mt with Some r => NMas (v_master ver) r | None => NNone end
  end.
Definition vval_eqb (a b : val) : bool :=
  match a, b with
  | VNull, VNull => true
  | VInt x, VInt y => Z.eqb x y
  | VStr x, VStr y => (fix eq (p q : list N) : bool :=
                         match p, q with
                         | [], [] => true
                         | i :: p', j :: q' => N.eqb i j && eq p' q'
                         | _, _ => false
                         end) x y
  | _, _ => false
  end.
Definition oval_eqb (a b : option val) : bool :=
  match a, b with Some x, Some y => vval_eqb x y | None, None => true | _, _ => false end.
(* getChangedFields: the master's columns (in sqlmeta.columns order) whose value differs from the successor's *)
Definition diff_cols (a b : kwargs) : list col :=
  filter (fun c => negb (oval_eqb (kw_get c a) (kw_get c b))) all_cols.
Definition next_outcome (n : nres) : voutcome :=
  match n with NVer x => VNextV x | NMas m r => VNextM m r | NNone => VExn XNotFound end.
Definition changed_outcome (ver : vrow) (n : nres) : voutcome :=
  match n with
  | NVer x => VFields (diff_cols (v_vals ver) (v_vals x))
  | NMas _ r => VFields (diff_cols (v_vals ver) r)
  | NNone => VExn XNotFound
  end.
(* the two read-only operations; None: o is not one of them.  `t` = the
   version table nextVersion's SELECT reads (since 7323516 the one of the version's own connection) *)
Definition vquery (t : list vrow) (st : vstate) (o : vop) : option voutcome :=
  match o with
  | VNext vid =>
      Some (match find_version vid (v_tbl st) with
            | None => VExn XNotFound
            | Some ver => next_outcome (next_in t (m_tbl st) ver)
            end)
  | VChanged vid =>
      Some (match find_version vid (v_tbl st) with
            | None => VExn XNotFound
            | Some ver => changed_outcome ver (next_in t (m_tbl st) ver)
            end)
  | _ => None
  end.

(* UNIQUE(a): NULLs never collide *)
Definition same_key (x y : val) : bool :=
  match x, y with VInt a, VInt b => Z.eqb a b | _, _ => false end.
(* would writing w into the row of master `skip` (None: as a new row) violate it? *)
Definition a_conflict (skip : option Z) (w : kwargs) (t : list (Z * kwargs)) : bool :=
  match kw_get CA w with
  | Some x =>
      existsb (fun row => negb (match skip with Some m => Z.eqb (fst row) m | None => false end)
                          && match kw_get CA (snd row) with Some y => same_key x y | None => false end) t
  | None => false
  end.

(* an update of master m with the (already built) dict kw:
   RowUpdateSignal -> Versioning.rowUpdate validates the event's values (may
   raise: nothing happened) and archives the current values; then main.py
   validates again and issues the UPDATE (the database may refuse it: the
   version row stays) *)
Definition vupdate (st : vstate) (m : Z) (kw : kwargs) : vstate * voutcome :=
  match row_of m (m_tbl st) with
  | None => (st, VNoHandle)
  | Some r =>
      if negb (validate kw) then (st, VExn XInvalid)
      else
        let ver := {| v_id := v_next st; v_master := m; v_vals := r |} in
        let w := sort_cols kw in
        if a_conflict (Some m) w (m_tbl st) then
          ({| m_tbl := m_tbl st; m_next := m_next st; v_tbl := v_tbl st ++ [ver]; v_next := v_next st + 1;
              hist := hist st; arch := arch st ++ [ver]; gone := gone st |}, VExn XDuplicate)
        else
          ({| m_tbl := tbl_update m w (m_tbl st); m_next := m_next st;
              v_tbl := v_tbl st ++ [ver]; v_next := v_next st + 1;
              hist := hist_push m (row_update w r) (hist st); arch := arch st ++ [ver]; gone := gone st |}, VDone)
  end.

(* set() with a keyword it does not know: RowUpdateSignal goes out first with
   the whole dict -> Versioning.rowUpdate validates the column values (may
   raise: nothing happened) and archives the current values; then set()
   validates the columns and raises TypeError for the unknown keyword before
   any UPDATE: the version row stays *)
Definition vrefuse (st : vstate) (m : Z) (kw : kwargs) : vstate * voutcome :=
  match row_of m (m_tbl st) with
  | None => (st, VNoHandle)
  | Some r =>
      if negb (validate kw) then (st, VExn XInvalid)
      else
        ({| m_tbl := m_tbl st; m_next := m_next st;
            v_tbl := v_tbl st ++ [{| v_id := v_next st; v_master := m; v_vals := r |}]; v_next := v_next st + 1;
            hist := hist st;
            arch := arch st ++ [{| v_id := v_next st; v_master := m; v_vals := r |}]; gone := gone st |}, VExn XTypeError)
  end.

Definition vstep (st : vstate) (o : vop) : vstate * voutcome :=
  match o with
  | VCreate kw0 =>
      match fill_defaults all_cols (mk_kw kw0) with
      | None => (st, VExn XTypeError)
      | Some kw2 =>
          if negb (validate kw2) then (st, VExn XInvalid)
          else if a_conflict None kw2 (m_tbl st) then (st, VExn XDuplicate)   (* the INSERT fails, no id is used up *)
          else
            let id := m_next st in
            ({| m_tbl := m_tbl st ++ [(id, sort_cols kw2)]; m_next := id + 1;
                v_tbl := v_tbl st; v_next := v_next st;
                hist := hist_push id (sort_cols kw2) (hist st); arch := arch st; gone := gone st |}, VDone)
      end
  | VAssign m c v => vupdate st m [(c, v)]
  | VSet m kw0 => vupdate st m (mk_kw kw0)
  | VSetBad m kw0 => vrefuse st m (mk_kw kw0)
  | VRestore vid =>
      match find_version vid (v_tbl st) with
      | None => (st, VExn XNotFound)
      | Some ver =>
          (* masterClass.get(masterID): SQLObjectNotFound when the master was destroyed *)
          match row_of (v_master ver) (m_tbl st) with
          | None => (st, VExn XNotFound)
          | Some _ => vupdate st (v_master ver) (v_vals ver)
          end
      end
  | VDestroy m =>
      (* DELETE FROM master WHERE id = m; the versions are not touched *)
      match row_of m (m_tbl st) with
      | None => (st, VNoHandle)
      | Some _ =>
          ({| m_tbl := tbl_delete m (m_tbl st); m_next := m_next st; v_tbl := v_tbl st; v_next := v_next st;
              hist := hist st; arch := arch st; gone := gone st |}, VDone)
      end
  | VDestroyVer vid =>
      match find_version vid (v_tbl st) with
      | None => (st, VExn XNotFound)
      | Some _ =>
          ({| m_tbl := m_tbl st; m_next := m_next st;
              v_tbl := filter (fun x => negb (Z.eqb (v_id x) vid)) (v_tbl st); v_next := v_next st;
              hist := hist st; arch := arch st; gone := vid :: gone st |}, VDone)
      end
  | VNext _ | VChanged _ =>
      match vquery (v_tbl st) st o with Some out => (st, out) | None => (st, VNoHandle) end
  end.

Record vrec := { w_pre : vstate; w_op : vop; w_out : voutcome; w_post : vstate }.
Fixpoint vrun (st : vstate) (ops : list vop) : list vrec :=
  match ops with
  | [] => []
  | o :: r =>
      let x := vstep st o in
      {| w_pre := st; w_op := o; w_out := snd x; w_post := fst x |} :: vrun (fst x) r
  end.
Definition successor (st : vstate) (ver : vrow) (l2 : list vrow) : nres := successor_in (m_tbl st) ver l2.
Definition vfinal (st : vstate) (ops : list vop) : vstate := fold_left (fun s o => fst (vstep s o)) ops st.

(* the histories the open findings exclude: those in which an update
   (assignment, set or restore) is refused AFTER its RowUpdateSignal went out
   and its values passed validation -- by the database (UNIQUE), or by set()
   itself for an unknown keyword.  Updates refused by validation, failing
   creations, restores of unknown versions and unknown masters may occur. *)
Definition db_refused (w : vrec) : bool :=
  match w_op w, w_out w with
  | VCreate _, _ => false
  | VSetBad _ _, VExn XTypeError => true
  | _, VExn XDuplicate => true
  | _, _ => false
  end.
(* a destroySelf() of a master or of a version that went through *)
Definition destroyed (w : vrec) : bool :=
  match w_op w, w_out w with
  | VDestroy _, VDone | VDestroyVer _, VDone => true
  | _, _ => false
  end.
(* vguard: no refused-after-the-signal update and nothing destroyed (on the
   histories of create/assign/set/restore this is the guard of the earlier
   rounds); vguard_r: only the refusals are excluded, destroys may occur *)
Definition vguard_from (st : vstate) (ops : list vop) : bool :=
  forallb (fun w => negb (db_refused w) && negb (destroyed w)) (vrun st ops).
Definition vguard (ops : list vop) : bool := vguard_from vinit ops.
Definition vguard_r_from (st : vstate) (ops : list vop) : bool :=
  forallb (fun w => negb (db_refused w)) (vrun st ops).
Definition vguard_r (ops : list vop) : bool := vguard_r_from vinit ops.

(* the master an update operation addresses in a given state *)
Definition vtarget (st : vstate) (o : vop) : option Z :=
  match o with
  | VAssign m _ _ | VSet m _ | VSetBad m _ => Some m
  | VRestore vid => match find_version vid (v_tbl st) with Some ver => Some (v_master ver) | None => None end
  | VCreate _ | VDestroy _ | VDestroyVer _ | VNext _ | VChanged _ => None
  end.

(* ------------------------------------------------------------------ *)
(* Masters that live on a connection other than the class's own (created /
   fetched with connection=..., or through a Transaction), while the class's
   own connection points at another database (`decoy` here) with masters of
   the same ids.  Everything goes to the instance's connection: the snapshot
   (rowUpdate passes instance._connection), master.versions
   (Versioning.__get__ passes obj._connection) and, since 61db062,
   Version.restore() (it fetches the master on the version's connection).
   The class's own database is never touched.  Since 7323516
   Version.nextVersion() passes the version's connection to its SELECT too:
   the later versions are looked up where the version lives (before, they were
   looked up in the CLASS's own database, the decoy). *)
Record wstate := { w_main : vstate; w_decoy : vstate }.

Definition wstep (foreign : bool) (ws : wstate) (o : vop) : wstate * voutcome :=
  let x := vstep (w_main ws) o in
  ({| w_main := fst x; w_decoy := w_decoy ws |}, snd x).
Definition is_query (o : vop) : bool := match o with VNext _ | VChanged _ => true | _ => false end.
Definition wfinal (foreign : bool) (ws : wstate) (ops : list vop) : wstate :=
  fold_left (fun s o => fst (wstep foreign s o)) ops ws.

(* the other database of the correspondence runs: three masters with the ids
   the histories use, each updated once *)
Definition decoy_ops : list vop :=
  [VCreate [(CA, VInt 101)]; VCreate [(CA, VInt 102)]; VCreate [(CA, VInt 103)];
   VAssign 1 CB (VStr [100%N]); VAssign 2 CB (VStr [100%N]); VAssign 3 CB (VStr [100%N])].
Definition vdecoy : vstate := vfinal vinit decoy_ops.
Definition winit : wstate := {| w_main := vinit; w_decoy := vdecoy |}.

