(* Correspondence for C01: the model's prediction for one (column, value, write
   path, variant) against everything the implementation was observed to do.
   The stdlib / engine codecs are instantiated by the tables the harness
   observed on the stdlib and a raw sqlite3 connection (never via SQLObject). *)
From Coq Require Import List NArith ZArith Bool.
From Lib Require Import Str Lex CorrLib ColumnsTpl.
From Gen Require Import Columns.
From Model Require Import Columns.
Import ListNotations.
Open Scope N_scope.

Record tables := {
  t_frepr : list (fl * str);
  t_nstore : list (str * list (res sval));          (* per affinity, in the order TEXT NUMERIC INTEGER REAL BLOB *)
  t_float_of : list (pyval * fl);
  t_float_of_int : list (Z * option fl);            (* float(int); None = OverflowError *)
  t_uuid : list (N * str);
  t_b64 : list (list N * str);
  t_pickle : list (pyval * list N * pyval);         (* value, pickle.dumps, pickle.loads of that *)
  t_json : list (pyval * res (str * pyval));        (* value, json.dumps and json.loads of that / the error *)
  t_str : list (pyval * str)                        (* value, str(value) *)
}.

Fixpoint assoc {K V} (eqb : K -> K -> bool) (k : K) (l : list (K * V)) : option V :=
  match l with
  | [] => None
  | (k', v) :: r => if eqb k k' then Some v else assoc eqb k r
  end.
Definition aff_index (a : affinity) : nat :=
  match a with ATEXT => 0 | ANUMERIC => 1 | AINTEGER => 2 | AREAL => 3 | ABLOB => 4 end.

Definition mk_codecs (t : tables) : codecs := {|
  frepr := fun f => match assoc N.eqb f (t_frepr t) with Some s => s | None => [] end;
  num_store := fun a s => match assoc str_eqb s (t_nstore t) with
                          | Some l => nth (aff_index a) l (Raise E_Unmodelled)
                          | None => Raise E_Unmodelled
                          end;
  float_of_dec := fun v => match assoc pyval_eqb v (t_float_of t) with Some f => f | None => 0 end;
  float_of_int := fun z => match assoc Z.eqb z (t_float_of_int t) with Some r => r | None => None end;
  b64enc := fun b => match assoc str_eqb b (t_b64 t) with Some s => s | None => [] end;
  b64dec := fun s => match assoc str_eqb s (map (fun p => (snd p, fst p)) (t_b64 t)) with Some b => b | None => [] end;
  pdumps := fun v => match assoc pyval_eqb v (map (fun p => (fst (fst p), snd (fst p))) (t_pickle t)) with
                     | Some b => b | None => [] end;
  ploads := fun b => match assoc str_eqb b (map (fun p => (snd (fst p), snd p)) (t_pickle t)) with
                     | Some v => v | None => PNone end;
  jdumps := fun v => match assoc pyval_eqb v (t_json t) with
                     | Some (Ok (s, _)) => Ok s
                     | Some (Raise e) => Raise e
                     | None => Raise E_Unmodelled
                     end;
  jloads := fun s => match assoc str_eqb s (flat_map (fun p => match snd p with Ok (t', v) => [(t', v)] | Raise _ => [] end)
                                                      (t_json t)) with
                     | Some v => v | None => PNone end;
  uuid_str := fun n => match assoc N.eqb n (t_uuid t) with Some s => s | None => [] end;
  uuid_parse := fun s => match assoc str_eqb s (map (fun p => (snd p, fst p)) (t_uuid t)) with
                         | Some n => Ok n | None => Raise E_Value end;
  py_str := fun v => match assoc pyval_eqb v (t_str t) with Some s => s | None => [] end
|}.

Record obs := {
  ob_w : res unit;
  ob_row : bool;                          (* a row for the object exists after the write attempt *)
  ob_raw : option sval;
  ob_pre : option (res pyval);            (* lazy variant: attribute before syncUpdate *)
  ob_raw_pre : option sval;
  ob_cache : option (res pyval);
  ob_found : option (res pyval);
  ob_foundby : option (res pyval);
  ob_sel : option (res pyval);
  ob_exp : option (res pyval);
  ob_fresh : option (res pyval);
  ob_selfresh : option (res pyval)
}.

Record case := {
  c_col : coltype;
  c_val : pyval;
  c_wp : wpath;
  c_var : variant;
  c_decl : str;                           (* the type name PRAGMA table_info reports for the column *)
  c_indom : bool;                         (* the oracle's (Python) reading of "v is in the column's documented domain" *)
  c_kindok : bool;                        (* the classifier's (Python) reading of the date/time trigger classes *)
  c_norm : option (res pyval);            (* the oracle's (Python) documented normalisation of date/time crossings *)
  c_tab : tables;
  c_obs : obs
}.

Definition exn_eqb (a b : exn) : bool :=
  match a, b with
  | E_Invalid, E_Invalid | E_Value, E_Value | E_Type, E_Type | E_Assertion, E_Assertion
  | E_Overflow, E_Overflow | E_UnicodeEncode, E_UnicodeEncode | E_InvalidOperation, E_InvalidOperation
  | E_Operational, E_Operational | E_Programming, E_Programming => true
  | _, _ => false                         (* E_Unmodelled / E_Other never agree with anything *)
  end.
Definition res_eqb {A} (eqb : A -> A -> bool) (a b : res A) : bool :=
  match a, b with
  | Ok x, Ok y => eqb x y
  | Raise x, Raise y => exn_eqb x y
  | _, _ => false
  end.
Definition unit_eqb (_ _ : unit) : bool := true.
Definition rp_eqb := res_eqb pyval_eqb.
Definition orp_eqb := option_eqb rp_eqb.

Definition found_as_py (r : res bool) : res pyval :=
  match r with Ok b => Ok (PBool b) | Raise e => Raise e end.

Definition model (c : case) : outcome := run (mk_codecs (c_tab c)) (c_col c) (c_val c) (c_wp c) (c_var c).

Definition agree (c : case) : bool :=
  let o := model c in
  let b := c_obs c in
  let wrote := match o_write o with Ok _ => true | Raise _ => false end in
  (* the declared type (hence the affinity) *)
  str_eqb (c_decl c) (sqlite_type (c_col c)) &&
  (* the theorems' domain predicate is the oracle's; real Python objects are well-formed *)
  Bool.eqb (in_domain (c_col c) (c_val c)) (c_indom c) && wf (c_val c) &&
  Bool.eqb (kind_ok (c_col c) (c_val c)) (c_kindok c) &&
  option_eqb rp_eqb (norm_spec (c_col c) (c_val c)) (c_norm c) &&
  (* did the write return; the exception class if not *)
  res_eqb unit_eqb (o_write o) (ob_w b) &&
  Bool.eqb (o_row o) (ob_row b) &&
  (* the row *)
  option_eqb sval_eqb (if o_row o then Some (o_stored o) else None) (ob_raw b) &&
  (* the writer before a lazy flush, and the row still untouched then *)
  orp_eqb (o_cache_pre o) (ob_pre b) &&
  option_eqb sval_eqb (match o_cache_pre o with Some _ => Some SNull | None => None end) (ob_raw_pre b) &&
  (* the writer's attribute *)
  orp_eqb (o_cache o) (ob_cache b) &&
  (* both spellings of the equality query *)
  orp_eqb (option_map found_as_py (o_found o)) (ob_found b) &&
  orp_eqb (option_map found_as_py (o_found o)) (ob_foundby b) &&
  (* every read that loads the row *)
  orp_eqb (if wrote then o_db o else None) (ob_sel b) &&
  orp_eqb (if wrote then o_db o else None) (ob_exp b) &&
  orp_eqb (o_db o) (ob_fresh b) &&
  orp_eqb (o_db o) (ob_selfresh b).
