(* Correspondence for C14: what the implementation was observed to do on a
   case against what Model/Ddl.v computes for the same case. *)
From Coq Require Import List ZArith NArith Bool String Uint63.
From Lib Require Import CorrLib.
From Model Require Import Ddl DdlConn.
Import ListNotations.
Open Scope string_scope.
Open Scope list_scope.
Open Scope N_scope.

(* compact literals for the generated cases files: up to 8 characters in
   1..127 packed into one primitive integer, 7 bits each, first character lowest *)
Fixpoint unpack (fuel : nat) (i : int) : str :=
  match fuel with
  | O => []
  | S f => if Uint63.eqb i 0%uint63 then []
           else Z.to_N (Uint63.to_Z (Uint63.land i 127%uint63)) :: unpack f (Uint63.lsr i 7%uint63)
  end.
Definition p1 (i : int) : str := unpack 9 i.
Definition pn (l : list int) : str := flat_map p1 l.
Definition Wp (i : int) : tok := W (p1 i).

(* one dialect's createTableSQL: it raised, or (statements, constraints) *)
Inductive sqlobs := SErr | SOk (stmts cns : list (list tok)).

(* sqlite, executed: PRAGMA table_info / index_list / foreign_key_list *)
Record execobs := {
  xo_created : bool;
  xo_cols : list colsk;
  xo_fks : list fksk;
  xo_idx : list idxsk
}.

Record evostep := {
  es_error : bool;
  es_class : list (str * str);          (* final python name, db name *)
  es_table : list str;
  es_rows : list (list Z);              (* projected onto the surviving original columns *)
  es_indexes : list str;
  es_select_ok : bool
}.

Inductive case :=
| CDdl (dc : decl) (cp : caps) (class_error : bool) (sql : list sqlobs)
       (names : str * str * list (str * str)) (ex : option execobs)
| CStyle (s : str) (m2u u2m : option str)
| CJoin (a b : decl) (order : list bool)                       (* true = class a *)
        (a_creates b_creates : list str) (a_sql b_sql : list (list tok))
        (errors : list bool) (tables : list str)
| CEvo (dc : decl) (keep : list str) (rows : list (list Z)) (ops : list evo_op) (steps : list evostep)
(* two databases holding the same table and rows, the class bound to the first; every step addressed by `via`
   (0 no argument / 1 connection=home / 2 connection=second); steps = the ADDRESSED database and the class;
   other_same = "the other database is exactly what it was at the start", observed after every step *)
| CEvo2 (dc : decl) (keep : list str) (rows : list (list Z)) (via : nat) (ops : list evo_op) (steps : list evostep)
        (other_same : list bool)
| CIdem (a b : decl) (ops : list (nat * bool * bool * bool * bool))
        (* op, class a?, if-flag, f1, f2.  op 0 createTable(ifNotExists, createJoinTables=f1, createIndexes=f2) /
           1 dropTable(ifExists, dropJoinTables=f1) / 2 raw DROP TABLE / 3 createJoinTables(ifNotExists) / 4 createIndexes() *)
        (steps : list (bool * list str * list str))
(* a foreign table `decoy` is created out of band first; then class a: createTable(ifNotExists=True)
   twice, dropTable(ifExists=True) twice *)
| CDecoy (a b : decl) (decoy : str) (steps : list (bool * list str * list str))
(* two databases; both classes are bound to the first ("home").  Every call goes to home (no connection=
   argument, or connection=home) or to the second database (connection=second); after every call BOTH
   databases are observed: error flag, answer of tableExists, (tables with row counts, indexes) of home
   and of second.  rend: SQL rendered for another connection's dialect through the argument. *)
| CConn (a b : decl)
        (ops : list (nat * bool * nat * bool * bool * bool))
        (* op, class a?, via (0 no argument / 1 connection=home / 2 connection=second), if-flag, f1, f2.
           op 0..4 as in CIdem / 5 dropJoinTables(ifExists) / 6 tableExists / 7 clearTable(clearJoinTables=f1) /
           8 out of band: one row into every table of that database /
           9 out of band: DROP TABLE of the (f1 + 2*f2)-th link table the class owns *)
        (steps : list (bool * option bool * (list (str * nat) * list str) * (list (str * nat) * list str)))
        (rend : list (bool * nat * nat * bool * bool * sqlobs)).
        (* class a?, dialect (index in all_dialects), method (see render_sql), f1, f2, what came back *)

(* ---------- equalities *)
Definition toks_eqb := list_eqb tok_eqb.
Definition stmts_eqb := list_eqb toks_eqb.
Definition colsk_eqb (a b : colsk) : bool :=
  str_eqb (k_name a) (k_name b) && Bool.eqb (k_nn a) (k_nn b) && Bool.eqb (k_uq a) (k_uq b)
  && Bool.eqb (k_pk a) (k_pk b).
Definition action_eqb (a b : action) : bool :=
  match a, b with ACascade, ACascade | ARestrict, ARestrict | ASetNull, ASetNull => true | _, _ => false end.
Definition refsk_eqb (a b : refsk) : bool :=
  str_eqb (r_table a) (r_table b) && str_eqb (r_col a) (r_col b)
  && option_eqb action_eqb (r_action a) (r_action b).
Definition fksk_eqb (a b : fksk) : bool := str_eqb (f_col a) (f_col b) && refsk_eqb (f_ref a) (f_ref b).
Definition idxsk_eqb (a b : idxsk) : bool :=
  str_eqb (x_table a) (x_table b) && str_eqb (x_name a) (x_name b)
  && list_eqb str_eqb (x_cols a) (x_cols b) && Bool.eqb (x_unique a) (x_unique b).
Definition same_set (a b : list str) : bool :=
  forallb (fun x => mem_str x b) a && forallb (fun x => mem_str x a) b
  && Nat.eqb (List.length a) (List.length b).

(* ---------- declarations the constructors refuse *)
Definition constructible (dc : decl) : bool :=
  forallb (fun c => match c_kind c with
                    | KString l v | KUnicode l v => string_decl_ok l v
                    | _ => true end) (d_cols dc).

(* ---------- ddl cases *)
Definition sql_agree (d : dialect) (cp : caps) (dc : decl) (o : sqlobs) : bool :=
  match create_sql d cp dc, o with
  | None, SErr => true
  | Some (st, cs), SOk st' cs' => stmts_eqb st st' && stmts_eqb cs cs'
  | _, _ => false
  end.

Fixpoint zip_all {A B} (f : A -> B -> bool) (a : list A) (b : list B) : bool :=
  match a, b with
  | [], [] => true
  | x :: a', y :: b' => f x y && zip_all f a' b'
  | _, _ => false
  end.

(* the reference reader applied to the implementation's own tokens *)
Definition reader_agree (d : dialect) (dc : decl) (o : sqlobs) : bool :=
  match o with
  | SOk (ct :: _) cns =>
      if valid d dc then
        match read_ddl ct with
        | Some sk =>
            str_eqb (s_table sk) (table_of dc)
            && (if skeleton_guard d dc then list_eqb colsk_eqb (s_cols sk) (expected_cols d dc) else true)
            && match all_some (map read_alter_fk cns) with
               | Some alters =>
                   let fks := s_fks sk ++ map snd alters in
                   if renders_fk d then
                     if renders_action d then list_eqb fksk_eqb fks (declared_fks dc)
                     else list_eqb fksk_eqb fks (map drop_action (declared_fks dc))
                   else match fks with [] => true | _ => false end
               | None => false
               end
        | None => false
        end
      else true
  | _ => true
  end.

Definition index_skeletons (d : dialect) (dc : decl) : option (list idxsk) :=
  all_some (map (fun ix =>
                   match all_some (map (fun ic => resolve_col (d_cols dc) (fst ic)) (i_cols ix)) with
                   | Some cols => Some (index_skeleton d dc ix cols)
                   | None => None
                   end) (d_indexes dc)).

(* index statements of the implementation, read back *)
Definition index_reader_agree (d : dialect) (dc : decl) (o : sqlobs) : bool :=
  match o, index_skeletons d dc with
  | SOk stmts _, Some sks =>
      let nix := List.length sks in
      let ixs := skipn (List.length stmts - nix)%nat stmts in
      if forallb (fun c => name_ok (dbname_of (d_style dc) c)) (d_cols dc) then
        match all_some (map read_index ixs) with
        | Some got => list_eqb idxsk_eqb got sks
        | None => false
        end
      else true
  | _, _ => true
  end.

Definition names_agree (dc : decl) (n : str * str * list (str * str)) : bool :=
  let '(t, i, cols) := n in
  str_eqb t (table_of dc) && str_eqb i (idname_of dc)
  && list_eqb (fun a b => str_eqb (fst a) (fst b) && str_eqb (snd a) (snd b)) cols
       (map (fun c => (final_name c, dbname_of (d_style dc) c)) (d_cols dc)).

Definition exec_agree (dc : decl) (x : execobs) : bool :=
  Bool.eqb (xo_created x) (sqlite_accepts dc) &&
  (if xo_created x then
     list_eqb colsk_eqb (xo_cols x) (expected_cols Sqlite dc)
     && list_eqb fksk_eqb (xo_fks x) (declared_fks dc)
     && match index_skeletons Sqlite dc with
        | Some sks => list_eqb idxsk_eqb (xo_idx x) sks
        | None => false
        end
   else true).

(* ---------- join cases *)
Definition run_order (a b : decl) (order : list bool) : dbstate * list bool :=
  fold_left (fun acc who =>
               let '(db, errs) := acc in
               let '(db', e) := create_table_op (if who : bool then a else b) false db in
               (db', errs ++ [e]))
            order ({| db_tables := []; db_indexes := [] |}, []).

(* ---------- evo cases *)
Definition step_view (keep : list str) (s : evo_state) (err : bool) : evostep :=
  let dc := e_decl s in
  let tn := table_of dc in
  match find_table (db_tables (e_db s)) tn with
  | Some t =>
      let kept := filter (fun c => mem_str c (t_cols t)) keep in
      {| es_error := err;
         es_class := map (fun c => (final_name c, dbname_of (d_style dc) c)) (d_cols dc);
         es_table := t_cols t;
         es_rows := map (project (t_cols t) kept) (t_rows t);
         es_indexes := map fst (filter (fun ix => str_eqb (snd ix) tn) (db_indexes (e_db s)));
         es_select_ok := forallb (fun c => mem_str c (t_cols t)) (class_cols dc) |}
  | None =>
      {| es_error := err; es_class := map (fun c => (final_name c, dbname_of (d_style dc) c)) (d_cols dc);
         es_table := []; es_rows := []; es_indexes := []; es_select_ok := false |}
  end.

Definition evostep_eqb (a b : evostep) : bool :=
  Bool.eqb (es_error a) (es_error b)
  && list_eqb (fun x y => str_eqb (fst x) (fst y) && str_eqb (snd x) (snd y)) (es_class a) (es_class b)
  && list_eqb str_eqb (es_table a) (es_table b)
  && list_eqb (list_eqb Z.eqb) (es_rows a) (es_rows b)
  && same_set (es_indexes a) (es_indexes b)
  && Bool.eqb (es_select_ok a) (es_select_ok b).

Fixpoint evo_views (keep : list str) (s : evo_state) (ops : list evo_op) : list evostep :=
  match ops with
  | [] => []
  | op :: r => let '(s', e) := evo_step s op in step_view keep s' e :: evo_views keep s' r
  end.

Definition evo_init (dc : decl) (rows : list (list Z)) : evo_state :=
  let '(db, _) := create_table_op dc false {| db_tables := []; db_indexes := [] |} in
  {| e_decl := dc;
     e_db := {| db_tables := map_table db (table_of dc) (fun t =>
                               {| t_name := t_name t; t_cols := t_cols t; t_rows := rows |});
                db_indexes := db_indexes db |} |}.

(* ---------- idem cases *)
Fixpoint idem_views (a b : decl) (db : dbstate) (ops : list (nat * bool * bool * bool * bool))
  : list (bool * list str * list str) :=
  match ops with
  | [] => []
  | (op, who, flag, f1, f2) :: r =>
      let dc := if who : bool then a else b in
      let '(db', e) := match op with
                       | 0%nat => create_table_full dc flag f1 f2 db
                       | 1%nat => drop_table_full dc flag f1 db
                       | 2%nat => eng_drop db (table_of dc)      (* out of band: DROP TABLE of the class's table only *)
                       | 3%nat => create_join_tables dc flag db
                       | _ => create_indexes dc db
                       end in
      (e, map t_name (db_tables db'), map fst (db_indexes db')) :: idem_views a b db' r
  end.

(* ---------- conn cases *)
Definition mk_arg (via : nat) : option connid :=
  match via with 0%nat => None | 1%nat => Some Home | _ => Some Second end.
Definition mk_op (op : nat) (flag f1 f2 : bool) (k : Z) : sch_op :=
  match op with
  | 0%nat => OCreate flag f1 f2 | 1%nat => ODrop flag f1 | 2%nat => ORawDrop | 3%nat => OJoins flag
  | 4%nat => OIndexes | 5%nat => ODropJoins flag | 6%nat => OExists | 7%nat => OClear f1
  | 8%nat => OFill k
  | _ => ORawDropLink ((if f1 then 1 else 0) + (if f2 then 2 else 0))%nat
  end.
Definition db_view (db : dbstate) : list (str * nat) * list str :=
  (map (fun t => (t_name t, List.length (t_rows t))) (db_tables db), map fst (db_indexes db)).
Definition same_tabs (x y : list (str * nat)) : bool :=
  same_set (map fst x) (map fst y)
  && forallb (fun p => existsb (fun q => str_eqb (fst p) (fst q) && Nat.eqb (snd p) (snd q)) y) x.
Definition view_eqb (x y : list (str * nat) * list str) : bool :=
  same_tabs (fst x) (fst y) && same_set (snd x) (snd y).
Fixpoint conn_views (a b : decl) (w : world) (k : Z) (ops : list (nat * bool * nat * bool * bool * bool))
  : list (bool * option bool * (list (str * nat) * list str) * (list (str * nat) * list str)) :=
  match ops with
  | [] => []
  | (op, who, via, flag, f1, f2) :: r =>
      let cl := {| c_arg := mk_arg via; c_who := who; c_op := mk_op op flag f1 f2 k |} in
      let '(w', e, ans) := world_step Home a b cl w in
      (e, ans, db_view (w_home w'), db_view (w_second w')) :: conn_views a b w' (k + 1)%Z r
  end.
(* evolution steps through the argument: view of class + addressed database, and whether the other one still
   shows what it showed at the start *)
Fixpoint evo2_views (keep : list str) (arg : option connid) (init : dbstate) (w : evo_world) (ops : list evo_op)
  : list (evostep * bool) :=
  match ops with
  | [] => []
  | op :: r =>
      let '(w', e) := evo_world_step Home arg op w in
      let c := route Home arg in
      let oc := match c with Home => Second | Second => Home end in
      (step_view keep {| e_decl := ew_decl w'; e_db := get c (ew_dbs w') |} e,
       view_eqb (db_view (get oc (ew_dbs w'))) (db_view init)
       && list_eqb (fun x y => list_eqb str_eqb (t_cols x) (t_cols y) && list_eqb (list_eqb Z.eqb) (t_rows x) (t_rows y))
            (db_tables (get oc (ew_dbs w'))) (db_tables init))
      :: evo2_views keep arg init w' r
  end.
Definition caps0 : caps := {| mysql_micro := false; mssql_micro := false; mssql_max := false |}.
Definition rend_agree (a b : decl) (r : bool * nat * nat * bool * bool * sqlobs) : bool :=
  let '(who, di, m, f1, f2, o) := r in
  match render_sql (nth di all_dialects Sqlite) caps0 (if who : bool then a else b) m f1 f2, o with
  | None, SErr => true
  | Some (st, cs), SOk st' cs' => stmts_eqb st st' && stmts_eqb cs cs'
  | _, _ => false
  end.

Definition agree (c : case) : bool :=
  match c with
  | CDdl dc cp class_error sql names ex =>
      if class_error then negb (constructible dc)
      else
        constructible dc
        && zip_all (fun d o => sql_agree d cp dc o && reader_agree d dc o && index_reader_agree d dc o)
             all_dialects sql
        && names_agree dc names
        && match ex with Some x => exec_agree dc x | None => true end
  | CStyle s m u =>
      option_eqb str_eqb m (Some (mixedToUnder s)) && option_eqb str_eqb u (Some (underToMixed s))
  | CJoin a b order ac bc asql bsql errors tables =>
      list_eqb str_eqb ac (map (inter_table a) (joins_to_create a))
      && list_eqb str_eqb bc (map (inter_table b) (joins_to_create b))
      && stmts_eqb asql (map (join_table_stmt Sqlite a) (joins_to_create a))
      && stmts_eqb bsql (map (join_table_stmt Sqlite b) (joins_to_create b))
      && (let '(db, errs) := run_order a b order in
          list_eqb Bool.eqb errs errors && same_set (map t_name (db_tables db)) tables)
  | CEvo dc keep rows ops steps =>
      list_eqb evostep_eqb (evo_views keep (evo_init dc rows) ops) steps
  | CEvo2 dc keep rows via ops steps same =>
      let db0 := e_db (evo_init dc rows) in
      list_eqb (fun x y => evostep_eqb (fst x) (fst y) && Bool.eqb (snd x) (snd y))
               (evo2_views keep (mk_arg via) db0
                  {| ew_decl := dc; ew_dbs := {| w_home := db0; w_second := db0 |} |} ops)
               (combine steps same)
      && Nat.eqb (List.length steps) (List.length same)
  | CIdem a b ops steps =>
      list_eqb (fun x y => Bool.eqb (fst (fst x)) (fst (fst y)) && same_set (snd (fst x)) (snd (fst y))
                           && same_set (snd x) (snd y))
               (idem_views a b {| db_tables := []; db_indexes := [] |} ops) steps
  | CDecoy a b decoy steps =>
      list_eqb (fun x y => Bool.eqb (fst (fst x)) (fst (fst y)) && same_set (snd (fst x)) (snd (fst y))
                           && same_set (snd x) (snd y))
               (idem_views a b (fst (eng_create {| db_tables := []; db_indexes := [] |} decoy [s2l "zz"]))
                  [(0%nat, true, true, true, true); (0%nat, true, true, true, true);
                   (1%nat, true, true, true, true); (1%nat, true, true, true, true)])
               steps
  | CConn a b ops steps rend =>
      let empty := {| db_tables := []; db_indexes := [] |} in
      list_eqb (fun x y =>
                  let '(e, ans, h, s) := x in
                  let '(e', ans', h', s') := y in
                  Bool.eqb e e' && option_eqb Bool.eqb ans ans' && view_eqb h h' && view_eqb s s')
               (conn_views a b {| w_home := empty; w_second := empty |} 0%Z ops) steps
      && forallb (rend_agree a b) rend
  end.
