(* Correspondence for C02: what the implementation was observed to produce on a
   case, against what the model (generated converters + reference lexers +
   tokenizer) computes for the same input. *)
From Coq Require Import List NArith ZArith Bool.
From Lib Require Import Str Lex CorrLib.
From Gen Require Import Lit.
From Model Require Import Lit.
Import ListNotations.
Open Scope N_scope.

Definition lexres_eqb (a b : option (str * str)) : bool :=
  match a, b with
  | None, None => true
  | Some (x, r), Some (y, q) => str_eqb x y && str_eqb r q
  | _, _ => false
  end.

Definition token_eqb (a b : token) : bool :=
  match a, b with
  | TWord x, TWord y => str_eqb x y
  | TNum x, TNum y => Z.eqb x y
  | TStr x, TStr y => str_eqb x y
  | TPunct x, TPunct y => x =? y
  | _, _ => false
  end.
Definition tres_is (r : tres) (l : list token) : bool :=
  match r with TOk l' => list_eqb token_eqb l' l | _ => false end.

Inductive engine :=
| ENotRun
| EReject                 (* the driver / engine raised *)
| EText (s : str)         (* SELECT <literal> returned this text *)
| EInt (z : Z).           (* ... this integer *)

Inductive seqpos := SPlain | SIn (col : str) | SCall (name : str).

Definition seq_sql (p : seqpos) (d : dialect) (vs : list value) : option str :=
  match p with SPlain => render d (VSeq vs) | SIn col => in_sql d col vs | SCall name => call_sql d name vs end.
Definition seq_skeleton (p : seqpos) (d : dialect) (vs : list value) : list token :=
  match p with SPlain => lit_tokens d (VSeq vs) | SIn col => in_skeleton d col vs | SCall name => call_skeleton d name vs end.
(* the tokens of the list inside the tokens of the position's template *)
Definition seq_list_tokens (p : seqpos) (toks : list token) : list token :=
  match p with
  | SPlain => toks
  | SIn _ => removelast (skipn 5 toks)
  | SCall _ => tl toks
  end.
Definition members_eqb (a b : option (list (list token))) : bool :=
  option_eqb (list_eqb (list_eqb token_eqb)) a b.

Inductive case :=
(* a value; sqlrepr(v, d) for the seven dialects (order of all_dialects); what the python
   reference lexers made of each text (strings only, else []); what sqlite answered to SELECT <text> *)
| CValue (v : value) (texts : list str) (decoded : list (option (str * str))) (e : engine)
| CInsert (d : dialect) (table : str) (names : list str) (values : list value) (text : str)
| CUpdate (d : dialect) (table idname : str) (id : value) (sets : list (str * value)) (text : str)
| CClause (d : dialect) (items : list (str * value)) (text : str)
| CEq (d : dialect) (col : str) (v : value) (text : str)
| CIn (d : dialect) (col : str) (vs : list value) (text : str)
(* a sequence of values in one of the positions where the library writes a comma-separated literal list,
   rendered for the seven dialects (order of all_dialects); counts = how many top-level members the python
   splitter of the oracle read from each text:
   SPlain -- sqlrepr(tuple / list / set ...); SIn col -- IN(col, values); SCall name -- func.name( *values ) *)
| CSeqAll (p : seqpos) (vs : list value) (texts : list str) (counts : list nat)
(* a stream judged by the oracle only (floats, decimals, real-table runs) *)
| COracleOnly.

Definition opt_str_eqb := option_eqb str_eqb.

Fixpoint zip_with {A B C} (f : A -> B -> C) (a : list A) (b : list B) : list C :=
  match a, b with x :: a', y :: b' => f x y :: zip_with f a' b' | _, _ => [] end.

Definition engine_expect (v : value) (text : str) : engine :=
  if sqlite_accepts text then
    match v with
    | VStr _ | VDate _ _ _ | VDateTime _ _ _ _ _ _ _ | VTime _ _ _ _ =>
        match lex_ansi text with Some (s, []) => EText s | _ => EReject end
    | VInt z => EInt z
    | VBool b => EInt (if b then 1 else 0)
    | _ => ENotRun
    end
  else EReject.
Definition engine_eqb (a b : engine) : bool :=
  match a, b with
  | ENotRun, ENotRun | EReject, EReject => true
  | EText x, EText y => str_eqb x y
  | EInt x, EInt y => Z.eqb x y
  | _, _ => false
  end.

Definition is_str (v : value) : bool := match v with VStr _ => true | _ => false end.

Definition agree (c : case) : bool :=
  match c with
  | CValue v texts decoded e =>
      (* exact text, all seven dialects *)
      list_eqb opt_str_eqb (map (fun d => render d v) all_dialects) (map Some texts)
      (* the python reference lexers are the Coq reference lexers *)
      && (if is_str v
          then list_eqb lexres_eqb (zip_with (fun d t => lex_lit d t) all_dialects texts) decoded
          else true)
      (* each value is its literal token(s), whatever the guard says it should be *)
      && forallb (fun p => let '(d, t) := p in
                           if value_ok d v then tres_is (tokens d (t ++ [c_rp])) (lit_tokens d v ++ [TPunct c_rp]) else true)
                 (combine all_dialects texts)
      (* sqlite itself *)
      && match e with
         | ENotRun => true
         | _ => engine_eqb e (engine_expect v (nth 0 texts []))
         end
  | CInsert d table names values text =>
      opt_str_eqb (insert_sql d table names values) (Some text)
      && (if forallb (value_ok d) values then tres_is (tokens d text) (insert_skeleton d table names values) else true)
  | CUpdate d table idname id sets text =>
      opt_str_eqb (update_sql d table idname id sets) (Some text)
      && (if value_ok d id && forallb (value_ok d) (map snd sets)
          then tres_is (tokens d text) (update_skeleton d table idname id sets) else true)
  | CClause d items text =>
      opt_str_eqb (clause_sql d items) (Some text)
      && (if forallb (value_ok d) (map snd items) then tres_is (tokens d text) (clause_skeleton d items) else true)
  | CEq d col v text =>
      opt_str_eqb (eq_sql d col v) (Some text)
      && (if value_ok d v then tres_is (tokens d text) (eq_skeleton d col v) else true)
  | CIn d col vs text =>
      opt_str_eqb (in_sql d col vs) (Some text)
      && (if forallb (value_ok d) vs then tres_is (tokens d text) (in_skeleton d col vs) else true)
  | CSeqAll p vs texts counts =>
      (* exact text, all seven dialects *)
      list_eqb opt_str_eqb (map (fun d => seq_sql p d vs) all_dialects) (map Some texts)
      && forallb (fun q => let '(d, t, n) := q in
           if forallb (value_ok d) vs then
             match tokens d t with
             | TOk toks =>
                 (* the tokenizer reads the template's skeleton ... *)
                 list_eqb token_eqb toks (seq_skeleton p d vs)
                 (* ... the members of the list in it are the literal tokens of each value, in order ... *)
                 && members_eqb (members (seq_list_tokens p toks)) (Some (map (lit_tokens d) vs))
                 (* ... and the oracle's python splitter counted the same number of members *)
                 && match members (seq_list_tokens p toks) with
                    | Some ms => Nat.eqb (length ms) n
                    | None => false
                    end
             | _ => false
             end
           else true)
         (combine (combine all_dialects texts) counts)
      && Nat.eqb (length texts) 7 && Nat.eqb (length counts) 7
  | COracleOnly => true
  end.
