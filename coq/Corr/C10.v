(* Correspondence for C10: what the implementation was observed to do on a
   case, against what the model (generated arithmetic + reference semantics)
   computes for the same case. *)
From Coq Require Import List ZArith Bool.
From Lib Require Import PyLite CorrLib.
From Gen Require Import Slice.
From Model Require Import Slice.
Import ListNotations.
Open Scope Z_scope.

Inductive fin := FList | FIndex (i : Z) | FLimit (n : Z).
Inductive expect := XList (l : list Z) | XVal (z : Z) | XErr (e : exn) | XReject.

Record case := {
  c_full : list Z;                              (* all rows, in the requested order *)
  c_init : option Z;                            (* Cls.select(limit=k): the constructor argument, None = not given *)
  c_chain : list (option Z * option Z);
  c_fin : fin;
  c_win : option (Z * option Z);                (* ops (start,end) after the chain; None = a Python list *)
  c_tails : list (list tok);                    (* LIMIT/OFFSET tail for sqlite, mysql, postgres *)
  c_out : expect;                               (* what came out on sqlite *)
  c_spec : expect                               (* the same chain on the Python list *)
}.

Definition exn_eqb (a b : exn) : bool :=
  match a, b with
  | E_Type, E_Type | E_Assert, E_Assert | E_Index, E_Index | E_Other, E_Other => true
  | _, _ => false
  end.
Definition pv_eqb (a b : pv) : bool :=
  match a, b with
  | VNone, VNone => true
  | VInt x, VInt y => x =? y
  | VBool x, VBool y => Bool.eqb x y
  | _, _ => false
  end.
Definition tok_eqb (a b : tok) : bool :=
  match a, b with
  | TKw K_LIMIT, TKw K_LIMIT | TKw K_OFFSET, TKw K_OFFSET | TComma, TComma => true
  | TNum x, TNum y => pv_eqb x y
  | _, _ => false
  end.
Definition expect_eqb (a b : expect) : bool :=
  match a, b with
  | XList x, XList y => list_eqb Z.eqb x y
  | XVal x, XVal y => x =? y
  | XErr x, XErr y => exn_eqb x y
  | XReject, XReject => true
  | _, _ => false
  end.

Definition of_list (o : outcome (list Z)) : expect :=
  match o with Good l => XList l | PyErr e => XErr e | DbReject => XReject end.
Definition of_val (o : outcome Z) : expect :=
  match o with Good z => XVal z | PyErr e => XErr e | DbReject => XReject end.

Definition model_out (d : dialect) (c : case) : expect :=
  match c_fin c with
  | FList => of_list (impl_list_from d (c_full c) (c_init c) (c_chain c))
  | FIndex i => of_val (impl_index_from d (c_full c) (c_init c) (c_chain c) i)
  | FLimit n => of_list (impl_limit_from d (c_full c) (c_init c) (c_chain c) n)
  end.

(* select(limit=k) is the select of the first k rows *)
Definition base (c : case) : list Z :=
  match c_init c with None => c_full c | Some k => pyslice None (Some k) (c_full c) end.

Definition spec_out (c : case) : expect :=
  match c_fin c with
  | FList => XList (spec_list (base c) (c_chain c))
  | FIndex i => of_val (spec_index (base c) (c_chain c) i)
  | FLimit n => XList (spec_list (base c) (c_chain c ++ [(None, Some n)]))
  end.

Definition model_win (c : case) : option (option (Z * option Z)) :=
  match obind (ctor_start (c_init c)) (fun x0 => run_chain Sqlite (c_full c) x0 (c_chain c)) with
  | Good (SWin (VInt s) VNone) => Some (Some (s, None))
  | Good (SWin (VInt s) (VInt e)) => Some (Some (s, Some e))
  | Good (SList _) => Some None
  | _ => None
  end.

Definition model_tail (d : dialect) (w : Z * option Z) : option (list tok) :=
  let '(s, e) := w in
  match select_has_window (VInt s) (opt_pv e) with
  | Ok true => match limit_offset d (VInt s) (opt_pv e) with Ok t => Some t | Err _ => None end
  | Ok false => Some []
  | Err _ => None
  end.

Definition win_eqb (a b : Z * option Z) : bool :=
  (fst a =? fst b) && option_eqb Z.eqb (snd a) (snd b).

Definition agree (c : case) : bool :=
  (* the window bookkeeping *)
  option_eqb (option_eqb win_eqb) (model_win c) (Some (c_win c)) &&
  (* the SQL tail in each dialect *)
  match c_win c with
  | Some w =>
      option_eqb (list_eqb (list_eqb tok_eqb))
        (match model_tail Sqlite w, model_tail Mysql w, model_tail Postgres w with
         | Some a, Some b, Some c => Some [a; b; c] | _, _, _ => None end)
        (Some (c_tails c))
  | None => true
  end &&
  (* the rows that come out (sqlite executed them) *)
  expect_eqb (model_out Sqlite c) (c_out c) &&
  (* the reference semantics of Python slicing used by the theorems *)
  expect_eqb (spec_out c) (c_spec c).
