(* Correspondence for C09: a schedule executed by the deterministic scheduler on the real
   threads of the real code is replayed on the model; after every step the program point of the
   thread that moved, the number of operations it has finished, the lock owner, the keys of the
   strong dict (in order), the keys of the weak dict with the liveness of their referents, and
   the cull counters are compared; at the end every thread's results (identity pattern of the
   objects, exception classes) and the contents of the two dicts.  Both modes of the connection
   (cache=True and cache=False) are replayed. *)
From Coq Require Import List ZArith Bool Arith.
From Lib Require Import CorrLib.
From Model Require Import CacheConc CacheConcSpec.
Import ListNotations.

Record obsstate := {
  ob_present : bool; ob_lock : option nat; ob_strong : list Z; ob_weak : list (Z * bool);
  ob_cc : Z; ob_co : nat }.

Record tstep := { st_t : nat; st_pc : pc; st_done : nat; st_obs : option obsstate }.

Inductive ores := OObj (tok : nat) (i : Z) | OExc (x : option exn) | ONone | ODropped.

Record case := {
  c_cache : bool;                   (* the `cache` option of the connection (CacheFactory.doCache) *)
  c_freq : Z; c_frac : nat; c_rows : list Z; c_progs : list (list op);
  c_init : obsstate;
  c_trace : list tstep;
  c_results : list (list ores);
  c_strong : list (Z * nat);        (* key, token *)
  c_weak : list (Z * nat);          (* key, token: live referents only *)
  c_valid : bool;                   (* the run ended regularly and the labels are those of the model *)
  c_skip : bool                     (* a configuration outside the model: judged by the oracle only (none at present) *)
}.

Definition observe (s : state) : obsstate :=
  {| ob_present := s_present s; ob_lock := s_lock s; ob_strong := dkeys (s_strong s);
     ob_weak := map (fun kv => (fst kv, aliveb s (snd kv))) (s_weak s);
     ob_cc := s_cc s; ob_co := s_co s |}.

Definition obs_eqb (a b : obsstate) : bool :=
  Bool.eqb (ob_present a) (ob_present b) && option_eqb Nat.eqb (ob_lock a) (ob_lock b) &&
  list_eqb Z.eqb (ob_strong a) (ob_strong b) &&
  list_eqb (fun x y => Z.eqb (fst x) (fst y) && Bool.eqb (snd x) (snd y)) (ob_weak a) (ob_weak b) &&
  Z.eqb (ob_cc a) (ob_cc b) && Nat.eqb (ob_co a) (ob_co b).

(* the one conjunct of the guard that is an assumption about the runs rather than the exclusion of a known race:
   when a cache=False get deletes a weak entry (line "F142") the entry it saw dead under the lock is still there and
   still dead.  The replay checks it on every executed step. *)
Definition dead_assumption_ok (s : state) (t : nat) : bool :=
  match t_pc (s_thr s t) with
  | F142 => seen_dead_still s t
  | _ => true
  end.

(* replay: None = disagreement; Some (s, true) = the model stopped describing the run *)
Fixpoint replay (s : state) (last : obsstate) (tr : list tstep) : option (state * bool) :=
  match tr with
  | [] => Some (s, false)
  | x :: r =>
      if negb (dead_assumption_ok s (st_t x)) then None else
      match step s (st_t x) with
      | None => None
      | Some s' =>
          if s_unmod s' then Some (s', true) else
          let th := s_thr s' (st_t x) in
          let o := observe s' in
          if pc_eqb (t_pc th) (st_pc x) && Nat.eqb (length (t_slots th)) (st_done x) &&
             obs_eqb o (match st_obs x with Some o' => o' | None => last end)
          then replay s' o r else None
      end
  end.

(* identity tokens: objects numbered by first occurrence *)
Fixpoint index_of (o : nat) (seen : list nat) (k : nat) : option nat :=
  match seen with
  | [] => None
  | x :: r => if Nat.eqb x o then Some k else index_of o r (S k)
  end.
Definition token (seen : list nat) (o : nat) : nat * list nat :=
  match index_of o seen 0 with
  | Some k => (k, seen)
  | None => (length seen, seen ++ [o])
  end.

Fixpoint tok_results (seen : list nat) (l : list res) : list ores * list nat :=
  match l with
  | [] => ([], seen)
  | RObj o i _ :: r => let '(k, seen1) := token seen o in
                       let '(rest, seen2) := tok_results seen1 r in (OObj k i :: rest, seen2)
  | RExc x :: r => let '(rest, seen2) := tok_results seen r in (OExc (Some x) :: rest, seen2)
  | RNone :: r => let '(rest, seen2) := tok_results seen r in (ONone :: rest, seen2)
  | RDropped :: r => let '(rest, seen2) := tok_results seen r in (ODropped :: rest, seen2)
  end.
Fixpoint tok_threads (seen : list nat) (f : nat -> thread) (ts : list nat) : list (list ores) * list nat :=
  match ts with
  | [] => ([], seen)
  | t :: r => let '(a, seen1) := tok_results seen (t_slots (f t)) in
              let '(rest, seen2) := tok_threads seen1 f r in (a :: rest, seen2)
  end.
Fixpoint tok_dict (seen : list nat) (d : dict) : list (Z * nat) * list nat :=
  match d with
  | [] => ([], seen)
  | (k, o) :: r => let '(n, seen1) := token seen o in
                   let '(rest, seen2) := tok_dict seen1 r in ((k, n) :: rest, seen2)
  end.

Definition ores_eqb (a b : ores) : bool :=
  match a, b with
  | OObj x i, OObj y j => Nat.eqb x y && Z.eqb i j
  | OExc (Some x), OExc (Some y) => exn_eqb x y
  | ONone, ONone | ODropped, ODropped => true
  | _, _ => false
  end.
Definition kv_eqb (a b : Z * nat) : bool := Z.eqb (fst a) (fst b) && Nat.eqb (snd a) (snd b).

Definition final_ok (s : state) (c : case) : bool :=
  let '(rs, seen1) := tok_threads [] (s_thr s) (seq 0 (s_n s)) in
  let '(st, seen2) := tok_dict seen1 (s_strong s) in
  let '(wk, _) := tok_dict seen2 (filter (fun kv => aliveb s (snd kv)) (s_weak s)) in
  list_eqb (list_eqb ores_eqb) rs (c_results c) &&
  list_eqb kv_eqb st (c_strong c) && list_eqb kv_eqb wk (c_weak c) &&
  forallb (fun t => finished (s_thr s t)) (seq 0 (s_n s)).

Definition agree (c : case) : bool :=
  c_valid c && (c_skip c ||
  let s0 := initc (c_cache c) (c_freq c) (c_frac c) (c_rows c) (c_progs c) in
  obs_eqb (observe s0) (c_init c) &&
  match replay s0 (c_init c) (c_trace c) with
  | None => false
  | Some (_, true) => true
  | Some (s, false) => final_ok s c
  end).

(* the same run, asking whether the model stopped describing it (reported, not a disagreement) *)
Definition left_model (c : case) : bool :=
  match replay (initc (c_cache c) (c_freq c) (c_frac c) (c_rows c) (c_progs c)) (c_init c) (c_trace c) with
  | Some (_, true) => true
  | _ => false
  end.
