(* Correspondence for C03: what the real sqlbuilder rendered / what sqlite
   selected for a case, against what the model computes for the same case.
   The case's expression is a Gallina term made of the GENERATED builder
   functions (g_py_binop, g_py_unop, gen_AND, ...), mirroring call by call how
   the harness built the Python expression. *)
From Coq Require Import List ZArith NArith Bool String.
From Lib Require Import ExprSyntax CorrLib.
From Gen Require Import Expr.
From Model Require Import Expr.
Import ListNotations.
Open Scope Z_scope.

Record case := {
  c_expr : node;
  c_typed : bool;                              (* generated as a well-typed filter of the fragment *)
  c_texts : list (list dialect * list N);      (* sqlrepr(expr, d), dialects with equal text grouped *)
  c_rows : list (Z * list (col * val));        (* id, the non-NULL columns of the row; in id order *)
  c_subs : list (list val);                    (* contents of the subquery tables c03u0, c03u1 *)
  c_ids : option (list Z)                      (* ids T.select(expr) returned on sqlite, ascending; None = error *)
}.

Fixpoint lookup (c : col) (l : list (col * val)) : val :=
  match l with
  | [] => VNull
  | (k, v) :: r => if col_eqb k c then v else lookup c r
  end.
Definition env_of (c : case) (row : list (col * val)) : env :=
  {| e_col := fun k => lookup k row; e_sub := fun k => nth (N.to_nat k) (c_subs c) [] |}.

Definition texts_agree (c : case) : bool :=
  forallb (fun g => forallb (fun d => codes_eqb (show (g_render d (c_expr c))) (snd g)) (fst g)) (c_texts c)
  && forallb (fun d => existsb (fun g => existsb (dialect_eqb d) (fst g)) (c_texts c)) all_dialects.

Definition model_ids (c : case) : option (list Z) :=
  match parse_rendered std_table (g_render Sqlite (c_expr c)) with
  | Parsed s => Some (map fst (filter (fun r => selected (eval3 (env_of c (snd r)) s)) (c_rows c)))
  | _ => None
  end.

Definition agree (c : case) : bool :=
  texts_agree c &&
  (if c_typed c
   then wt_filter (c_expr c) && option_eqb (list_eqb Z.eqb) (model_ids c) (c_ids c)
   else true).
