(* Correspondence for C18: what the implementation (SQLObject on CPython's
   urllib.parse) was observed to do on a case, against what the model computes
   for the same input.  A model answer RUnm (input outside the modelled part
   of the standard library: bracketed hosts, non-ASCII network locations) is
   not compared; the plugin counts those cases. *)
From Coq Require Import List NArith ZArith Bool.
From Lib Require Import CorrLib UriPy.
From Gen Require Import Uri.
From Model Require Import Uri.
Import ListNotations.
Open Scope N_scope.

(* an observed text or exception class *)
Inductive otext := OT (s : str) | OX (e : uexn).
(* an observed _parseURI result *)
Inductive oparse := OP (user pw host : option str) (port : option N) (path : str) (args : list (str * str))
                  | OPX (e : uexn).
(* urlparse(uri) fields: scheme netloc path params query fragment *)
Definition ofields := option (list str).

Inductive case :=
| KQuote (safe s : str) (o : otext)                        (* quote(s, safe) *)
| KUnquote (s : str) (o : str)                              (* unquote(s) *)
| KDecode (bs : list N) (o : str)                           (* bytes(bs).decode('utf-8', 'replace') *)
| KParse (nt : bool) (uri : str) (f : ofields) (o : oparse) (* urlparse(uri), _parseURI(uri) *)
| KBuild (name user pw host port db : uv) (o : otext) (p : option oparse)
                                                            (* conn.uri(), then _parseURI of that text *)
| KSqlite (nt : bool) (filename : uv) (o : otext) (p : option oparse) (opened : option otext)
                                                            (* conn.uri(), _parseURI, connectionForURI(uri).filename *)
| KOpen (nt : bool) (uri : str) (opened : otext).          (* connectionForURI(uri).filename *)

Definition uexn_eqb (a b : uexn) : bool :=
  match a, b with
  | X_Value, X_Value | X_Assert, X_Assert | X_Type, X_Type | X_UnicodeEncode, X_UnicodeEncode
  | X_Attr, X_Attr | X_Other, X_Other => true
  | _, _ => false
  end.
Definition pair_eqb (a b : str * str) : bool := str_eqb (fst a) (fst b) && str_eqb (snd a) (snd b).

(* model outcome (text) against observation; RUnm is not compared *)
Definition text_agrees (m : ures str) (o : otext) : bool :=
  match m, o with
  | ROk s, OT t => str_eqb s t
  | RErr e, OX e' => uexn_eqb e e'
  | RUnm, _ => true
  | _, _ => false
  end.
Definition parse_agrees (m : ures pres) (o : oparse) : bool :=
  match m, o with
  | ROk r, OP u p h po pa ar =>
      option_eqb str_eqb (r_user r) u && option_eqb str_eqb (r_pw r) p && option_eqb str_eqb (r_host r) h
      && option_eqb N.eqb (r_port r) po && str_eqb (r_path r) pa && list_eqb pair_eqb (r_args r) ar
  | RErr e, OPX e' => uexn_eqb e e'
  | RUnm, _ => true
  | _, _ => false
  end.
Definition fields_agree (m : ures parsed) (f : ofields) : bool :=
  match m, f with
  | ROk p, Some l =>
      list_eqb str_eqb [p_scheme p; p_netloc p; p_path p; p_params p; p_query p; p_fragment p] l
  | RErr _, None => true
  | RUnm, _ => true
  | _, _ => false
  end.

(* the URI text the implementation produced is what the next stage consumed *)
Definition after_text {A} (o : otext) (x : option A) (k : str -> A -> bool) : bool :=
  match o, x with
  | OT t, Some a => k t a
  | OX _, None => true
  | _, _ => false
  end.

Definition agree (c : case) : bool :=
  match c with
  | KQuote safe s o =>
      text_agrees (as_str (u_quote (UStr s) safe)) o
  | KUnquote s o => str_eqb (unquote s) o
  | KDecode bs o => str_eqb (utf8_decode bs) o
  | KParse nt uri f o =>
      fields_agree (urlparse uri) f && parse_agrees (parse_uri nt uri) o
  | KBuild name user pw host port db o p =>
      text_agrees (as_str (gen_uri name user pw host port db)) o
      && after_text o p (fun t op => parse_agrees (parse_uri false t) op)
  | KSqlite nt fn o p opened =>
      text_agrees (as_str (gen_sqlite_uri fn)) o
      && after_text o p (fun t op => parse_agrees (parse_uri nt t) op)
      && after_text o opened (fun t oo => text_agrees (open_uri nt t) oo)
  | KOpen nt uri opened => text_agrees (open_uri nt uri) opened
  end.
