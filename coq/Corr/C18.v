(* Correspondence for C18: what the implementation (SQLObject on CPython's
   urllib.parse) was observed to do on a case, against what the model computes
   for the same input.  A model answer RUnm (input outside the modelled part
   of the standard library: bracketed hosts, non-ASCII network locations) is
   not compared with the observation; instead every case carries the flag
   `unm` computed by the plugin's own description of that class, and the model
   must answer RUnm exactly on the flagged cases (so the model cannot dodge a
   comparison, and the count of uncompared cases is exact). *)
From Coq Require Import List NArith ZArith Bool.
From Lib Require Import CorrLib UriPy.
From Gen Require Import Uri.
From Model Require Import Uri.
Import ListNotations.
Open Scope N_scope.

(* an observed text or exception class *)
Inductive otext := OT (s : str) | OX (e : uexn).
(* an observed _parseURI result *)
Inductive oparse := OP (user pw host : option str) (port : option N) (path : str) (args : list (str * str))
                  | OPX (e : uexn).
(* urlparse(uri) fields: scheme netloc path params query fragment *)
Definition ofields := option (list str).

Inductive case :=
| KQuote (safe s : str) (o : otext)                        (* quote(s, safe) *)
| KUnquote (s : str) (o : str)                              (* unquote(s) *)
| KDecode (bs : list N) (o : str)                           (* bytes(bs).decode('utf-8', 'replace') *)
| KParse (nt unm : bool) (uri : str) (f : ofields) (o : oparse) (* urlparse(uri), _parseURI(uri) *)
| KBuild (unm : bool) (name user pw host port db : uv) (o : otext) (p : option oparse)
                                                            (* conn.uri(), then _parseURI of that text *)
| KSqlite (nt unm : bool) (filename : uv) (o : otext) (p : option oparse) (opened : option otext)
                                                            (* conn.uri(), _parseURI, connectionForURI(uri).filename *)
| KOpen (nt unm : bool) (uri : str) (opened : otext)
| KSeq (steps : list (str * otext)).                        (* connectionForURI(uri).filename, call after call,
                                                               one process, opener cache empty at the start *)      (* connectionForURI(uri).filename *)

Definition uexn_eqb (a b : uexn) : bool :=
  match a, b with
  | X_Value, X_Value | X_Assert, X_Assert | X_Type, X_Type | X_UnicodeEncode, X_UnicodeEncode
  | X_Attr, X_Attr | X_Other, X_Other => true
  | _, _ => false
  end.
Definition pair_eqb (a b : str * str) : bool := str_eqb (fst a) (fst b) && str_eqb (snd a) (snd b).

(* model outcome (text) against observation; RUnm is not compared *)
Definition text_agrees (m : ures str) (o : otext) : bool :=
  match m, o with
  | ROk s, OT t => str_eqb s t
  | RErr e, OX e' => uexn_eqb e e'
  | RUnm, _ => true
  | _, _ => false
  end.
Definition parse_agrees (m : ures pres) (o : oparse) : bool :=
  match m, o with
  | ROk r, OP u p h po pa ar =>
      option_eqb str_eqb (r_user r) u && option_eqb str_eqb (r_pw r) p && option_eqb str_eqb (r_host r) h
      && option_eqb N.eqb (r_port r) po && str_eqb (r_path r) pa && list_eqb pair_eqb (r_args r) ar
  | RErr e, OPX e' => uexn_eqb e e'
  | RUnm, _ => true
  | _, _ => false
  end.
Definition fields_agree (m : ures parsed) (f : ofields) : bool :=
  match m, f with
  | ROk p, Some l =>
      list_eqb str_eqb [p_scheme p; p_netloc p; p_path p; p_params p; p_query p; p_fragment p] l
  | RErr _, None => true
  | RUnm, _ => true
  | _, _ => false
  end.

Definition is_unm {A} (m : ures A) : bool := match m with RUnm => true | _ => false end.

(* the URI text the implementation produced is what the next stage consumed *)
Definition after_text {A} (o : otext) (x : option A) (k : str -> A -> bool) : bool :=
  match o, x with
  | OT t, Some a => k t a
  | OX _, None => true
  | _, _ => false
  end.

Fixpoint seq_agrees (ms : list (ures str)) (os : list otext) : bool :=
  match ms, os with
  | [], [] => true
  | m :: ms', o :: os' => text_agrees m o && seq_agrees ms' os'
  | _, _ => false
  end.

Definition agree (c : case) : bool :=
  match c with
  | KQuote safe s o =>
      text_agrees (as_str (u_quote (UStr s) safe)) o
  | KUnquote s o => str_eqb (unquote s) o
  | KDecode bs o => str_eqb (utf8_decode bs) o
  | KParse nt unm uri f o =>
      Bool.eqb (is_unm (parse_uri nt uri)) unm && Bool.eqb (is_unm (urlparse uri)) unm
      && fields_agree (urlparse uri) f && parse_agrees (parse_uri nt uri) o
  | KBuild unm name user pw host port db o p =>
      text_agrees (as_str (gen_uri name user pw host port db)) o
      && negb (is_unm (gen_uri name user pw host port db))
      && after_text o p (fun t op => Bool.eqb (is_unm (parse_uri false t)) unm && parse_agrees (parse_uri false t) op)
  | KSqlite nt unm fn o p opened =>
      text_agrees (as_str (gen_sqlite_uri fn)) o
      && negb (is_unm (gen_sqlite_uri fn))
      && after_text o p (fun t op => Bool.eqb (is_unm (parse_uri nt t)) unm && parse_agrees (parse_uri nt t) op)
      && after_text o opened (fun t oo => Bool.eqb (is_unm (open_uri nt t)) unm && text_agrees (open_uri nt t) oo)
  | KOpen nt unm uri opened => Bool.eqb (is_unm (open_uri nt uri)) unm && text_agrees (open_uri nt uri) opened
  | KSeq steps =>
      let ms := open_seq false [] (map fst steps) in
      forallb (fun m => negb (is_unm m)) ms && seq_agrees ms (map snd steps)
  end.
