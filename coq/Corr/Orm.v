(* Correspondence for the ORM model (C04, C05, C06, C16): a history of
   operations, and after every operation what the implementation showed:
   the outcome, the SQL statements it issued, every table, and the passive
   state of every object the application holds. *)
From Coq Require Import List ZArith Bool.
From Lib Require Import CorrLib.
From Model Require Import Orm.
Import ListNotations.
Open Scope Z_scope.

Record slotview := {
  v_k : kind; v_id : Z; v_vals : list (option val);
  v_dirty : bool; v_expired : bool; v_obsolete : bool; v_pending : list (nat * val)
}.

Inductive outcome := XRet (v : outv) | XExc (e : exc).

Record obs := {
  o_out : outcome;
  o_log : list stmt;                       (* oldest first *)
  o_tables : list (list (Z * row));        (* by kind, rows by id *)
  o_slots : list (option slotview);
  o_cached : list (list Z * list Z);       (* by kind: strong cache keys in dict order; ids with a live weak reference, sorted *)
  o_skip : bool                            (* no observation was possible after this step (first half of an operation the
                                              harness interleaves with the next one): the model just steps *)
}.

Record case := { c_cfg : config; c_steps : list (op * obs) }.

Definition exc_idx (e : exc) : nat :=
  match e with ENotFound => 0 | EInvalid => 1 | EDuplicate => 2 | EIntegrity => 3 | EOperational => 4
             | EAssertion => 5 | EValue => 6 | ETypeError => 7 | EAttribute => 8 | EBadHandle => 9 | EKey => 10 end%nat.
Definition exc_eqb a b := Nat.eqb (exc_idx a) (exc_idx b).
Definition row_eqb := list_eqb val_eqb.
Definition cols_eqb := list_eqb Nat.eqb.
Definition stmt_eqb (a b : stmt) : bool :=
  match a, b with
  | SSelectOne k i c, SSelectOne k' i' c' => kind_eqb k k' && (i =? i') && cols_eqb c c'
  | SSelect k, SSelect k' => kind_eqb k k'
  | SSelectAlt k, SSelectAlt k' => kind_eqb k k'
  | SInsert k c, SInsert k' c' => kind_eqb k k' && cols_eqb c c'
  | SUpdate k i c, SUpdate k' i' c' => kind_eqb k k' && (i =? i') && cols_eqb c c'
  | SDelete k i, SDelete k' i' => kind_eqb k k' && (i =? i')
  | _, _ => false
  end.
Definition tok_eqb := option_eqb Nat.eqb.
Definition outv_eqb (a b : outv) : bool :=
  match a, b with
  | RNone, RNone => true
  | RObj i t, RObj i' t' => (i =? i') && tok_eqb t t'
  | RObjs l, RObjs l' => list_eqb (fun x y => (fst x =? fst y) && tok_eqb (snd x) (snd y)) l l'
  | RVal v, RVal v' => val_eqb v v'
  | RIdx n, RIdx n' => Nat.eqb n n'
  | _, _ => false
  end.
Definition outcome_eqb (a b : outcome) : bool :=
  match a, b with
  | XRet v, XRet v' => outv_eqb v v'
  | XExc e, XExc e' => exc_eqb e e'
  | _, _ => false
  end.
Definition pend_eqb := list_eqb (fun (x y : nat * val) => Nat.eqb (fst x) (fst y) && val_eqb (snd x) (snd y)).
Definition slotview_eqb (a b : slotview) : bool :=
  kind_eqb (v_k a) (v_k b) && (v_id a =? v_id b) && list_eqb (option_eqb val_eqb) (v_vals a) (v_vals b) &&
  Bool.eqb (v_dirty a) (v_dirty b) && Bool.eqb (v_expired a) (v_expired b) &&
  Bool.eqb (v_obsolete a) (v_obsolete b) && pend_eqb (v_pending a) (v_pending b).
Definition obs_eqb (a b : obs) : bool :=
  outcome_eqb (o_out a) (o_out b) && list_eqb stmt_eqb (o_log a) (o_log b) &&
  list_eqb (list_eqb (fun x y => (fst x =? fst y) && row_eqb (snd x) (snd y))) (o_tables a) (o_tables b) &&
  list_eqb (option_eqb slotview_eqb) (o_slots a) (o_slots b) &&
  list_eqb (fun x y => list_eqb Z.eqb (fst x) (fst y) && list_eqb Z.eqb (snd x) (snd y)) (o_cached a) (o_cached b).

Definition view (s : st) (o : nat) : slotview :=
  let i := get_inst s o in
  {| v_k := i_k i; v_id := i_id i; v_vals := i_vals i; v_dirty := i_dirty i; v_expired := i_expired i;
     v_obsolete := i_obsolete i; v_pending := i_pending i |}.

Fixpoint insert_z (x : Z) (l : list Z) : list Z :=
  match l with [] => [x] | y :: r => if x <=? y then x :: l else y :: insert_z x r end.
Definition sort_z (l : list Z) := fold_right insert_z [] l.

Definition observe (r : res outv) (s : st) : obs :=
  {| o_out := match r with Ret v => XRet v | Raise e => XExc e end;
     o_log := rev (log s);
     o_tables := map (fun t => sort_by_id (t_rows t)) (tlist (tables s));
     o_slots := map (option_map (view s)) (slots s);
     o_cached := map (fun c => (map fst (c_strong c),
                                sort_z (map fst (filter (fun e => alive s [] (snd e)) (c_weak c))))) (tlist (caches s));
     o_skip := false |}.

(* index of the first step on which model and implementation differ *)
Fixpoint first_bad (cfg : config) (s : st) (steps : list (op * obs)) (n : nat) : option nat :=
  match steps with
  | [] => None
  | (o, expected) :: rest =>
      let '(r, s') := step cfg s o in
      if o_skip expected || obs_eqb (observe r s') expected then first_bad cfg s' rest (S n) else Some n
  end.

Definition agree (c : case) : bool :=
  match first_bad (c_cfg c) init (c_steps c) 0 with None => true | Some _ => false end.

(* for explanations: what the model shows after each step *)
Fixpoint model_trace (cfg : config) (s : st) (ops : list op) : list obs :=
  match ops with
  | [] => []
  | o :: rest => let '(r, s') := step cfg s o in observe r s' :: model_trace cfg s' rest
  end.
