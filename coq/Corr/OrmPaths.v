(* Correspondence for the access-path extension of the ORM model (C04):
   histories of base operations, foreign-key traversals and join accessors. *)
From Coq Require Import List ZArith Bool.
From Lib Require Import CorrLib.
From Model Require Import Orm OrmPaths.
From Corr Require Import Orm.
Import ListNotations.
Open Scope Z_scope.

Record pcase := { pc_cfg : config; pc_steps : list (pop * obs) }.

Fixpoint pfirst_bad (cfg : config) (s : st) (steps : list (pop * obs)) (n : nat) : option nat :=
  match steps with
  | [] => None
  | (o, expected) :: rest =>
      let '(r, s') := pstep cfg s o in
      if o_skip expected || obs_eqb (observe r s') expected then pfirst_bad cfg s' rest (S n) else Some n
  end.

Definition pagree (c : pcase) : bool :=
  match pfirst_bad (pc_cfg c) init (pc_steps c) 0 with None => true | Some _ => false end.

Fixpoint pmodel_trace (cfg : config) (s : st) (ops : list pop) : list obs :=
  match ops with
  | [] => []
  | o :: rest => let '(r, s') := pstep cfg s o in observe r s' :: pmodel_trace cfg s' rest
  end.
