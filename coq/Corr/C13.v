(* Correspondence for C13: a history of operations, and after every step what
   the implementation showed -- the op's outcome, the raw tables, the result of
   every join accessor of every live object -- against the model run on the same
   history. *)
From Coq Require Import List ZArith Bool.
From Lib Require Import CorrLib.
From Gen Require Import Joins.
From Model Require Import Joins.
Import ListNotations.
Open Scope Z_scope.

(* result of one accessor read *)
Inductive oacc :=
| OIds (l : list Z)        (* ids of the objects returned, in order *)
| ONoneV                   (* SingleJoin gave None *)
| OOneV (i : Z)            (* SingleJoin gave the object with this id *)
| OSel (l : list Z) (n : Z)  (* ManyToMany / OneToMany wrapper: ids of the iteration, and .count() *)
| OErr (e : Z).            (* 1 SQLObjectNotFound, 2 RecursionError, 3 database error, 0 anything else *)

(* To keep the cases files small an observation is sent as a difference to
   the previous step's: a table that did not change is None, and only the
   accessor reads whose result changed (or whose owner is new) are listed.  The
   full observation is rebuilt here before anything is compared. *)
Definition otab := list (Z * list (option Z)).    (* (id, [k0; k1; k2; a_id]) ORDER BY id *)
Record stepobs := {
  so_status : Z;                          (* 0 done, 1 SQLObjectNotFound, 2 DuplicateEntryError, 4 TypeError and 9 other: no model status has these codes *)
  so_tabs : list (option otab);           (* A, B, P *)
  so_links : list (option (list (Z * Z)));(* lab, lap, lpp ORDER BY rowid *)
  so_acc : list (Z * Z * oacc)            (* (accessor number, owner id, result) *)
}.
Record full := { f_tabs : list otab; f_links : list (list (Z * Z)); f_acc : list (Z * Z * oacc) }.
Definition full0 : full := {| f_tabs := [[]; []; []]; f_links := [[]; []; []]; f_acc := [] |}.

Record case := {
  c_def : list order;        (* sqlmeta.defaultOrder of A, B, P *)
  c_ord : list jorder;       (* orderBy of bs/bsq, rbs/rbsq, ps/psq, ras/rasq, fr/frq, of/ofq (JDefault: not given) *)
  c_ops : list op;
  c_obs : list stepobs
}.

Definition oz_eqb := option_eqb Z.eqb.
Definition pair_eqb (a b : Z * Z) : bool := (fst a =? fst b) && (snd a =? snd b).
Definition row_repr (r : row) : Z * list (option Z) := (r_id r, [r_k0 r; r_k1 r; r_k2 r; r_fk r]).
Definition repr_eqb (a b : Z * list (option Z)) : bool := (fst a =? fst b) && list_eqb oz_eqb (snd a) (snd b).

Definition status_code (st : status) : Z :=
  match st with SOk => 0 | SNotFound => 1 | SDuplicate => 2 end.

Definition dflt (c : case) (k : cls) : order :=
  nth (match k with CA => 0 | CB => 1 | CP => 2 end)%nat (c_def c) ONone.
(* the effective ordering of join pair n: its own orderBy, or the defaultOrder of the class it returns *)
Definition ord (c : case) (n : nat) : order :=
  effective (dflt c (match n with 0 | 1 => CB | 3 => CA | _ => CP end)%nat) (nth n (c_ord c) (JGiven ONone)).
Definition jP_mas := {| j_link := LAP; j_side := Second |}.   (* P's view of the A--P table: only the ManyToMany declares it *)

Definition list_match (r : jres (list row)) (o : oacc) : bool :=
  match r, o with
  | JOk l, OIds q => list_eqb Z.eqb (ids l) q
  | JNotFound, OErr 1 => true
  | JDiverge, OErr 2 => true
  | JDbError, OErr 3 => true
  | _, _ => false
  end.
Definition sql_match (keys : list skey) (r : jres (list row)) (o : oacc) : bool :=
  match r, o with
  | JOk cands, OIds q => sql_rows_b keys cands q
  | JDbError, OErr 3 => true
  | _, _ => false
  end.
Definition single_match (d : order) (s : state) (a : Z) (o : oacc) : bool :=
  match o with
  | ONoneV => single_first_b d s a None
  | OOneV i => single_first_b d s a (Some i)
  | _ => false
  end.
Definition sel_match (d : order) (cands : list row) (o : oacc) : bool :=
  match o with
  | OSel q n => sql_rows_b (order_keys d) cands q && (n =? Z.of_nat (length cands))
  | _ => false
  end.

Definition acc_match (c : case) (s : state) (a : Z * Z * oacc) : bool :=
  let '(n, i, o) := a in
  match n with
  | 0 => list_match (multiple_join (ord c 0) s i) o
  | 1 => sql_match (order_keys (ord c 0)) (sql_multiple (ord c 0) s i) o
  | 2 => single_match (dflt c CB) s i o
  | 3 => list_match (related_join jA_rbs (ord c 1) s i) o
  | 4 => sql_match (order_keys (ord c 1)) (sql_related jA_rbs (ord c 1) s i) o
  | 5 => list_match (related_join jA_ps (ord c 2) s i) o
  | 6 => sql_match (order_keys (ord c 2)) (sql_related jA_ps (ord c 2) s i) o
  | 7 => list_match (related_join jB_ras (ord c 3) s i) o
  | 8 => sql_match (order_keys (ord c 3)) (sql_related jB_ras (ord c 3) s i) o
  | 9 => list_match (related_join jP_fr (ord c 4) s i) o
  | 10 => sql_match (order_keys (ord c 4)) (sql_related jP_fr (ord c 4) s i) o
  | 11 => list_match (related_join jP_of (ord c 5) s i) o
  | 12 => sql_match (order_keys (ord c 5)) (sql_related jP_of (ord c 5) s i) o
  | 13 => sel_match (dflt c CB) (m2m_cands jA_rbs s i) o        (* A.mbs  ManyToMany over lab *)
  | 14 => sel_match (dflt c CB) (o2m_cands s i) o               (* A.obs  OneToMany over B.a_id *)
  | 15 => sel_match (dflt c CA) (m2m_cands jB_ras s i) o        (* B.mas  ManyToMany over lab, other side *)
  | 16 => sel_match (dflt c CA) (m2m_cands jP_mas s i) o        (* P.mas  ManyToMany over lap, the side no RelatedJoin declares *)
  | 17 => sel_match (dflt c CP) (m2m_cands jP_fr s i) o         (* P.mfr  ManyToMany over lpp *)
  | _ => false
  end.

Fixpoint patch {X : Type} (prev : list X) (d : list (option X)) : list X :=
  match prev, d with
  | p :: prev', Some x :: d' => x :: patch prev' d'
  | p :: prev', None :: d' => p :: patch prev' d'
  | _, _ => []
  end.

(* every accessor of every live object, in the order the harness reads them *)
Definition reads_of (a b p : list Z) : list (Z * Z) :=
  flat_map (fun i => map (fun n => (n, i)) [0; 1; 2; 3; 4; 5; 6; 13; 14]) a ++
  flat_map (fun i => map (fun n => (n, i)) [7; 8; 15]) b ++
  flat_map (fun i => map (fun n => (n, i)) [9; 10; 11; 12; 16; 17]) p.
Definition expected_reads (s : state) : list (Z * Z) := reads_of (ids (tA s)) (ids (tB s)) (ids (tP s)).
Definition observed_reads (t : list otab) : list (Z * Z) :=
  reads_of (map fst (nth 0 t [])) (map fst (nth 1 t [])) (map fst (nth 2 t [])).

Definition lookup_acc (k : Z * Z) (l : list (Z * Z * oacc)) : option oacc :=
  option_map snd (find (fun e => pair_eqb k (fst e)) l).
Definition rebuild (prev : full) (b : stepobs) : full :=
  let tabs := patch (f_tabs prev) (so_tabs b) in
  {| f_tabs := tabs;
     f_links := patch (f_links prev) (so_links b);
     f_acc := map (fun k => (k, match lookup_acc k (so_acc b) with
                                | Some o => o
                                | None => match lookup_acc k (f_acc prev) with Some o => o | None => OErr 99 end
                                end))
                  (observed_reads tabs) |}.

Definition step_agree (c : case) (s : state) (o : op) (prev : full) (b : stepobs) : bool :=
  let s' := step s o in
  let f := rebuild prev b in
  (status_code (op_status s o) =? so_status b) &&
  list_eqb (list_eqb repr_eqb) [map row_repr (tA s'); map row_repr (tB s'); map row_repr (tP s')] (f_tabs f) &&
  list_eqb (list_eqb pair_eqb) [lAB s'; lAP s'; lPP s'] (f_links f) &&
  list_eqb pair_eqb (expected_reads s') (map (fun a => fst a) (f_acc f)) &&
  forallb (fun d => existsb (pair_eqb (fst d)) (expected_reads s')) (so_acc b) &&
  forallb (acc_match c s') (f_acc f).

Fixpoint run_agree (c : case) (s : state) (prev : full) (ops : list op) (obs : list stepobs) : bool :=
  match ops, obs with
  | [], [] => true
  | o :: ops', b :: obs' => step_agree c s o prev b && run_agree c (step s o) (rebuild prev b) ops' obs'
  | _, _ => false
  end.

Definition agree (c : case) : bool := run_agree c init full0 (c_ops c) (c_obs c).
