(* Correspondence for C17: the pattern text and the whole LIKE expression the
   helpers produce for every dialect, what the python reference lexers /
   matchers (used by the oracle) make of them, and the rows the real sqlite
   selects -- against the model. *)
From Coq Require Import List NArith Bool.
From Lib Require Import Str Lex CorrLib.
From Gen Require Import Lit Like.
From Model Require Import Lit Like.
Import ListNotations.
Open Scope N_scope.

Definition lexres_eqb (a b : option (str * str)) : bool :=
  match a, b with
  | None, None => true
  | Some (x, r), Some (y, q) => str_eqb x y && str_eqb r q
  | _, _ => false
  end.
Definition opt_str_eqb := option_eqb str_eqb.

(* the stored texts: all strings over an alphabet up to a length (same order as the harness), or an explicit list *)
Inductive store := SAll (alphabet : str) (n : nat) | SList (l : list str).
Fixpoint layer (alpha : str) (n : nat) : list str :=
  match n with
  | O => [[]]
  | S n' => flat_map (fun p => map (fun c => p ++ [c]) alpha) (layer alpha n')
  end.
Fixpoint upto (alpha : str) (n : nat) : list str :=
  match n with O => layer alpha 0 | S n' => upto alpha n' ++ layer alpha n end.
Definition stored (s : store) : list str := match s with SAll a n => upto a n | SList l => l end.

Fixpoint indices_from (i : N) (l : list bool) : list N :=
  match l with [] => [] | b :: r => (if b then [i] else []) ++ indices_from (i + 1) r end.

Record case := {
  c_kind : kind;
  c_arg : str;
  c_col : str;
  c_patterns : list str;                       (* sqlrepr(pattern operand, d), seven dialects *)
  c_exprs : list str;                          (* sqlrepr(col.helper(arg), d), seven dialects *)
  c_decoded : list (option (str * str));       (* python reference lexers on c_patterns *)
  c_store : store;
  c_rows : option (list N);                    (* indices of the stored texts sqlite selected; None = the driver refused *)
  c_probe : list (str * bool * bool)           (* text, python like_match on the mysql-decoded pattern,
                                                  python tsql_like on the mssql-decoded pattern (exact comparison) *)
}.

Fixpoint zip_with {A B C} (f : A -> B -> C) (a : list A) (b : list B) : list C :=
  match a, b with x :: a', y :: b' => f x y :: zip_with f a' b' | _, _ => [] end.

Definition decoded_pat (d : dialect) (text : str) : option str :=
  match lex_lit d text with Some (p, []) => Some p | _ => None end.

Definition agree (c : case) : bool :=
  let k := c_kind c in let s := c_arg c in
  list_eqb opt_str_eqb (map (fun d => pattern_literal d k s) all_dialects) (map Some (c_patterns c))
  && list_eqb opt_str_eqb (map (fun d => like_sql d (c_col c) k s) all_dialects) (map Some (c_exprs c))
  && list_eqb lexres_eqb (zip_with (fun d t => lex_lit d t) all_dialects (c_patterns c)) (c_decoded c)
  && match c_rows c with
     | None => negb (sqlite_accepts (nth 0 (c_exprs c) []))
     | Some rows =>
         sqlite_accepts (nth 0 (c_exprs c) []) &&
         match decoded_pat Sqlite (nth 0 (c_patterns c) []) with
         | Some pat => list_eqb N.eqb (indices_from 0 (map (like_match eq_nocase (Some c_bsl) pat) (stored (c_store c)))) rows
         | None => false
         end
     end
  && match decoded_pat Mysql (nth 1 (c_patterns c) []), decoded_pat Mssql (nth 6 (c_patterns c) []) with
     | Some pm, Some pt =>
         forallb (fun p => let '(t, bl, bt) := p in
                           Bool.eqb (like_match N.eqb (Some c_bsl) pm t) bl
                           && match tsql_like N.eqb (Some c_bsl) pt t with Some b => Bool.eqb b bt | None => false end)
                 (c_probe c)
     | _, _ => match c_probe c with [] => true | _ => false end
     end.
