(* Correspondence for C15: a case is a history with, for every step, what the
   real SQLObject returned and the raw dump of every table afterwards; `agree`
   runs the model over the same operations and compares step by step. *)
From Coq Require Import List ZArith Bool.
From Lib Require Import CorrLib.
From Model Require Import Inherit InheritInst.
Import ListNotations.
Open Scope Z_scope.

(* an object as the implementation showed it: id, class, and for instances of
   the _parent chain (most derived first) the values of the columns visible there *)
Record oobj := mkoobj { b_id : Z; b_cls : cls; b_views : list (cls * list (option Z)) }.

Inductive ores :=
| OOk | OSkip
| OErr (e : exn)
| OObj (o : oobj)
| OSeen (l : list (cls * oobj * bool))          (* entry class, what get returned, same instance as the written one *)
| OObjs (l : list oobj) (n : Z) (from : list cls)
| OVal (v : option Z).                          (* one attribute read through a held instance *)

(* a step of the extended history language (Model/InheritInst.v); `c_inst`: the history was run on ONE identity map
   (instance layer: cached values, sync / expire, out-of-band UPDATEs); otherwise the operations are all `Old` ones
   and the tables-only model of Model/Inherit.v is compared *)
Record ostep := mkstep { s_op : iop; s_res : ores; s_tabs : list (list row); s_refs : list Z }.
Record case := mkcase { c_auto : bool; c_inst : bool; c_steps : list ostep }.
Definition unold (o : iop) : op := match o with Old o' => o' | _ => Unref 0 end.
Definition all_old (l : list iop) : bool := forallb (fun o => match o with Old _ => true | _ => false end) l.

Definition exn_eqb (a b : exn) : bool :=
  match a, b with
  | ENotFound, ENotFound | EDup, EDup | EIntegrity, EIntegrity | EInvalid, EInvalid | EType, EType
  | ERestrict, ERestrict | EKey, EKey | EAttr, EAttr | EOther, EOther => true
  | _, _ => false
  end.
Fixpoint all2 {X Y : Type} (f : X -> Y -> bool) (a : list X) (b : list Y) : bool :=
  match a, b with
  | [], [] => true
  | x :: a', y :: b' => f x y && all2 f a' b'
  | _, _ => false
  end.
(* the dumps and the select results are compared in id order (the model keeps insertion order; with explicit ids they differ) *)
Fixpoint ins_by {X : Type} (key : X -> Z) (x : X) (l : list X) : list X :=
  match l with
  | [] => [x]
  | y :: r => if key x <? key y then x :: l else y :: ins_by key x r
  end.
Definition sort_by {X : Type} (key : X -> Z) (l : list X) : list X := fold_right (ins_by key) [] l.

Definition oz_eqb := option_eqb Z.eqb.
Definition row_eqb (a b : row) : bool :=
  (rid a =? rid b) && oz_eqb (rv a) (rv b) && option_eqb cls_eqb (rtag a) (rtag b).
Definition view_eqb (a b : cls * list (option Z)) : bool :=
  cls_eqb (fst a) (fst b) && list_eqb oz_eqb (snd a) (snd b).

Definition views_of (o : obj) : list (cls * list (option Z)) :=
  map (fun l => (l, firstn (level l) (ovals o))) (rev (chain (ocls o))).

Definition obj_full_eqb (m : obj) (o : oobj) : bool :=
  (oid m =? b_id o) && cls_eqb (ocls m) (b_cls o) && list_eqb view_eqb (views_of m) (b_views o).
Definition obj_head_eqb (m : obj) (o : oobj) : bool :=
  (oid m =? b_id o) && cls_eqb (ocls m) (b_cls o) && list_eqb view_eqb [(ocls m, ovals m)] (b_views o).

Fixpoint seen_eqb (es : list cls) (ms : list obj) (os : list (cls * oobj * bool)) : bool :=
  match es, ms, os with
  | [], [], [] => true
  | e :: es', m :: ms', (e', o, same) :: os' => cls_eqb e e' && obj_full_eqb m o && same && seen_eqb es' ms' os'
  | _, _, _ => false
  end.

Definition res_eqb (m : res) (o : ores) : bool :=
  match m, o with
  | ROk, OOk | RSkip, OSkip => true
  | RErr a, OErr b => exn_eqb a b
  | RObj a, OObj b => obj_full_eqb a b
  | RObj a, OVal v => list_eqb oz_eqb (ovals a) [v]
  | RSeen l, OSeen l' => match l with
                         | [] => false
                         | m0 :: _ => seen_eqb (chain (ocls m0)) l l'
                         end
  | RObjs l n f, OObjs l' n' f' => all2 obj_head_eqb (sort_by oid l) l' && (n =? n') && list_eqb cls_eqb f f'
  | _, _ => false
  end.

Definition tabs_eqb (s : st) (t : list (list row)) : bool :=
  list_eqb (list_eqb row_eqb) (map (sort_by rid) [tA s; tB s; tC s; tB2 s]) t.

Fixpoint steps_agree (tr : list (st * res)) (os : list ostep) : bool :=
  match tr, os with
  | [], [] => true
  | (s, r) :: tr', o :: os' =>
      res_eqb r (s_res o) && tabs_eqb s (s_tabs o) && list_eqb Z.eqb (refs s) (s_refs o) && steps_agree tr' os'
  | _, _ => false
  end.

Definition agree (c : case) : bool :=
  if c_inst c then
    steps_agree (map (fun sr => (db (fst sr), snd sr)) (itrace (c_auto c) iinit (map s_op (c_steps c)))) (c_steps c)
  else
    all_old (map s_op (c_steps c)) &&
    steps_agree (trace (c_auto c) init (map unold (map s_op (c_steps c)))) (c_steps c).
