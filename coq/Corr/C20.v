(* Correspondence for C20: the model of Model/Versioning.v run on a history,
   compared after every step with the real SQLObject: outcome, the raw master
   and version tables, and what master.versions returns for every master
   still alive; for nextVersion() / getChangedFields() the outcome IS the
   answer (the version or master returned, the list of columns). *)
From Coq Require Import List ZArith NArith Bool.
From Lib Require Import CorrLib.
From Model Require Import Events Versioning.
Import ListNotations.
Open Scope Z_scope.

Definition val_eqb (a b : val) : bool :=
  match a, b with
  | VNull, VNull => true
  | VInt x, VInt y => Z.eqb x y
  | VStr x, VStr y => list_eqb N.eqb x y
  | _, _ => false
  end.
Definition kw_eqb (a b : kwargs) : bool :=
  list_eqb (fun p q => col_eqb (fst p) (fst q) && val_eqb (snd p) (snd q)) a b.
Definition exn_eqb (a b : exn) : bool :=
  match a, b with
  | XInvalid, XInvalid | XTypeError, XTypeError | XKeyError, XKeyError | XNotFound, XNotFound
  | XDuplicate, XDuplicate => true
  | _, _ => false
  end.
Definition tbl_eqb (a b : list (Z * kwargs)) : bool :=
  list_eqb (fun p q => Z.eqb (fst p) (fst q) && kw_eqb (snd p) (snd q)) a b.

Definition vrow_eqb (a b : vrow) : bool :=
  Z.eqb (v_id a) (v_id b) && Z.eqb (v_master a) (v_master b) && kw_eqb (v_vals a) (v_vals b).
Definition voutcome_eqb (a b : voutcome) : bool :=
  match a, b with
  | VDone, VDone | VNoHandle, VNoHandle => true
  | VExn x, VExn y => exn_eqb x y
  | VNextV x, VNextV y => vrow_eqb x y
  | VNextM m r, VNextM m' r' => Z.eqb m m' && kw_eqb r r'
  | VFields l, VFields l' => list_eqb col_eqb l l'
  | _, _ => false
  end.

(* One observed step.  The raw version table is transmitted as a delta (the
   harness checks that the previous rows are unchanged, otherwise it sends the
   whole table in o_vfull); list(master.versions) is transmitted as the ids,
   after the harness has checked that each returned row equals the raw row of
   that id (o_api_rows_ok). *)
Record vobs := {
  o_op : vop;
  o_out : voutcome;
  o_masters : list (Z * kwargs);
  o_vnew : list vrow;                     (* version rows appended by this step *)
  o_vfull : option (list vrow);           (* Some t: the table is t (not an append) *)
  o_api : list (Z * list Z);              (* per created master: ids of list(master.versions) *)
  o_api_rows_ok : bool;
  o_decoy : option (list (Z * kwargs) * list vrow)   (* the class's own database, when it changed (foreign modes) *)
}.
(* foreign = the masters live on a connection that is not the class's own
   (per-call connection= or a Transaction; the class's connection points at
   the decoy database) *)
Record case := { c_foreign : bool; c_steps : list vobs }.

Fixpoint agree_from (foreign : bool) (ws : wstate) (seen : list vrow) (steps : list vobs) : bool :=
  match steps with
  | [] => true
  | o :: r =>
      let x := wstep foreign ws (o_op o) in
      let st' := w_main (fst x) in
      let seen' := match o_vfull o with Some t => t | None => seen ++ o_vnew o end in
      voutcome_eqb (snd x) (o_out o)
      && tbl_eqb (m_tbl st') (o_masters o)
      && list_eqb vrow_eqb (v_tbl st') seen'
      && o_api_rows_ok o
      && list_eqb (fun p q => Z.eqb (fst p) (fst q) && list_eqb Z.eqb (snd p) (snd q))
           (map (fun p => (fst p, map v_id (versions_of (fst p) st'))) (m_tbl st')) (o_api o)
      && match o_decoy o with
         | Some d => tbl_eqb (m_tbl (w_decoy (fst x))) (fst d) && list_eqb vrow_eqb (v_tbl (w_decoy (fst x))) (snd d)
         | None => tbl_eqb (m_tbl (w_decoy (fst x))) (m_tbl (w_decoy ws))
                   && Z.eqb (v_next (w_decoy (fst x))) (v_next (w_decoy ws))
         end
      && agree_from foreign (fst x) seen' r
  end.
Definition agree (c : case) : bool := agree_from (c_foreign c) winit [] (c_steps c).
