(* Correspondence for C19: the model of Model/Events.v run on a history,
   compared step by step with what the real SQLObject was observed to do:
   outcome, ordered event/write trace, both tables, and the passive state of
   every instance (_SO_createValues, row_update_sig_suppress). *)
From Coq Require Import List ZArith NArith Bool.
From Lib Require Import CorrLib.
From Model Require Import Events.
Import ListNotations.
Open Scope Z_scope.

Definition val_eqb (a b : val) : bool :=
  match a, b with
  | VNull, VNull => true
  | VInt x, VInt y => Z.eqb x y
  | VStr x, VStr y => list_eqb N.eqb x y
  | _, _ => false
  end.
Definition kw_eqb (a b : kwargs) : bool :=
  list_eqb (fun p q => col_eqb (fst p) (fst q) && val_eqb (snd p) (snd q)) a b.
Definition optz_eqb := option_eqb Z.eqb.

Definition write_eqb {K} (keq : K -> K -> bool) (a b : write K) : bool :=
  match a, b with
  | WInsert k i r, WInsert k' i' r' => keq k k' && Z.eqb i i' && kw_eqb r r'
  | WUpdate k i r, WUpdate k' i' r' => keq k k' && Z.eqb i i' && kw_eqb r r'
  | WDelete k i, WDelete k' i' => keq k k' && Z.eqb i i'
  | _, _ => false
  end.
Definition ev_eqb {K} (keq : K -> K -> bool) (a b : ev K) : bool :=
  match a, b with
  | ESig s k i kw li, ESig s' k' i' kw' li' =>
      sig_eqb s s' && keq k k' && optz_eqb i i' && kw_eqb kw kw' && Z.eqb li li'
  | EPost s t k i, EPost s' t' k' i' => sig_eqb s s' && Z.eqb t t' && keq k k' && Z.eqb i i'
  | EWrite w, EWrite w' => write_eqb keq w w'
  | _, _ => false
  end.

Definition exn_eqb (a b : exn) : bool :=
  match a, b with
  | XInvalid, XInvalid | XTypeError, XTypeError | XKeyError, XKeyError | XNotFound, XNotFound
  | XDuplicate, XDuplicate | XBoom, XBoom => true
  | _, _ => false
  end.
Definition outcome_eqb (a b : outcome) : bool :=
  match a, b with
  | Done, Done | NoHandle, NoHandle => true
  | Ids x, Ids y => list_eqb Z.eqb x y
  | Exn x, Exn y => exn_eqb x y
  | _, _ => false
  end.
Definition coutcome_eqb (a b : coutcome) : bool :=
  match a, b with
  | CDone x, CDone y => Z.eqb x y
  | CExn x, CExn y => exn_eqb x y
  | CBadInput, CBadInput => true
  | _, _ => false
  end.

Definition tbl_eqb (a b : list (Z * kwargs)) : bool :=
  list_eqb (fun p q => Z.eqb (fst p) (fst q) && kw_eqb (snd p) (snd q)) a b.
Definition hs_view (hs : list (Z * hstate)) : list (Z * (kwargs * bool)) :=
  map (fun p => (fst p, (h_pend (snd p), false))) hs.   (* the suppress flag never outlives _SO_setValue *)
Definition hs_eqb (a b : list (Z * (kwargs * bool))) : bool :=
  list_eqb (fun p q => Z.eqb (fst p) (fst q) && kw_eqb (fst (snd p)) (fst (snd q))
                         && Bool.eqb (snd (snd p)) (snd (snd q))) a b.

(* one observed step of a plain history *)
Record pstep := {
  p_op : op;
  p_out : outcome;
  p_tr : list (ev cls);
  p_te : list (Z * kwargs);                 (* eager table afterwards *)
  p_tl : list (Z * kwargs);                 (* lazy table afterwards *)
  p_he : list (Z * (kwargs * bool));        (* eager instances: pending values, suppress flag *)
  p_hl : list (Z * (kwargs * bool))
}.

Definition optlvl_eqb := option_eqb lvl_eqb.
Definition crow_eqb (a b : crow) : bool :=
  Z.eqb (fst (fst a)) (fst (fst b)) && val_eqb (snd (fst a)) (snd (fst b)) && optlvl_eqb (snd a) (snd b).

Record cstep := {
  q_op : cop;                               (* a creation, or an update of a held chain instance *)
  q_out : coutcome;
  q_tr : list (ev lvl);
  q_a : list crow; q_b : list crow; q_c : list crow
}.

Inductive case :=
| CPlain (g : cfg) (steps : list pstep)
| CChain (script : list reg) (tabs_seen : list (list Z)) (steps : list cstep).

Fixpoint agree_plain (g : cfg) (st : state) (steps : list pstep) : bool :=
  match steps with
  | [] => true
  | p :: r =>
      let x := step g st (p_op p) in
      let st' := fst (fst x) in
      outcome_eqb (snd (fst x)) (p_out p)
      && list_eqb (ev_eqb cls_eqb) (snd x) (p_tr p)
      && tbl_eqb (k_tbl (s_e st')) (p_te p) && tbl_eqb (k_tbl (s_l st')) (p_tl p)
      && hs_eqb (hs_view (k_hs (s_e st'))) (p_he p) && hs_eqb (hs_view (k_hs (s_l st'))) (p_hl p)
      && agree_plain g st' r
  end.

Fixpoint agree_chain (t : tabs) (s : chstate) (steps : list cstep) : bool :=
  match steps with
  | [] => true
  | q :: r =>
      let x := chain_step t s (q_op q) in
      let s' := fst (fst x) in
      coutcome_eqb (snd (fst x)) (q_out q)
      && list_eqb (ev_eqb lvl_eqb) (snd x) (q_tr q)
      && list_eqb crow_eqb (ca s') (q_a q) && list_eqb crow_eqb (cb s') (q_b q)
      && list_eqb crow_eqb (cc s') (q_c q)
      && agree_chain t s' r
  end.

Definition agree (c : case) : bool :=
  match c with
  | CPlain g steps => agree_plain g init steps
  | CChain script seen steps =>
      let t := effective script in
      (* the receivers PyDispatcher holds for each class, by listener number *)
      list_eqb (list_eqb Z.eqb) [map fst (t_a t); map fst (t_b t); map fst (t_c t)] seen
      && agree_chain t cinit steps
  end.
