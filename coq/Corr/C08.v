(* Correspondence for C08: threads driven step by step, each working through its
   history of hub.doInTransaction(body) calls and ordinary writes through the hub
   in between; after every scheduling step the committed table
   (independent DB-API connection), what hub.getConnection() answers in every
   thread, and for every thread whether it is outside / inside / through with
   its doInTransaction, the result, and the state of the transaction it used. *)
From Coq Require Import List ZArith Bool.
From Lib Require Import CorrLib.
From Model Require Import Txn Hub.
Import ListNotations.
Open Scope Z_scope.

Inductive pview := VIdle | VRun | VDone (r : result) (x : option (bool * bool)).

Record tobs := { b_slot : option cref;       (* the raw thread-local slot of this thread *)
                 b_resolve : option cref;    (* hub.getConnection() in this thread *)
                 b_phase : pview;            (* inside a call / the result of its last call (nothing yet: Return [] with no transaction) *)
                 b_plain : option result }.  (* the outcome of its last ordinary write outside a doInTransaction *)
Record obs := { o_table : list (Z * row) * Z; o_proc : option cref (* the raw process-level slot *); o_threads : list tobs }.

Record case := {
  c_slots : list (option nat);           (* per thread: the DBConnection bound as its threadConnection, if any *)
  c_proc : option nat;                   (* the DBConnection bound as processConnection, if any *)
  c_table : list (Z * row) * Z;          (* rows and next id before the run *)
  c_progs : list (list item);            (* per thread: doInTransaction calls and ordinary writes, in order *)
  c_broken : list (option Z);            (* per thread: the row id whose parent-side instance was left without attributes and with
                                            its flag clear before the run (expire() used to raise on it); no effect on the model *)
  c_sched : list (nat * obs)             (* which thread moves, and what was seen afterwards *)
}.

Definition hexc_idx (e : hexc) : nat :=
  match e with XUser n => 10 + n | XNotFound => 0 | XLocked => 1 | XNoConnection => 2 | XNested => 3 | XDuplicate => 4
          | XAssert => 5 | XRecursion => 6 | XBase n => 1000 + n end%nat.
Definition result_eqb (a b : result) : bool :=
  match a, b with
  | Return x, Return y => list_eqb Z.eqb x y
  | Raised e k, Raised e' k' => Nat.eqb (hexc_idx e) (hexc_idx e') && Nat.eqb k k'
  | _, _ => false
  end.
Definition pview_eqb (a b : pview) : bool :=
  match a, b with
  | VIdle, VIdle | VRun, VRun => true
  | VDone r x, VDone r' x' =>
      result_eqb r r' && option_eqb (fun p q => Bool.eqb (fst p) (fst q) && Bool.eqb (snd p) (snd q)) x x'
  | _, _ => false
  end.
Definition tobs_eqb (a b : tobs) : bool :=
  option_eqb cref_eqb (b_slot a) (b_slot b) && option_eqb cref_eqb (b_resolve a) (b_resolve b) && pview_eqb (b_phase a) (b_phase b) &&
  option_eqb result_eqb (b_plain a) (b_plain b).
Definition tab_eqb (a b : list (Z * row) * Z) : bool :=
  list_eqb (fun x y => (fst x =? fst y) && list_eqb val_eqb (snd x) (snd y)) (fst a) (fst b) && (snd a =? snd b).
Definition obs_eqb (a b : obs) : bool :=
  tab_eqb (o_table a) (o_table b) && option_eqb cref_eqb (o_proc a) (o_proc b) && list_eqb tobs_eqb (o_threads a) (o_threads b).

Definition view_phase (ph : phase) : pview :=
  match ph with
  | PIdle _ => VIdle
  | PRun _ _ _ _ _ _ _ => VRun
  | PDone r x => VDone r (option_map (fun i => (x_obsolete i, x_released i)) x)
  end.

Fixpoint seq_from (n k : nat) : list nat := match k with O => [] | S k' => n :: seq_from (S n) k' end.

Definition observe (h : hst) : obs :=
  let g := h_g h in
  {| o_table := (t_rows (g_committed g), t_next (g_committed g));
     o_proc := g_proc g;
     o_threads := map (fun t => {| b_slot := ts_slot (thread g t); b_resolve := resolve g t;
                                   b_phase := view_phase (ts_phase (thread g t));
                                   b_plain := nth t (h_plain h) None |})
                      (seq_from 0 (length (g_threads g))) |}.

Definition start (c : case) : hst :=
  {| h_todo := c_progs c; h_plain := map (fun _ => None) (c_progs c); h_g :=
  {| g_committed := {| t_rows := fst (c_table c); t_next := snd (c_table c) |};
     g_lock := None;
     g_proc := option_map CDb (c_proc c);
     g_threads := map (fun ib => {| ts_slot := option_map CDb (nth (fst ib) (c_slots c) None);
                                   ts_phase := nothing_yet |})
                      (combine (seq_from 0 (length (c_progs c))) (c_progs c)) |} |}.

Fixpoint first_bad (g : hst) (steps : list (nat * obs)) (n : nat) : option nat :=
  match steps with
  | [] => None
  | (t, expected) :: rest =>
      let g' := htick g t in
      if obs_eqb (observe g') expected then first_bad g' rest (S n) else Some n
  end.

Definition agree (c : case) : bool :=
  match first_bad (start c) (c_sched c) 0 with None => true | Some _ => false end.

Fixpoint model_trace (g : hst) (sched : list nat) : list obs :=
  match sched with [] => [] | t :: rest => let g' := htick g t in observe g' :: model_trace g' rest end.

(* ------------------------------------------------------------------ one caller, nested calls / BaseExceptions / bodies touching the hub *)
(* DBConnection 0 is the caller's (thread slot, or process slot under process-level binding), 1 the process connection when the
   caller has both, 2 a spare one; the body's hub.threadConnection = ... uses any of them *)
Record ncase := {
  nc_slot : option nat;                  (* hub.threadConnection before the call *)
  nc_proc : option nat;                  (* hub.processConnection before the call *)
  nc_table : list (Z * row) * Z;
  nc_body : nbody;
  (* seen when hub.doInTransaction(body) is through (the exception, if any, still held by the caller) *)
  nc_result : result;
  nc_after : list (Z * row) * Z;
  nc_slot_after : option cref;
  nc_proc_after : option cref;
  nc_log : list nev;                     (* what the program noted down *)
  nc_locked : bool;                      (* does anybody hold the write lock *)
  (* seen after the exception object is dropped *)
  nc_final_locked : bool;
  nc_final_open : list nat               (* transactions still alive and not obsolete *)
}.

Definition nstart (c : ncase) : nst :=
  {| n_committed := {| t_rows := fst (nc_table c); t_next := snd (nc_table c) |};
     n_lock := None; n_slot := option_map CDb (nc_slot c); n_proc := option_map CDb (nc_proc c); n_txs := []; n_log := [] |}.

Definition nev_eqb (a b : nev) : bool :=
  match a, b with
  | EStep x, EStep y => option_eqb cref_eqb x y
  | EExit i o l, EExit i' o' l' => Nat.eqb i i' && Bool.eqb o o' && Bool.eqb l l'
  | _, _ => false
  end.

Fixpoint open_ids (l : list ntx) (i : nat) : list nat :=
  match l with [] => [] | x :: r => (if nx_open x then [i] else []) ++ open_ids r (S i) end.

Definition nagree (c : ncase) : bool :=
  let '(s, r) := ncall (nstart c) (nc_body c) in
  let f := s in                          (* dropping the exception object changes nothing any more (e6ce2b8) *)
  result_eqb r (nc_result c) &&
  tab_eqb (t_rows (n_committed s), t_next (n_committed s)) (nc_after c) &&
  option_eqb cref_eqb (n_slot s) (nc_slot_after c) && option_eqb cref_eqb (n_proc s) (nc_proc_after c) &&
  list_eqb nev_eqb (n_log s) (nc_log c) &&
  Bool.eqb (is_some (n_lock s)) (nc_locked c) &&
  Bool.eqb (is_some (n_lock f)) (nc_final_locked c) && list_eqb Nat.eqb (open_ids (n_txs f) 0) (nc_final_open c).

Inductive anycase := COld (c : case) | CNest (c : ncase).
Definition agree_any (c : anycase) : bool := match c with COld c => agree c | CNest c => nagree c end.

Definition nmodel (c : ncase) := let '(s, r) := ncall (nstart c) (nc_body c) in (r, n_committed s, n_slot s, n_proc s, n_log s, n_lock s, n_txs s).
