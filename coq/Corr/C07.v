(* Correspondence for C07: a history of operations on the parent connection and
   on a Transaction, and after every operation what the implementation showed:
   the outcome, the SQL statements (with the connection that sent them), the
   committed table (read through an independent DB-API connection), the
   transaction's private view (read through its own DB-API connection), the
   transaction's bookkeeping, the passive state of every object the application
   holds and both identity-map caches. *)
From Coq Require Import List ZArith Bool.
From Lib Require Import CorrLib.
From Model Require Import Txn.
Import ListNotations.
Open Scope Z_scope.

Record slotview := {
  v_side : side; v_id : Z; v_vals : list (option val);
  v_expired : bool; v_obsolete : bool;
  v_reg : bool;                              (* the connection's cache hands out this very object for its id *)
  v_pending : list (option val)              (* _SO_createValues by column (sqlmeta.dirty = some column is queued) *)
}.

Inductive outcome := XRet (v : outv) | XExc (e : exc).

Record cacheview := { k_present : bool; k_strong : list Z; k_weak : list Z; k_count : Z; k_offset : Z }.

Record obs := {
  o_out : outcome;
  o_log : list stmt;                           (* oldest first *)
  o_committed : list (Z * row) * Z;            (* rows by id, next id *)
  o_pending : option (list (Z * row) * Z);     (* None = the transaction's DB-API connection has no open transaction *)
  o_deleted : list Z;
  o_tobs : bool;
  o_slots : list (option slotview);
  o_caches : cacheview * cacheview             (* parent, transaction *)
}.

Record case := { c_cfg : config; c_steps : list (op * obs) }.

Definition exc_idx (e : exc) : nat :=
  match e with ENotFound => 0 | EOperational => 1 | EAssertion => 2 | EAttribute => 3 | EBadHandle => 4 | EDuplicate => 5 | EPickling => 6 end%nat.
Definition exc_eqb a b := Nat.eqb (exc_idx a) (exc_idx b).
Definition vrow_eqb := list_eqb val_eqb.
Definition stmt_eqb (a b : stmt) : bool :=
  match a, b with
  | SSelectOne s i, SSelectOne s' i' => side_eqb s s' && (i =? i')
  | SSelect s, SSelect s' => side_eqb s s'
  | SSelectCol s i c, SSelectCol s' i' c' => side_eqb s s' && (i =? i') && Nat.eqb c c'
  | SCount s, SCount s' => side_eqb s s'
  | SInsert s, SInsert s' => side_eqb s s'
  | SUpdate s i c, SUpdate s' i' c' => side_eqb s s' && (i =? i') && Nat.eqb c c'
  | SUpdateCols s i cs, SUpdateCols s' i' cs' => side_eqb s s' && (i =? i') && list_eqb Nat.eqb cs cs'
  | SDelete s i, SDelete s' i' => side_eqb s s' && (i =? i')
  | _, _ => false
  end.
Definition tok_eqb := option_eqb Nat.eqb.
Definition outv_eqb (a b : outv) : bool :=
  match a, b with
  | RNone, RNone => true
  | RObj i t, RObj i' t' => (i =? i') && tok_eqb t t'
  | RObjs l, RObjs l' => list_eqb (fun x y => (fst x =? fst y) && tok_eqb (snd x) (snd y)) l l'
  | RVal v, RVal v' => val_eqb v v'
  | RNum n, RNum n' => n =? n'
  | RState i l, RState i' l' => (i =? i') && list_eqb (option_eqb val_eqb) l l'
  | _, _ => false
  end.
Definition outcome_eqb (a b : outcome) : bool :=
  match a, b with
  | XRet v, XRet v' => outv_eqb v v'
  | XExc e, XExc e' => exc_eqb e e'
  | _, _ => false
  end.
Definition slotview_eqb (a b : slotview) : bool :=
  side_eqb (v_side a) (v_side b) && (v_id a =? v_id b) && list_eqb (option_eqb val_eqb) (v_vals a) (v_vals b) &&
  Bool.eqb (v_expired a) (v_expired b) && Bool.eqb (v_obsolete a) (v_obsolete b) && Bool.eqb (v_reg a) (v_reg b) &&
  list_eqb (option_eqb val_eqb) (v_pending a) (v_pending b).
Definition tab_eqb (a b : list (Z * row) * Z) : bool :=
  list_eqb (fun x y => (fst x =? fst y) && vrow_eqb (snd x) (snd y)) (fst a) (fst b) && (snd a =? snd b).
Definition cacheview_eqb (a b : cacheview) : bool :=
  Bool.eqb (k_present a) (k_present b) && list_eqb Z.eqb (k_strong a) (k_strong b) && list_eqb Z.eqb (k_weak a) (k_weak b) &&
  (k_count a =? k_count b) && (k_offset a =? k_offset b).
Definition obs_eqb (a b : obs) : bool :=
  outcome_eqb (o_out a) (o_out b) && list_eqb stmt_eqb (o_log a) (o_log b) &&
  tab_eqb (o_committed a) (o_committed b) && option_eqb tab_eqb (o_pending a) (o_pending b) &&
  list_eqb Z.eqb (o_deleted a) (o_deleted b) && Bool.eqb (o_tobs a) (o_tobs b) &&
  list_eqb (option_eqb slotview_eqb) (o_slots a) (o_slots b) &&
  cacheview_eqb (fst (o_caches a)) (fst (o_caches b)) && cacheview_eqb (snd (o_caches a)) (snd (o_caches b)).

Section Cfg.
Variable cfg : config.

Definition slot_view (s : st) (x : side * nat) : slotview :=
  let i := get_inst s (fst x) (snd x) in
  {| v_side := fst x; v_id := i_id i; v_vals := i_vals i; v_expired := i_expired i; v_obsolete := i_obsolete i;
     v_reg := match try_get cfg s (fst x) (i_id i) with Some o => Nat.eqb o (snd x) | None => false end;
     v_pending := i_pending i |}.

Definition cache_view (s : st) (sd : side) : cacheview :=
  let c := cch s sd in
  {| k_present := c_present c; k_strong := map fst (c_strong c);
     k_weak := map fst (filter (fun e => alive s sd [] (snd e)) (c_weak c));
     k_count := c_count c; k_offset := c_offset c |}.

Definition tab_view (t : table) : list (Z * row) * Z := (t_rows t, t_next t).

Definition observe (r : res outv) (s : st) : obs :=
  {| o_out := match r with Ret v => XRet v | Raise e => XExc e end;
     o_log := rev (log s);
     o_committed := tab_view (committed s);
     o_pending := option_map tab_view (pending s);
     o_deleted := deleted s;
     o_tobs := tobs s;
     o_slots := map (option_map (slot_view s)) (slots s);
     o_caches := (cache_view s Par, cache_view s Txn) |}.

(* index of the first step on which model and implementation differ *)
Fixpoint first_bad (s : st) (steps : list (op * obs)) (n : nat) : option nat :=
  match steps with
  | [] => None
  | (o, expected) :: rest =>
      let '(r, s') := step cfg s o in
      if obs_eqb (observe r s') expected then first_bad s' rest (S n) else Some n
  end.

(* for explanations: what the model shows after each step *)
Fixpoint model_trace (s : st) (ops : list op) : list obs :=
  match ops with
  | [] => []
  | o :: rest => let '(r, s') := step cfg s o in observe r s' :: model_trace s' rest
  end.
End Cfg.

Definition agree (c : case) : bool :=
  match first_bad (c_cfg c) init (c_steps c) 0 with None => true | Some _ => false end.
