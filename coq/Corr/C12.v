(* Correspondence for C12: what destroySelf / Class.delete(id) was observed to
   do to a generated reference graph and population on sqlite, against the
   model `destroy`; and the specification as computed independently by the
   plugin, against `destroy_spec`. *)
From Coq Require Import List ZArith NArith Bool.
From Lib Require Import CorrLib.
From Model Require Import Cascade.
Import ListNotations.
Open Scope Z_scope.

Inductive outcome := OOk | ORefused | ORecursion | ONotFound | OOther.

Record case := {
  c_graph : graph;
  c_state : state;                       (* population before; s_cache = the instances the harness holds *)
  c_cache : bool;                        (* connection's cache= parameter *)
  c_victim : node;
  c_out : outcome;                       (* ok / SQLObjectIntegrityError / RecursionError / SQLObjectNotFound *)
  c_tabs : list (N * list row);          (* dump of every class table afterwards *)
  c_links : list (N * list (Z * Z));     (* dump of every intermediate table afterwards *)
  c_gets : list (node * bool);           (* Class.get(id) afterwards, for every row that existed: found? *)
  c_spec_refused : bool;                 (* the plugin's specification: refusal ... *)
  c_spec_tabs : list (N * list row);     (* ... and the expected tables otherwise *)
  c_spec_links : list (N * list (Z * Z));
  c_opts : options;                      (* sqlmeta.lazyUpdate / cacheValues per class *)
  c_q0 : queue;                          (* assignments queued on held instances before the destroy *)
  c_txn : bool;                          (* victim fetched through a Transaction; commit / rollback afterwards *)
  c_qobs : bool;                         (* queues and the flush were observed *)
  c_queues : list (node * qentry);       (* _SO_createValues of the live instance of every surviving lazy row *)
  c_tabs2 : list (N * list row)          (* dump after syncUpdate() of every live instance *)
}.

Definition optz_eqb := option_eqb Z.eqb.
Definition row_eqb (a b : row) : bool := Z.eqb (r_id a) (r_id b) && list_eqb optz_eqb (r_vals a) (r_vals b).
Definition tabs_eqb (a b : list (N * list row)) : bool :=
  list_eqb (fun x y => N.eqb (fst x) (fst y) && list_eqb row_eqb (snd x) (snd y)) a b.
Definition pair_eqb (a b : Z * Z) : bool := Z.eqb (fst a) (fst b) && Z.eqb (snd a) (snd b).
Definition links_eqb (a b : list (N * list (Z * Z))) : bool :=
  list_eqb (fun x y => N.eqb (fst x) (fst y) && list_eqb pair_eqb (snd x) (snd y)) a b.

Definition fuel : nat := 40.

(* Class.delete(id) is get(id) followed by destroySelf() *)
Definition xlift (r : result) : xresult :=
  match r with Done st => XDone st [] | Raised st => XRaised st [] | OutOfFuel => XOutOfFuel end.

Definition model_out (c : case) : option xresult :=
  if row_exists (c_state c) (c_victim c)
  then Some (if c_txn c
             then xlift (destroy_txn (c_opts c) (c_cache c) fuel (c_graph c) (c_state c) (c_victim c))
             else destroyX (c_opts c) (c_cache c) fuel (c_graph c) (c_state c) (c_q0 c) (c_victim c))
  else None.

Definition ooz_eqb := option_eqb optz_eqb.
Definition is_none {A} (o : option A) : bool := match o with None => true | Some _ => false end.
(* queue entries compared up to missing (= nothing queued) positions *)
Fixpoint qeq (a b : qentry) {struct a} : bool :=
  match a with
  | [] => forallb is_none b
  | x :: s => match b with
              | [] => is_none x && forallb is_none s
              | y :: t => ooz_eqb x y && qeq s t
              end
  end.

Definition state_obs_ok (c : case) (st : state) (q : queue) : bool :=
  tabs_eqb (s_tabs st) (c_tabs c) && links_eqb (s_links st) (c_links c) &&
  forallb (fun g => Bool.eqb (get_found st (fst g)) (snd g)) (c_gets c) &&
  (if c_qobs c
   then forallb (fun e => qeq (match qfind q (fst e) with Some x => x | None => [] end) (snd e)) (c_queues c)
        && tabs_eqb (s_tabs (flush q st)) (c_tabs2 c)
   else true).

Definition agree_model (c : case) : bool :=
  match model_out c, c_out c with
  | Some (XDone st q), OOk => state_obs_ok c st q
  | Some (XRaised st q), ORefused => state_obs_ok c st q
  | Some XOutOfFuel, ORecursion => true     (* the interpreter's limit decides where it stops: no state compared *)
  | None, ONotFound => state_obs_ok c (c_state c) (c_q0 c)
  | _, _ => false
  end.

Definition agree_spec (c : case) : bool :=
  match destroy_spec (c_cache c) (c_graph c) (c_state c) (c_victim c) with
  | Raised st => c_spec_refused c && tabs_eqb (s_tabs st) (s_tabs (c_state c))
                 && links_eqb (s_links st) (s_links (c_state c))
  | Done st => negb (c_spec_refused c) && tabs_eqb (s_tabs st) (c_spec_tabs c)
               && links_eqb (s_links st) (c_spec_links c)
  | OutOfFuel => false
  end.

Definition agree (c : case) : bool :=
  wf_graph (c_graph c) && wf_state (c_state c) && agree_model c &&
  (if row_exists (c_state c) (c_victim c) then agree_spec c else true).
