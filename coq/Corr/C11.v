(* Correspondence for C11: a case is a history's sequence of snapshots; each
   snapshot holds the raw table dump AS SEEN THROUGH EACH CONNECTION (0: the
   class's own connection; 1: a plain connection to a second, file-backed
   database; 2: a Transaction on that database with uncommitted writes, given
   as the list of writes made inside it) and a batch of queries -- each with
   the way it was bound to a connection (connection= keyword, .connection()
   call inside the chain, or not at all) -- with what the implementation was
   observed to do (the ORDER BY terms / DISTINCT flag of the statement, the
   selectBy clause, the result).  `agree` evaluates the model on the same
   query over the rows the BOUND connection sees and compares; it also checks
   that the transaction's view is the committed table with its writes applied. *)
From Coq Require Import List ZArith NArith Bool.
From Lib Require Import PyLite QueryPy CorrLib.
From Gen Require Import Query.
From Model Require Import Query.
Import ListNotations.
Open Scope Z_scope.

Inductive fin :=
| FList
| FCount
| FAgg (m : aggmeth) (attr : ratom)
| FGetOne (nodefault : bool).

Inductive query :=
| QSel (dflt : oby) (s : src) (kwc : option conn) (calls : list bcall) (win : pv * pv) (f : fin)
| QAltId (v : kval) (kwc : option conn)
| QIndex (dflt : oby) (kws : list (kw * kval)) (kwc : option conn).

Inductive res := RIds (l : list Z) | ROut (o : out).

Record obs := mkobs {
  o_sql : option (bool * option (list rt));              (* DISTINCT flag, ORDER BY terms; None: no SelectResults was built *)
  o_clause : option (list (col * cword * option Z));     (* selectBy: the items of _SO_columnClause *)
  o_res : res
}.

(* sn_views: the table as seen through connection 0, 1, 2 (as far as the mode has them);
   sn_writes: the writes made inside the open transaction (connection 2), in order *)
Record snap := mksnap { sn_views : list (list row); sn_writes : list wr; sn_qs : list (query * obs) }.
Definition case := list snap.
Definition store_of (views : list (list row)) : store := fun c => nth (N.to_nat c) views [].
Definition cls_conn : conn := 0%N.

(* ---------------------------------------------------------------- equalities *)
Definition ratom_eqb (a b : ratom) : bool :=
  match a, b with
  | RField x, RField y | RRaw x, RRaw y | RLit x, RLit y => str_eqb x y
  | RId, RId | RNull, RNull => true
  | _, _ => false
  end.
(* terms are compared as text: raw text that ends in DESC words cannot be told from DESC wrappers *)
Definition rt_eqb (a0 b0 : rt) : bool :=
  let a := norm_rt a0 in let b := norm_rt b0 in ratom_eqb (fst a) (fst b) && Nat.eqb (snd a) (snd b).
Definition cword_eqb (a b : cword) : bool :=
  match a, b with WIS, WIS | WEQ, WEQ => true | _, _ => false end.
Definition item_eqb (a b : col * cword * option Z) : bool :=
  col_eqb (fst (fst a)) (fst (fst b)) && cword_eqb (snd (fst a)) (snd (fst b)) && oz_eqb (snd a) (snd b).

(* an observed AVG is the exact value num/den of the returned double; the model's
   rational must be within 2^-40 of it *)
Definition aggres_eqb (m o : aggres) : bool :=
  match m, o with
  | ANull, ANull => true
  | AInt x, AInt y => x =? y
  | ARat s n, ARat p q =>
      (0 <? n) && (0 <? q) && (Z.abs (p * n - s * q) * 1099511627776 <=? q * n)
  | _, _ => false
  end.
Definition out_eqb (m o : out) : bool :=
  match m, o with
  | OInt x, OInt y => x =? y
  | OAgg x, OAgg y => aggres_eqb x y
  | OFound x, OFound y => x =? y
  | ONotFound, ONotFound | ODefault, ODefault | OIntegrity, OIntegrity | OAssert, OAssert
  | OTypeError, OTypeError | ODbError, ODbError => true
  | _, _ => false
  end.

Fixpoint rows_of (rows : list row) (ids : list Z) : option (list row) :=
  match ids with
  | [] => Some []
  | i :: r => match find_row rows i, rows_of rows r with
              | Some x, Some l => Some (x :: l)
              | _, _ => None
              end
  end.

Definition trivial_win (w : pv * pv) : bool :=
  match w with (VNone, VNone) => true | _ => false end.

(* ---------------------------------------------------------------- agreement *)
Definition agree_sel (st : store) (dflt : oby) (s : src) (kwc : option conn) (calls : list bcall) (win : pv * pv)
           (f : fin) (o : obs) : bool :=
  match b_make s kwc with
  | None => match o_res o with ROut OTypeError => true | _ => false end
  | Some b0 =>
      let b1 := b_calls b0 calls in
      let s1 := b_sr b1 in
      let rows := b_rows st cls_conn b1 in
      let q := sr_sql dflt s1 in
      (* layer 1: the statement *)
      option_eqb (fun a b => Bool.eqb (fst a) (fst b) && option_eqb (list_eqb rt_eqb) (snd a) (snd b))
                 (Some (q_distinct q, q_order q)) (o_sql o)
      && match s with
         | SSelectBy kws => option_eqb (list_eqb item_eqb) (Some (clause_items kws)) (o_clause o)
         | _ => true
         end
      (* layer 2: the result (no claim when the ORDER BY holds raw text the model does not read) *)
      && (match resolve_order (q_order q), f with OUnknown, (FList | FGetOne _) => true | _, _ => false end
      || match f, o_res o with
         | FList, RIds ids =>
             trivial_win win &&
             match rows_of rows ids with Some l => select_check q rows l | None => false end
         | FList, ROut ODbError => trivial_win win && match resolve_order (q_order q) with OReject => true | _ => false end
         | FCount, ROut x => out_eqb (b_count st cls_conn b1 win) x
         | FAgg m a, ROut x => out_eqb (b_agg st cls_conn b1 win m a) x
         | FGetOne nd, ROut x => trivial_win win && out_eqb (b_getone st cls_conn dflt b1 nd) x
         | _, _ => false
         end)
  end.

Definition agree_q (st : store) (qo : query * obs) : bool :=
  let (q, o) := qo in
  match q with
  | QSel dflt s kwc calls win f => agree_sel st dflt s kwc calls win f o
  | QAltId v kwc => match o_res o with ROut x => altid_check v (st (conn_or cls_conn kwc)) x | _ => false end
  | QIndex dflt kws kwc => match o_res o with ROut x => out_eqb (b_index st cls_conn kwc dflt kws) x | _ => false end
  end.

(* the transaction (connection 2) sees the committed table (connection 1) with its own writes applied *)
Definition txn_ok (s : snap) : bool :=
  match sn_views s with
  | [_; committed; view] => same_table (txn_view committed (sn_writes s)) view
  | _ => match sn_writes s with [] => true | _ => false end
  end.
Definition agree_snap (s : snap) : bool := txn_ok s && forallb (agree_q (store_of (sn_views s))) (sn_qs s).
Definition agree (c : case) : bool := forallb agree_snap c.
