"""Rewrites the generated tables of DESIGN.md (between <!-- BEGIN x --> / <!-- END x --> markers) from
KNOWN_FINDINGS.json, seeded/*/*/meta.json and MANIFEST.json."""
import glob, json, os, re
ROOT = os.path.dirname(os.path.dirname(os.path.abspath(__file__)))

def findings_table():
    d = json.load(open(os.path.join(ROOT, 'KNOWN_FINDINGS.json')))
    rows = ['| property | id | status | what |', '|---|---|---|---|']
    for f in sorted(d['findings'], key=lambda f: (f['property'], not f['status'].startswith('fixed'), f['id'])):
        what = f['what'].replace('|', '\\|').replace('\n', ' ')
        what = re.sub(r'^fixed: property=C\d+ [0-9a-f]+ ', '', what)
        rows.append('| %s | `%s` | %s | %s |' % (f['property'], f['id'], f['status'], what[:330]))
    n_open = sum(1 for f in d['findings'] if f['status'] == 'open')
    return '\n'.join(rows) + '\n\n%d entries, %d open, %d fixed by `fix:` commits in /repo.\n' % (
        len(d['findings']), n_open, len(d['findings']) - n_open)

def seeded_table():
    rows = ['| seeded change | property | needs | caught by `./check` | how |', '|---|---|---|---|---|']
    for m in sorted(glob.glob(os.path.join(ROOT, 'seeded', '*', '*', 'meta.json'))):
        d = json.load(open(m))
        name = os.path.basename(os.path.dirname(m))
        notes = os.path.join(os.path.dirname(m), 'notes.md')
        needs = d.get('needs', '')
        if not needs and os.path.exists(notes):
            txt = open(notes).read()
            mm = re.search(r'(?is)(?:needs?|what it needs|trigger)[^\n]*\n+(.{20,300}?)(?:\n\n|\n#)', txt)
            needs = ' '.join(mm.group(1).split())[:200] if mm else ''
        how = d.get('replay_failure') or (d.get('violation_line') or '')
        if d.get('replay_kind') == 'unchecked-obligation':
            how = 'proof/tie broken, no failing input found'
        rows.append('| `%s` | %s | %s | %s | %s |' % (name, d['property'], needs.replace('|', '\\|'),
                    ('yes' + (' (missed at first; check strengthened)' if d.get('history') else '')) if d.get('detected_by_check')
                    else '**no**' + (' (%s)' % d['note'] if d.get('note') else ''),
                    str(how).replace('|', '\\|')[:160]))
    return '\n'.join(rows) + '\n'

def claimed_table():
    m = json.load(open(os.path.join(ROOT, 'MANIFEST.json')))
    rows = ['| property | technique | notes file |', '|---|---|---|']
    for c in m['checks']:
        p = c['property_id']
        rows.append('| %s | %s | %s |' % (p, c.get('technique', ''), 'docs/notes/%s.md' % p if os.path.exists(os.path.join(ROOT, 'docs/notes/%s.md' % p)) else 'DESIGN.md 9.2'))
    for c in m.get('not_applicable', []):
        rows.append('| %s | (not claimed) | %s |' % (c['property_id'], c['reason']))
    return '\n'.join(rows) + '\n'

def asbuilt():
    m = json.load(open(os.path.join(ROOT, 'MANIFEST.json')))
    out = []
    for c in m['checks']:
        p = c['property_id']
        out.append('**%s** — %s\n\n*Trusted / partial:* %s\n' % (p, c['level_claimed']['text'], c['level_note']))
    return '\n'.join(out)


def main():
    p = os.path.join(ROOT, 'DESIGN.md')
    s = open(p).read()
    for key, fn in (('FINDINGS', findings_table), ('SEEDED', seeded_table), ('CLAIMED', claimed_table), ('ASBUILT', asbuilt)):
        b, e = '<!-- BEGIN %s -->' % key, '<!-- END %s -->' % key
        if b in s:
            s = s[:s.index(b) + len(b)] + '\n' + fn() + s[s.index(e):]
    open(p, 'w').write(s)

if __name__ == '__main__':
    main()
