"""Tie A for C14: re-extract the DDL templates and constant tables from the
SQLObject source on every run and write them to coq/Gen/Ddl.v.

A small fail-closed *partial evaluator* walks the ast of the named functions
under every setting of their enumerable options (cascade in {None, True,
False, 'null'}, notNone/unique/alternateID booleans, idType/idSize, ...) while
everything that is data (table names, column names, type strings of other
methods) stays a named hole.  The result of one run is a piece of SQL text
with holes; it is lexed here (words, parentheses, commas; a hole glued to word
characters becomes part of that word) and emitted as a `list ttok`
(coq/Lib/DdlTpl.v).  Proofs/DdlChar.v fills the holes and compares with the
hand-written model, so a change of the source breaks exactly that lemma.

Only a narrow Python subset is understood; anything else raises Unsupported.
The source is never imported or executed."""
import ast
import os

from tools.py2coq.core import Unsupported


# ---------------------------------------------------------------- symbolic values
class Sym:
    """a string with holes: parts are ('c', text) or ('h', name)"""

    def __init__(self, parts):
        out = []
        for p in parts:
            if p[0] == 'c':
                if not p[1]:
                    continue
                if out and out[-1][0] == 'c':
                    out[-1] = ('c', out[-1][1] + p[1])
                    continue
            out.append(p)
        self.parts = out

    @staticmethod
    def of(v):
        if isinstance(v, Sym):
            return v
        if isinstance(v, str):
            return Sym([('c', v)])
        raise Unsupported('not a string: %r' % (v,))


def hole(name):
    return Sym([('h', name)])


class Obj:
    def __init__(self, name, attrs=None, methods=None):
        self.name = name
        self.attrs = dict(attrs or {})
        self.methods = dict(methods or {})


class Raised(Exception):
    def __init__(self, name):
        self.name = name


class _Return(Exception):
    def __init__(self, value):
        self.value = value


class _Continue(Exception):
    pass


def concrete(v):
    return isinstance(v, (str, int, bool, type(None), type)) or v in (int, str)


def truthy(v):
    if isinstance(v, Sym):
        if any(p[0] == 'c' for p in v.parts):
            return True
        raise Unsupported('truth value of a hole')
    if isinstance(v, Obj):
        return True
    if isinstance(v, (list, tuple, dict)) or concrete(v):
        return bool(v)
    raise Unsupported('truth value of %r' % (v,))


def fmt(template, args):
    """'%s ...' % args with %s %i %d %(name)s %%"""
    if not isinstance(template, str):
        raise Unsupported('format template is not a constant')
    parts = []
    i, n, k = 0, len(template), 0
    while i < n:
        c = template[i]
        if c != '%':
            parts.append(('c', c))
            i += 1
            continue
        if i + 1 >= n:
            raise Unsupported('dangling %')
        d = template[i + 1]
        if d == '%':
            parts.append(('c', '%'))
            i += 2
            continue
        if d == '(':
            j = template.index(')', i)
            name = template[i + 2:j]
            conv = template[j + 1]
            if conv not in 'sid' or not isinstance(args, dict) or name not in args:
                raise Unsupported('format key %s' % name)
            v = args[name]
            i = j + 2
        elif d in 'sid':
            if isinstance(args, dict):
                raise Unsupported('positional format with a dict')
            seq = args if isinstance(args, tuple) else (args,)
            if k >= len(seq):
                raise Unsupported('not enough format arguments')
            v = seq[k]
            k += 1
            i += 2
        else:
            raise Unsupported('format conversion %' + d)
        if isinstance(v, Sym):
            parts.extend(v.parts)
        elif isinstance(v, bool) or v is None:
            raise Unsupported('formatting %r' % (v,))
        elif isinstance(v, (str, int)):
            parts.append(('c', str(v)))
        else:
            raise Unsupported('formatting %r' % (v,))
    if not isinstance(args, dict):
        seq = args if isinstance(args, tuple) else (args,)
        if k != len(seq):
            raise Unsupported('too many format arguments')
    return Sym(parts)


class PE:
    """evaluate one function body.  env: local/global names; calls: source text of a
    call's function expression -> python callable(list of evaluated args, kwargs)"""

    def __init__(self, env, calls, exprs=None):
        self.env = dict(env)
        self.calls = calls
        self.exprs = exprs or {}      # source text of an expression -> value (parameters)

    # ---- expressions
    def ev(self, e):
        src = ast.unparse(e)
        if src in self.exprs:
            return self.exprs[src]
        if isinstance(e, ast.Constant):
            if isinstance(e.value, (str, int, bool, type(None))):
                return e.value
            raise Unsupported('constant ' + src)
        if isinstance(e, ast.Name):
            if e.id in self.env:
                return self.env[e.id]
            raise Unsupported('name ' + e.id)
        if isinstance(e, ast.Attribute):
            v = self.ev(e.value)
            if isinstance(v, Obj) and e.attr in v.attrs:
                return v.attrs[e.attr]
            raise Unsupported('attribute ' + src)
        if isinstance(e, ast.Tuple):
            return tuple(self.ev(x) for x in e.elts)
        if isinstance(e, ast.List):
            return [self.ev(x) for x in e.elts]
        if isinstance(e, ast.Dict):
            return {self.key(k): self.ev(v) for k, v in zip(e.keys, e.values)}
        if isinstance(e, ast.Subscript):
            v = self.ev(e.value)
            k = self.ev(e.slice)
            if isinstance(v, dict):
                kk = self.key_value(k)
                if kk not in v:
                    raise Raised('KeyError')
                return v[kk]
            if isinstance(v, (list, tuple)) and isinstance(k, int) and not isinstance(k, bool):
                return v[k]
            raise Unsupported('subscript ' + src)
        if isinstance(e, ast.BinOp):
            a, b = self.ev(e.left), self.ev(e.right)
            if isinstance(e.op, ast.Mod):
                return fmt(a, b)
            if isinstance(e.op, ast.Add):
                if isinstance(a, list) and isinstance(b, list):
                    return a + b
                if isinstance(a, (str, Sym)) and isinstance(b, (str, Sym)):
                    return Sym(Sym.of(a).parts + Sym.of(b).parts)
            raise Unsupported('operator in ' + src)
        if isinstance(e, ast.BoolOp):
            v = None
            for i, x in enumerate(e.values):
                v = self.ev(x)
                if i == len(e.values) - 1:
                    return v
                t = truthy(v)
                if isinstance(e.op, ast.Or) and t:
                    return v
                if isinstance(e.op, ast.And) and not t:
                    return v
            return v
        if isinstance(e, ast.UnaryOp) and isinstance(e.op, ast.Not):
            return not truthy(self.ev(e.operand))
        if isinstance(e, ast.Compare):
            left = self.ev(e.left)
            res = True
            for op, r in zip(e.ops, e.comparators):
                right = self.ev(r)
                res = res and self.compare(op, left, right, src)
                left = right
            return res
        if isinstance(e, ast.IfExp):
            return self.ev(e.body) if truthy(self.ev(e.test)) else self.ev(e.orelse)
        if isinstance(e, ast.ListComp):
            if len(e.generators) != 1 or e.generators[0].is_async:
                raise Unsupported('comprehension ' + src)
            g = e.generators[0]
            it = self.ev(g.iter)
            if not isinstance(it, (list, tuple)) or not isinstance(g.target, ast.Name):
                raise Unsupported('comprehension over ' + ast.unparse(g.iter))
            out = []
            saved = self.env.get(g.target.id, _MISSING)
            for x in it:
                self.env[g.target.id] = x
                if all(truthy(self.ev(c)) for c in g.ifs):
                    out.append(self.ev(e.elt))
            if saved is _MISSING:
                self.env.pop(g.target.id, None)
            else:
                self.env[g.target.id] = saved
            return out
        if isinstance(e, ast.Call):
            return self.call(e, src)
        raise Unsupported('expression ' + src)

    def key(self, k):
        return self.key_value(self.ev(k))

    @staticmethod
    def key_value(v):
        if v is int or v is str or isinstance(v, (str, int)) or v is None:
            return v
        raise Unsupported('dict key %r' % (v,))

    @staticmethod
    def compare(op, a, b, src):
        symbolic = isinstance(a, (Sym, Obj)) or isinstance(b, (Sym, Obj))
        if isinstance(op, (ast.Is, ast.IsNot)):
            if symbolic:
                if a is None or b is None:
                    r = False           # a hole / object is not None
                else:
                    raise Unsupported('identity of symbolic values in ' + src)
            else:
                r = a is b if not (isinstance(a, str) and isinstance(b, str)) else a == b
            return r if isinstance(op, ast.Is) else not r
        if symbolic:
            raise Unsupported('comparison of symbolic values in ' + src)
        if isinstance(op, ast.Eq):
            return a == b
        if isinstance(op, ast.NotEq):
            return a != b
        if isinstance(op, ast.In):
            return a in b
        if isinstance(op, ast.NotIn):
            return a not in b
        if isinstance(op, ast.Gt) and isinstance(a, str) and isinstance(b, str):
            return a > b
        if isinstance(op, ast.GtE) and isinstance(a, int) and isinstance(b, int):
            return a >= b
        raise Unsupported('comparison in ' + src)

    def call(self, e, src):
        fsrc = ast.unparse(e.func)
        args = [self.ev(a) for a in e.args]
        kwargs = {k.arg: self.ev(k.value) for k in e.keywords}
        if fsrc in self.calls:
            return self.calls[fsrc](args, kwargs)
        if isinstance(e.func, ast.Attribute):
            if e.func.attr == 'join' and len(args) == 1 and not kwargs:
                sep = self.ev(e.func.value)
                if isinstance(sep, str) and isinstance(args[0], (list, tuple)):
                    parts = []
                    for i, x in enumerate(args[0]):
                        if i:
                            parts.append(('c', sep))
                        parts.extend(Sym.of(x).parts)
                    return Sym(parts)
            if e.func.attr == 'append' and isinstance(e.func.value, ast.Name) and len(args) == 1:
                lst = self.ev(e.func.value)
                if isinstance(lst, list):
                    lst.append(args[0])
                    return None
            v = None
            try:
                v = self.ev(e.func.value)
            except Unsupported:
                pass
            if isinstance(v, Obj) and e.func.attr in v.methods:
                return v.methods[e.func.attr](args, kwargs)
        raise Unsupported('call ' + src)

    # ---- statements
    def run(self, body):
        try:
            self.block(body)
        except _Return as r:
            return r.value
        return None

    def block(self, body):
        for s in body:
            self.stmt(s)

    def stmt(self, s):
        if isinstance(s, ast.Return):
            raise _Return(self.ev(s.value) if s.value is not None else None)
        if isinstance(s, ast.Expr):
            if isinstance(s.value, ast.Constant):
                return          # docstring
            self.ev(s.value)
            return
        if isinstance(s, ast.Assign):
            if len(s.targets) != 1:
                raise Unsupported('multiple assignment')
            v = self.ev(s.value)
            t = s.targets[0]
            if isinstance(t, ast.Name):
                self.env[t.id] = v
                return
            if isinstance(t, ast.Attribute):
                o = self.ev(t.value)
                if isinstance(o, Obj):
                    o.attrs[t.attr] = v
                    return
            raise Unsupported('assignment target ' + ast.unparse(t))
        if isinstance(s, ast.AugAssign) and isinstance(s.op, ast.Add) and isinstance(s.target, ast.Name):
            a, b = self.env[s.target.id], self.ev(s.value)
            if isinstance(a, list) and isinstance(b, list):
                self.env[s.target.id] = a + b
            else:
                self.env[s.target.id] = Sym(Sym.of(a).parts + Sym.of(b).parts)
            return
        if isinstance(s, ast.If):
            if truthy(self.ev(s.test)):
                self.block(s.body)
            else:
                self.block(s.orelse)
            return
        if isinstance(s, ast.For):
            it = self.ev(s.iter)
            if not isinstance(it, (list, tuple)) or not isinstance(s.target, ast.Name) or s.orelse:
                raise Unsupported('for loop')
            for x in it:
                self.env[s.target.id] = x
                try:
                    self.block(s.body)
                except _Continue:
                    pass
            return
        if isinstance(s, ast.Continue):
            raise _Continue()
        if isinstance(s, ast.Pass):
            return
        if isinstance(s, ast.Raise):
            exc = s.exc
            if isinstance(exc, ast.Call):
                exc = exc.func
            if isinstance(exc, ast.Name):
                raise Raised(exc.id)
            raise Unsupported('raise')
        if isinstance(s, ast.Assert):
            if not truthy(self.ev(s.test)):
                raise Raised('AssertionError')
            return
        raise Unsupported('statement ' + type(s).__name__)


_MISSING = object()


# ---------------------------------------------------------------- template lexer
def is_word_char(c):
    return c.isalnum() or c in '_.$' or ord(c) >= 128


def lex_template(v):
    """Sym/str -> list of template tokens"""
    sym = Sym.of(v)
    toks, word = [], []

    def flush():
        if word:
            if len(word) == 1 and word[0][0] == 'h':
                toks.append(('TH', word[0][1]))
            else:
                toks.append(('TW', list(word)))
            del word[:]
    for kind, text in sym.parts:
        if kind == 'h':
            word.append(('h', text))
            continue
        for c in text:
            if is_word_char(c):
                if word and word[-1][0] == 'c':
                    word[-1] = ('c', word[-1][1] + c)
                else:
                    word.append(('c', c))
            elif c in ' \t\r\n':
                flush()
            elif c == "'" or c == '"':
                raise Unsupported('quote in a template')
            else:
                flush()
                toks.append({'(': ('TLP',), ')': ('TRP',), ',': ('TComma',), ';': ('TSemi',)}.get(c, ('TSym', c)))
    flush()
    return toks


# ---------------------------------------------------------------- Coq emission
def cstr(s):
    return '[%s]' % ';'.join(str(ord(c)) for c in s)


def cttok(t):
    if t[0] == 'TW':
        return 'TW [%s]' % '; '.join(('PC %s' if k == 'c' else 'PH %s') % cstr(x) for k, x in t[1])
    if t[0] == 'TH':
        return 'TH %s' % cstr(t[1])
    if t[0] == 'TSym':
        return 'TSym %d' % ord(t[1])
    return t[0]


def cttoks(ts):
    return '[%s]' % '; '.join(cttok(t) for t in ts)


def cres(r):
    if r[0] == 'ok':
        return '(TOk %s)' % cttoks(r[1])
    return '(TRaise %s)' % cstr(r[1])


def cbool(b):
    return 'true' if b else 'false'


# ---------------------------------------------------------------- source access
class Source:
    def __init__(self, repo):
        self.repo = repo
        self.trees = {}

    def tree(self, rel):
        if rel not in self.trees:
            self.trees[rel] = ast.parse(open(os.path.join(self.repo, rel)).read())
        return self.trees[rel]

    def cls(self, rel, name):
        for n in self.tree(rel).body:
            if isinstance(n, ast.ClassDef) and n.name == name:
                return n
        raise Unsupported('class %s not found in %s' % (name, rel))

    def method(self, rel, cname, mname):
        c = self.cls(rel, cname)
        found = [n for n in c.body if isinstance(n, ast.FunctionDef) and n.name == mname]
        if len(found) != 1:
            raise Unsupported('%s.%s: %d definitions in %s' % (cname, mname, len(found), rel))
        return found[0]

    def class_assigns(self, rel, cname):
        """class-level  a = b = c  aliases: {target: source name}"""
        out = {}
        for n in self.cls(rel, cname).body:
            if isinstance(n, ast.Assign) and isinstance(n.value, ast.Name):
                for t in n.targets:
                    if isinstance(t, ast.Name):
                        out[t.id] = n.value.id
        return out


def run_fn(fn, env, calls, exprs=None):
    """-> ('ok', template tokens) | ('raise', name).  The function's value must be a string."""
    pe = PE(env, calls, exprs)
    try:
        v = pe.run(fn.body)
    except Raised as r:
        return ('raise', r.name)
    if isinstance(v, tuple):
        v = v[0]
    if v is None:
        raise Unsupported('%s returns None' % fn.name)
    return ('ok', lex_template(v))


def run_list_fn(fn, env, calls, exprs=None):
    """for functions returning a list of strings (joined with ' ' by the caller)"""
    pe = PE(env, calls, exprs)
    try:
        v = pe.run(fn.body)
    except Raised as r:
        return ('raise', r.name)
    if not isinstance(v, list):
        raise Unsupported('%s does not return a list' % fn.name)
    parts = []
    for i, x in enumerate(v):
        if i:
            parts.append(('c', ' '))
        parts.extend(Sym.of(x).parts)
    return ('ok', lex_template(Sym(parts)))


# ---------------------------------------------------------------- what is extracted
COL = 'sqlobject/col.py'
DBC = 'sqlobject/dbconnection.py'
IDX = 'sqlobject/index.py'
MAIN = 'sqlobject/main.py'
CONN = {
    'Sqlite': ('sqlobject/sqlite/sqliteconnection.py', 'SQLiteConnection'),
    'Mysql': ('sqlobject/mysql/mysqlconnection.py', 'MySQLConnection'),
    'Postgres': ('sqlobject/postgres/pgconnection.py', 'PostgresConnection'),
    'Firebird': ('sqlobject/firebird/firebirdconnection.py', 'FirebirdConnection'),
    'Mssql': ('sqlobject/mssql/mssqlconnection.py', 'MSSQLConnection'),
    'Sybase': ('sqlobject/sybase/sybaseconnection.py', 'SybaseConnection'),
    'Maxdb': ('sqlobject/maxdb/maxdbconnection.py', 'MaxdbConnection'),
}
DIALECTS = ['Sqlite', 'Mysql', 'Postgres', 'Firebird', 'Mssql', 'Sybase', 'Maxdb']
CASCADES = [('CNone', None), ('CTrue', True), ('CFalse', False), ('CNull', 'null')]
IDTYPES = [('IdInt', int), ('IdStr', str)]
IDSIZES = [('SzNone', None), ('SzTiny', 'TINY'), ('SzSmall', 'SMALL'), ('SzMedium', 'MEDIUM'), ('SzBig', 'BIG')]
TYPE_CLASSES = ['SOCol', 'SOStringLikeCol', 'SOUnicodeCol', 'SOIntCol', 'SOTinyIntCol', 'SOSmallIntCol',
                'SOMediumIntCol', 'SOBigIntCol', 'SOBoolCol', 'SOFloatCol', 'SOKeyCol', 'SODateTimeCol', 'SODateCol',
                'SOTimeCol', 'SOTimestampCol', 'SODecimalCol', 'SOBLOBCol', 'SOPickleCol', 'SOUuidCol', 'SOEnumCol']


def gen_extra(src):
    fn = src.method(COL, 'SOCol', '_extraSQL')
    rows = []
    for nn in (False, True):
        for un in (False, True):
            for alt in (False, True):
                for hasdef in (False, True):
                    me = Obj('self', {'notNone': nn, 'unique': un, 'alternateID': alt,
                                      'defaultSQL': hole('defaultSQL') if hasdef else None})
                    r = run_list_fn(fn, {'self': me}, {})
                    rows.append('((%s, %s, %s, %s), %s)' % (cbool(nn), cbool(un), cbool(alt), cbool(hasdef), cres(r)))
    return 'Definition extra_sql_table : list ((bool * bool * bool * bool) * tres) :=\n  [%s].' % ';\n   '.join(rows)


def fk_self(cascade):
    other = Obj('other', {'sqlmeta': Obj('other.sqlmeta', {'table': hole('tName'), 'idName': hole('idName')})})
    me = Obj('self', {'cascade': cascade, 'dbName': hole('dbName'), 'refColumn': None, 'foreignKey': hole('fk'),
                      'soClass': Obj('soClass', {'sqlmeta': Obj('sqlmeta', {'table': hole('sTName'),
                                                                              'registry': hole('registry')})})},
             {'_maxdbType': lambda a, k: hole('type')})
    return me, other


def gen_fk(src):
    out = []
    specs = [('fk_sqlite', 'sqliteCreateSQL', ['SOKeyCol.sqliteCreateSQL']),
             ('fk_postgres', 'postgresCreateReferenceConstraint', []),
             ('fk_mysql', 'mysqlCreateReferenceConstraint', []),
             ('fk_sybase', 'sybaseCreateSQL', ['SOKeyCol.sybaseCreateSQL']),
             ('fk_mssql', 'mssqlCreateSQL', ['SOKeyCol.mssqlCreateSQL']),
             ('fk_maxdb', 'maxdbCreateSQL', [])]
    for name, meth, bases in specs:
        fn = src.method(COL, 'SOForeignKey', meth)
        rows = []
        for cname, cv in CASCADES:
            me, other = fk_self(cv)
            calls = {'findClass': lambda a, k, other=other: other}
            for b in bases:
                calls[b] = lambda a, k: hole('base')
            exprs = {"sTName.split('.')[-1]": hole('sTLocalName')}
            env = {'self': me, 'connection': Obj('connection')}
            r = run_fn(fn, env, calls, exprs)
            rows.append('(%s, %s)' % (cname, cres(r)))
        out.append('Definition %s : list (cascade_code * tres) :=\n  [%s].' % (name, ';\n   '.join(rows)))
    return '\n'.join(out)


def gen_idcols(src):
    rows = []
    for d in DIALECTS:
        rel, cname = CONN[d]
        fname = '_createIDColumn' if d == 'Sqlite' else 'createIDColumn'
        fn = src.method(rel, cname, fname)
        for tn, tv in IDTYPES:
            for sn, sv in IDSIZES:
                meta = Obj('sqlmeta', {'idType': tv, 'idSize': sv, 'idName': hole('idName')})
                env = {'self': Obj('self'), 'soClass': Obj('soClass', {'sqlmeta': meta}), 'sqlmeta': meta,
                       'int': int, 'str': str}
                r = run_fn(fn, env, {})
                rows.append('((D%s, %s, %s), %s)' % (d, tn, sn, cres(r)))
    out = ['Definition id_col_table : list ((dialect_code * idtype_code * idsize_code) * tres) :=\n  [%s].'
           % ';\n   '.join(rows)]
    # sqlite's createIDColumn must delegate to _createIDColumn
    fn = src.method(CONN['Sqlite'][0], CONN['Sqlite'][1], 'createIDColumn')
    if len(fn.body) != 1 or ast.unparse(fn.body[0]) != 'return self._createIDColumn(soClass.sqlmeta)':
        raise Unsupported('sqlite createIDColumn no longer delegates to _createIDColumn')
    return '\n'.join(out)


def gen_dispatch(src):
    """every dialect's createColumn / createReferenceConstraint / createIndexSQL / joinSQLType: which method of
    the column / index it calls"""
    rows = []
    for d in DIALECTS:
        rel, cname = CONN[d]
        cells = []
        for fname in ('createColumn', 'createReferenceConstraint', 'createIndexSQL'):
            fn = src.method(rel, cname, fname)
            if len(fn.body) != 1 or not isinstance(fn.body[0], ast.Return):
                raise Unsupported('%s.%s is not a single return' % (cname, fname))
            v = fn.body[0].value
            if isinstance(v, ast.Constant) and v.value is None:
                cells.append('')
            elif isinstance(v, ast.Call) and isinstance(v.func, ast.Attribute) and isinstance(v.func.value, ast.Name) \
                    and v.func.value.id in ('col', 'index'):
                cells.append(v.func.attr)
            else:
                raise Unsupported('%s.%s: %s' % (cname, fname, ast.unparse(v)))
        fn = src.method(rel, cname, 'joinSQLType')
        r = run_fn(fn, {'self': Obj('self'), 'join': Obj('join')}, {})
        rows.append('(D%s, (%s, %s, %s), %s)' % (d, cstr(cells[0]), cstr(cells[1]), cstr(cells[2]), cres(r)))
    return ('Definition dispatch_table : list (dialect_code * (list N * list N * list N) * tres) :=\n  [%s].'
            % ';\n   '.join(rows))


def gen_assembly(src):
    out = []
    # createColumns with two columns
    fn = src.method(DBC, 'DBAPI', 'createColumns')
    c0, c1 = Obj('c0'), Obj('c1')
    soClass = Obj('soClass', {'sqlmeta': Obj('sqlmeta', {'columnList': [c0, c1], 'table': hole('table')})})
    me = Obj('self', {}, {'createIDColumn': lambda a, k: hole('id'),
                          'createColumn': lambda a, k: hole(a[1].name)})
    r = run_fn(fn, {'self': me, 'soClass': soClass}, {})
    out.append('Definition create_columns_2 : tres := %s.' % cres(r))
    # createTableSQL
    fn = src.method(DBC, 'DBAPI', 'createTableSQL')
    me = Obj('self', {}, {'createReferenceConstraints': lambda a, k: [], 'createSQL': lambda a, k: [],
                          'createColumns': lambda a, k: hole('columns')})
    r = run_fn(fn, {'self': me, 'soClass': soClass}, {})
    out.append('Definition create_table_tpl : tres := %s.' % cres(r))
    # createReferenceConstraints keeps the column order and drops the empty ones
    fn = src.method(DBC, 'DBAPI', 'createReferenceConstraints')
    fk0, fk1, plain = Obj('fk0'), Obj('fk1'), Obj('plain')
    soClass2 = Obj('soClass', {'sqlmeta': Obj('sqlmeta', {'columnList': [fk0, plain, fk1]})})
    me = Obj('self', {}, {'createReferenceConstraint': lambda a, k: {'fk0': 'FK0', 'fk1': None}[a[1].name]})
    pe = PE({'self': me, 'soClass': soClass2, 'col': Obj('col', {'SOForeignKey': 'FK'})},
            {'isinstance': lambda a, k: a[0].name.startswith('fk')})
    v = pe.run(fn.body)
    if v != ['FK0']:
        raise Unsupported('createReferenceConstraints no longer keeps exactly the non-empty constraints of the foreign keys')
    # join table
    fn = src.method(DBC, 'DBAPI', '_SO_createJoinTableSQL')
    join = Obj('join', {'intermediateTable': hole('inter'), 'joinColumn': hole('joinColumn'),
                        'otherColumn': hole('otherColumn')})
    me = Obj('self', {}, {'joinSQLType': lambda a, k: hole('type')})
    r = run_fn(fn, {'self': me, 'join': join}, {})
    out.append('Definition join_table_tpl : tres := %s.' % cres(r))
    # the generic column renderers
    rows = []
    for d, meth, ty in [('Mysql', 'mysqlCreateSQL', '_mysqlType'), ('Postgres', 'postgresCreateSQL', '_postgresType'),
                        ('Sqlite', 'sqliteCreateSQL', '_sqliteType'), ('Sybase', 'sybaseCreateSQL', '_sybaseType'),
                        ('Mssql', 'mssqlCreateSQL', '_mssqlType'), ('Maxdb', 'maxdbCreateSQL', '_maxdbType')]:
        fn = src.method(COL, 'SOCol', meth)
        me = Obj('self', {'dbName': hole('dbName')}, {ty: lambda a, k: hole('type'),
                                                      '_extraSQL': lambda a, k: [hole('extra')]})
        r = run_fn(fn, {'self': me, 'connection': Obj('connection')}, {})
        rows.append('((D%s, false), %s)' % (d, cres(r)))
    fn = src.method(COL, 'SOCol', 'firebirdCreateSQL')
    for is_enum in (False, True):
        me = Obj('self', {'dbName': hole('dbName')},
                 {'_firebirdType': (lambda a, k: (hole('type0'), hole('type1'))) if is_enum else (lambda a, k: hole('type')),
                  '_extraSQL': lambda a, k: [hole('extra')]})
        r = run_fn(fn, {'self': me, 'SOEnumCol': 'SOEnumCol'}, {'isinstance': lambda a, k, e=is_enum: e})
        rows.append('((DFirebird, %s), %s)' % (cbool(is_enum), cres(r)))
    out.append('Definition col_sql_table : list ((dialect_code * bool) * tres) :=\n  [%s].' % ';\n   '.join(rows))
    return '\n'.join(out)


def gen_index(src):
    out = []
    rows = []
    c0 = Obj('c0', {'dbName': hole('c0')})
    c1 = Obj('c1', {'dbName': hole('c1')})
    meta = Obj('sqlmeta', {'table': hole('table')})
    for meth, descs in [('sqliteCreateIndexSQL', [{'column': c0}, {'column': c1, 'length': 10}]),
                        ('mysqlCreateIndexSQL', [{'column': c0}, {'column': c1, 'length': 10}])]:
        fn = src.method(IDX, 'SODatabaseIndex', meth)
        for uq in (False, True):
            soClass = Obj('soClass', {'sqlmeta': meta})
            me = Obj('self', {'unique': uq, 'descriptions': descs, 'name': hole('name'), 'soClass': soClass})
            r = run_fn(fn, {'self': me, 'soClass': soClass}, {})
            rows.append('((%s, %s), %s)' % (cstr(meth), cbool(uq), cres(r)))
    out.append('Definition index_table : list ((list N * bool) * tres) :=\n  [%s].' % ';\n   '.join(rows))
    al = src.class_assigns(IDX, 'SODatabaseIndex')
    names = ['postgresCreateIndexSQL', 'maxdbCreateIndexSQL', 'mssqlCreateIndexSQL', 'sybaseCreateIndexSQL',
             'firebirdCreateIndexSQL']
    out.append('Definition index_aliases : list (list N * list N) :=\n  [%s].' % '; '.join(
        '(%s, %s)' % (cstr(n), cstr(al.get(n, '?'))) for n in names))
    return '\n'.join(out)


def _generic_getattr(a, k):
    if isinstance(a[0], Obj) and isinstance(a[1], str) and len(a) == 3:
        return a[0].attrs.get(a[1], a[2])
    raise Unsupported('getattr')


def gen_joins_rule(src):
    fn = src.method(MAIN, 'SQLObject', '_getJoinsToCreate')
    rows = []
    for inter in (False, True):
        for create in (False, True):
            for rel, (a, b) in [('Lt', ('A', 'B')), ('Eq', ('A', 'A')), ('Gt', ('B', 'A'))]:
                for osc in (False, True):
                    attrs = {'soClass': Obj('sc', {'__name__': a}), 'otherClass': Obj('oc', {'__name__': b})}
                    if not create:
                        attrs['createRelatedTable'] = False
                    j = Obj('join', attrs, {'hasIntermediateTable': lambda x, k, v=inter: v})
                    cls = Obj('cls', {'sqlmeta': Obj('sqlmeta', {'joins': [None, j]})},
                              {'_otherSideCreates': lambda x, k, v=osc: v})
                    pe = PE({'cls': cls}, {'getattr': _generic_getattr})
                    v = pe.run(fn.body)
                    if not isinstance(v, list):
                        raise Unsupported('_getJoinsToCreate does not return a list')
                    rows.append('((%s, %s, %s, %s), %s)' % (cbool(inter), cbool(create), rel, cbool(osc),
                                                            cbool(len(v) == 1 and v[0] is j)))
    out = ['Definition joins_rule_table : list ((bool * bool * comparison * bool) * bool) :=\n  [%s].' % ';\n   '.join(rows)]
    # _otherSideCreates: does the other class hold a creating RelatedJoin with the same intermediate table?
    fn = src.method(MAIN, 'SQLObject', '_otherSideCreates')
    rows = []
    for inter in (False, True):
        for create in (False, True):
            for same in (False, True):
                attrs = {'intermediateTable': 'T1' if same else 'T2'}
                if not create:
                    attrs['createRelatedTable'] = False
                o = Obj('other', attrs, {'hasIntermediateTable': lambda x, k, v=inter: v})
                join = Obj('join', {'intermediateTable': 'T1',
                                    'otherClass': Obj('oc', {'sqlmeta': Obj('sqlmeta', {'joins': [None, o]})})})
                pe = PE({'join': join}, {'getattr': _generic_getattr})
                v = pe.run(fn.body)
                if not isinstance(v, bool):
                    raise Unsupported('_otherSideCreates does not return a bool')
                rows.append('((%s, %s, %s), %s)' % (cbool(inter), cbool(create), cbool(same), cbool(v)))
    out.append('Definition other_side_table : list ((bool * bool * bool) * bool) :=\n  [%s].' % ';\n   '.join(rows))
    # dropJoinTables must use the same ownership test
    fn = src.method(MAIN, 'SQLObject', 'dropJoinTables')
    txt = ast.unparse(fn)
    if 'join.soClass.__name__ > join.otherClass.__name__ and cls._otherSideCreates(join)' not in txt:
        raise Unsupported('dropJoinTables no longer uses the ownership test of _getJoinsToCreate')
    return '\n'.join(out)


def gen_const_types(src):
    rows = []
    for cname in TYPE_CLASSES:
        c = src.cls(COL, cname)
        for n in c.body:
            if isinstance(n, ast.FunctionDef) and (n.name == '_sqlType' or (n.name.startswith('_') and n.name.endswith('Type')
                                                                           and n.name not in ('_idType',))):
                body = [s for s in n.body if not (isinstance(s, ast.Expr) and isinstance(s.value, ast.Constant))]
                if len(body) == 1 and isinstance(body[0], ast.Return) and isinstance(body[0].value, ast.Constant) \
                        and isinstance(body[0].value.value, str):
                    rows.append('(%s, %s, %s)' % (cstr(cname), cstr(n.name), cttoks(lex_template(body[0].value.value))))
    return 'Definition const_types : list (list N * list N * list ttok) :=\n  [%s].' % ';\n   '.join(rows)


def gen_enum(src):
    """which converter renders the enum values, and the shape of the type, per _<dialect>Type"""
    rows = []

    def run(meth, vals, extra_env=None):
        fn = src.method(COL, 'SOEnumCol', meth)
        me = Obj('self', {'enumValues': vals, 'dbName': hole('dbName')},
                 {'_checkType': lambda a, k: hole('check@%s' % a[0]) if (len(a) == 1 and isinstance(a[0], str)) else _unsup()})
        calls = {'sqlbuilder.sqlrepr': lambda a, k: hole('%s@%s' % ('NULL' if a[0] is None else a[0], a[1]))}
        env = {'self': me}
        env.update(extra_env or {})
        pe = PE(env, calls, {'max(map(self._getlength, self.enumValues))': hole('length')})
        try:
            v = pe.run(fn.body)
            if isinstance(v, tuple):
                parts = []
                for i, x in enumerate(v):
                    if i:
                        parts.append(('c', ' ; '))
                    parts.extend(Sym.of(x).parts)
                v = Sym(parts)
            return ('ok', lex_template(v))
        except Raised as e:
            return ('raise', e.name)
    for meth in ('_mysqlType', '_postgresType', '_sqliteType', '_firebirdType', '_sybaseType', '_mssqlType'):
        for with_none in (False, True):
            vals = ['a', None] if with_none else ['a', 'b']
            rows.append('((%s, %s), %s)' % (cstr(meth), cbool(with_none), cres(run(meth, vals))))
    out = ['Definition enum_type_table : list ((list N * bool) * tres) :=\n  [%s].' % ';\n   '.join(rows)]
    rows = []
    for db in ('postgres', 'sqlite', 'sybase', 'mssql'):
        for with_none in (False, True):
            vals = ['a', None] if with_none else ['a', 'b']
            rows.append('((%s, %s), %s)' % (cstr(db), cbool(with_none), cres(run('_checkType', vals, {'db': db}))))
    out.append('Definition enum_check_table : list ((list N * bool) * tres) :=\n  [%s].' % ';\n   '.join(rows))
    fn = src.method(COL, 'SOEnumCol', '_maxdbType')
    r = run_fn(fn, {'self': Obj('self')}, {})
    out.append('Definition enum_maxdb : tres := %s.' % cres(r))
    return '\n'.join(out)


def _unsup():
    raise Unsupported('_checkType called with something else than a constant dialect name')


HEADER = '''(* GENERATED by tools/py2coq/gen_ddl.py from the SQLObject source -- do not edit.
   DDL templates (text with holes, lexed) and constant tables for C14. *)
From Coq Require Import List NArith Bool.
From Lib Require Import DdlTpl.
Import ListNotations.
Open Scope N_scope.

Inductive cascade_code := CNone | CTrue | CFalse | CNull.
Inductive dialect_code := DSqlite | DMysql | DPostgres | DFirebird | DMssql | DSybase | DMaxdb.
Inductive idtype_code := IdInt | IdStr.
Inductive idsize_code := SzNone | SzTiny | SzSmall | SzMedium | SzBig.
'''


def main(repo, dest):
    src = Source(repo)
    parts = [HEADER, gen_extra(src), gen_fk(src), gen_idcols(src), gen_dispatch(src), gen_assembly(src), gen_index(src),
             gen_joins_rule(src), gen_const_types(src), gen_enum(src)]
    text = '\n\n'.join(parts) + '\n'
    tmp = dest + '.tmp%d' % os.getpid()
    with open(tmp, 'w') as f:
        f.write(text)
    os.replace(tmp, dest)


if __name__ == '__main__':
    import sys
    main(sys.argv[1] if len(sys.argv) > 1 else '/repo', sys.argv[2] if len(sys.argv) > 2 else '/dev/stdout')
