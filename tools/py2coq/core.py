"""py2coq core: fail-closed transliteration of a small Python subset into the
PyLite Gallina embedding (coq/Lib/PyLite.v).

The translator never evaluates the Python it reads.  Anything outside the
subset raises Unsupported, which the caller reports as "Tie A broken".
"""
import ast


class Unsupported(Exception):
    pass


class T:
    """Statement/expression transliterator.

    env     : dict source-text -> Coq term of type pv (sub-expressions that are
              parameters of the generated function)
    ret     : callable(T, ast_node) -> Coq term of type `res R` or None
    raises  : dict exception-name -> Coq exn constructor
    """

    def __init__(self, env, ret, raises=None):
        self.env = env
        self.ret = ret
        self.raises = raises or {'IndexError': 'E_Index', 'AssertionError': 'E_Assert',
                                 'TypeError': 'E_Type'}
        self.n = 0

    def fresh(self, p='t'):
        self.n += 1
        return "%s%d" % (p, self.n)

    @staticmethod
    def src(node):
        return ast.unparse(node)

    def wrap(self, pre, out):
        for (n, rhs) in reversed(pre):
            out = "(%s <- %s ;; %s)" % (n, rhs, out)
        return out

    # expression -> (prelude binds, coq pv term)
    def expr(self, e):
        s = self.src(e)
        if s in self.env:
            return [], self.env[s]
        if isinstance(e, ast.Constant):
            if e.value is None:
                return [], "VNone"
            if isinstance(e.value, bool):
                return [], "(VBool %s)" % str(e.value).lower()
            if isinstance(e.value, int):
                return [], "(VInt (%d))" % e.value
            raise Unsupported("constant: " + s)
        if isinstance(e, ast.Name):
            return [], "v_" + e.id
        if isinstance(e, ast.BinOp) and isinstance(e.op, (ast.Add, ast.Sub)):
            pa, a = self.expr(e.left)
            pb, b = self.expr(e.right)
            t = self.fresh()
            f = "py_add" if isinstance(e.op, ast.Add) else "py_sub"
            return pa + pb + [(t, "%s %s %s" % (f, a, b))], t
        if isinstance(e, ast.BoolOp):
            # value-level and/or; operands must be effect-free (no preludes)
            vals = []
            for v in e.values:
                p, t = self.expr(v)
                if p:
                    raise Unsupported("effectful operand of and/or: " + s)
                vals.append(t)
            acc = vals[-1]
            f = "py_or" if isinstance(e.op, ast.Or) else "py_and"
            for v in reversed(vals[:-1]):
                acc = "(%s %s %s)" % (f, v, acc)
            return [], acc
        if isinstance(e, ast.UnaryOp) and isinstance(e.op, ast.Not):
            p, t = self.expr(e.operand)
            return p, "(py_not %s)" % t
        if isinstance(e, ast.Compare) and len(e.ops) == 1:
            pa, a = self.expr(e.left)
            pb, b = self.expr(e.comparators[0])
            op = e.ops[0]
            if isinstance(op, ast.IsNot) and b == "VNone":
                return pa, "(py_not (py_is_none %s))" % a
            if isinstance(op, ast.Is) and b == "VNone":
                return pa, "(py_is_none %s)" % a
            t = self.fresh()
            table = {ast.Lt: "py_lt", ast.GtE: "py_ge", ast.LtE: "py_le", ast.Gt: "py_gt"}
            for k, f in table.items():
                if isinstance(op, k):
                    return pa + pb + [(t, "%s %s %s" % (f, a, b))], t
            raise Unsupported("compare: " + s)
        raise Unsupported("expr: " + s)

    # condition -> coq term of type res bool (short-circuit preserved)
    def cond(self, e):
        if isinstance(e, ast.BoolOp):
            parts = [self.cond(v) for v in e.values]
            acc = parts[-1]
            for p in reversed(parts[:-1]):
                c = self.fresh('c')
                if isinstance(e.op, ast.And):
                    acc = "(%s <- %s ;; if %s then %s else Ok false)" % (c, p, c, acc)
                else:
                    acc = "(%s <- %s ;; if %s then Ok true else %s)" % (c, p, c, acc)
            return acc
        if isinstance(e, ast.UnaryOp) and isinstance(e.op, ast.Not):
            c = self.fresh('c')
            return "(%s <- %s ;; Ok (negb %s))" % (c, self.cond(e.operand), c)
        pre, t = self.expr(e)
        return self.wrap(pre, "Ok (truthy %s)" % t)

    def stmts(self, body, k="Err E_Other"):
        if not body:
            return k
        s, rest = body[0], body[1:]
        if isinstance(s, ast.Expr) and isinstance(s.value, ast.Constant):
            return self.stmts(rest, k)
        if isinstance(s, ast.Return):
            r = self.ret(self, s.value)
            if r is None:
                raise Unsupported("return: " + self.src(s))
            return r
        if isinstance(s, ast.Raise):
            exc = s.exc
            name = None
            if isinstance(exc, ast.Call) and isinstance(exc.func, ast.Name):
                name = exc.func.id
            elif isinstance(exc, ast.Name):
                name = exc.id
            if name not in self.raises:
                raise Unsupported("raise: " + self.src(s))
            return "Err %s" % self.raises[name]
        if isinstance(s, ast.Assert):
            c = self.fresh('c')
            return "(%s <- %s ;; if %s then %s else Err E_Assert)" % (
                c, self.cond(s.test), c, self.stmts(rest, k))
        if isinstance(s, ast.Assign) and len(s.targets) == 1 and isinstance(s.targets[0], ast.Name):
            pre, t = self.expr(s.value)
            out = "(let v_%s := %s in %s)" % (s.targets[0].id, t, self.stmts(rest, k))
            return self.wrap(pre, out)
        if isinstance(s, ast.If):
            # join point = rest (duplicated into both branches)
            kk = self.stmts(rest, k)
            c = self.fresh('c')
            return "(%s <- %s ;; if %s then %s else %s)" % (
                c, self.cond(s.test), c, self.stmts(s.body, kk),
                self.stmts(s.orelse, kk) if s.orelse else kk)
        raise Unsupported("stmt: " + self.src(s))


def find_method(tree, cls, fn):
    for n in ast.walk(tree):
        if isinstance(n, ast.ClassDef) and n.name == cls:
            for m in n.body:
                if isinstance(m, ast.FunctionDef) and m.name == fn:
                    return m
    raise Unsupported("no %s.%s" % (cls, fn))


def find_function(tree, fn):
    for n in tree.body:
        if isinstance(n, ast.FunctionDef) and n.name == fn:
            return n
    raise Unsupported("no function %s" % fn)
