"""py2coq for string-building code: a fail-closed transliterator of the small
Python subset used by sqlobject/converters.py and the LIKE helpers of
sqlobject/sqlbuilder.py into Gallina over coq/Lib/Str.v (strings are lists of
code points, results are `option str`, None = the Python code raised).

It never evaluates the Python it reads, except `ast.literal_eval` on constant
tables.  Anything outside the subset raises Unsupported ("Tie A broken").
"""
import ast

from .core import Unsupported

DIALECTS = {'sqlite': 'Sqlite', 'mysql': 'Mysql', 'postgres': 'Postgres', 'firebird': 'Firebird',
            'sybase': 'Sybase', 'maxdb': 'Maxdb', 'mssql': 'Mssql'}


def cstr(s):
    """a Python str constant as a Coq list of code points"""
    if not isinstance(s, str):
        raise Unsupported("not a str constant: %r" % (s,))
    return "[%s]" % "; ".join(str(ord(c)) for c in s)


def cdialect(s):
    if s not in DIALECTS:
        raise Unsupported("unknown dialect name %r" % (s,))
    return DIALECTS[s]


def table(node):
    """a list of (one-character str, str) pairs -> Coq list (ch * str)"""
    try:
        v = ast.literal_eval(node)
    except (ValueError, SyntaxError):
        raise Unsupported("table is not a constant: " + ast.unparse(node))
    if not isinstance(v, list):
        raise Unsupported("table is not a list")
    out = []
    for e in v:
        if not (isinstance(e, tuple) and len(e) == 2 and isinstance(e[0], str) and isinstance(e[1], str)
                and len(e[0]) == 1):
            raise Unsupported("table entry is not (one character, str): %r" % (e,))
        out.append("(%d, %s)" % (ord(e[0]), cstr(e[1])))
    return "[%s]" % "; ".join(out)


class S:
    """
    strs   : source text -> Coq term of type str (parameters / callee results)
    bools  : source text -> Coq term of type bool
    skip   : set of `if` test source texts assumed false (their body is not translated)
    calls  : function source text -> callable(self, call_node) -> (prelude, term) for calls that may raise
    tables : name -> Coq name of a constant table usable in `for a, b in NAME: x = x.replace(a, b)`
    dvar   : source text of the dialect variable
    """

    def __init__(self, strs=None, bools=None, skip=(), calls=None, tables=None, dvar='db', lists=None):
        self.strs = dict(strs or {})
        self.bools = dict(bools or {})
        self.skip = set(skip)
        self.calls = dict(calls or {})
        self.tables = dict(tables or {})
        self.lists = dict(lists or {})
        self.dvar = dvar
        self.bound = set()
        self.n = 0

    def fresh(self, p='t'):
        self.n += 1
        return "%s%d" % (p, self.n)

    @staticmethod
    def src(node):
        return ast.unparse(node)

    def wrap(self, pre, out):
        for (n, rhs) in reversed(pre):
            out = "(obind (%s) (fun %s => %s))" % (rhs, n, out)
        return out

    # ---------------------------------------------------------------- strings
    def fmt(self, f, args):
        """'..%s..%04d..' % args  ->  concatenation"""
        pre, parts, i, lit = [], [], 0, ''
        args = list(args)
        while i < len(f):
            c = f[i]
            if c != '%':
                lit += c
                i += 1
                continue
            if f[i:i + 2] == '%s':
                if lit:
                    parts.append(cstr(lit))
                    lit = ''
                if not args:
                    raise Unsupported("format: too few arguments for %r" % f)
                p, t = self.str(args.pop(0))
                pre += p
                parts.append(t)
                i += 2
                continue
            if f[i:i + 2] == '%0' and f[i + 2:i + 3].isdigit() and f[i + 3:i + 4] == 'd':
                if lit:
                    parts.append(cstr(lit))
                    lit = ''
                if not args:
                    raise Unsupported("format: too few arguments for %r" % f)
                a = self.src(args.pop(0))
                if a not in self.strs or not self.strs[a].startswith('N:'):
                    raise Unsupported("format: %%0Nd argument is not a declared number: " + a)
                parts.append("(fixed %s %s)" % (f[i + 2], self.strs[a][2:]))
                i += 4
                continue
            raise Unsupported("format directive in %r" % f)
        if lit:
            parts.append(cstr(lit))
        if args:
            raise Unsupported("format: too many arguments for %r" % f)
        if not parts:
            return pre, "[]"
        return pre, "(%s)" % " ++ ".join(parts)

    def str(self, e):
        s = self.src(e)
        if s in self.strs and not self.strs[s].startswith('N:'):
            return [], self.strs[s]
        if isinstance(e, ast.Constant):
            if isinstance(e.value, str):
                return [], cstr(e.value)
            raise Unsupported("constant: " + s)
        if isinstance(e, ast.Name):
            if e.id not in self.bound:
                raise Unsupported("unbound name: " + s)
            return [], "v_" + e.id
        if isinstance(e, ast.BinOp) and isinstance(e.op, ast.Mod):
            if not (isinstance(e.left, ast.Constant) and isinstance(e.left.value, str)):
                raise Unsupported("format string is not a constant: " + s)
            args = e.right.elts if isinstance(e.right, ast.Tuple) else [e.right]
            return self.fmt(e.left.value, args)
        if isinstance(e, ast.BinOp) and isinstance(e.op, ast.Add):
            pa, a = self.str(e.left)
            pb, b = self.str(e.right)
            return pa + pb, "(%s ++ %s)" % (a, b)
        if isinstance(e, ast.IfExp):
            pa, a = self.str(e.body)
            pb, b = self.str(e.orelse)
            if pa or pb:
                raise Unsupported("effectful conditional expression: " + s)
            return [], "(if %s then %s else %s)" % (self.bool(e.test), a, b)
        if isinstance(e, ast.Subscript) and isinstance(e.slice, ast.Slice) and e.slice.step is None:
            p, x = self.str(e.value)
            lo, hi = e.slice.lower, e.slice.upper

            def nat(n):
                if isinstance(n, ast.Constant) and isinstance(n.value, int) and not isinstance(n.value, bool) \
                        and n.value >= 0:
                    return n.value
                return None

            def negnat(n):
                if isinstance(n, ast.UnaryOp) and isinstance(n.op, ast.USub) and nat(n.operand):
                    return nat(n.operand)
                return None
            if lo is None and hi is not None and nat(hi) is not None:
                return p, "(firstn %d %s)" % (nat(hi), x)
            if lo is not None and nat(lo) is not None and hi is not None and negnat(hi):
                return p, "(slice_from_to_neg %d %d %s)" % (nat(lo), negnat(hi), x)
            raise Unsupported("slice: " + s)
        if isinstance(e, ast.Call):
            fs = self.src(e.func)
            if fs in self.calls:
                return self.calls[fs](self, e)
            if isinstance(e.func, ast.Attribute):
                meth = e.func.attr
                if meth == 'replace' and len(e.args) == 2 and not e.keywords:
                    a = e.args[0]
                    if not (isinstance(a, ast.Constant) and isinstance(a.value, str) and len(a.value) == 1):
                        raise Unsupported("replace: the searched text is not a one-character constant: " + s)
                    p, x = self.str(e.func.value)
                    pb, b = self.str(e.args[1])
                    return p + pb, "(replace1 %d %s %s)" % (ord(a.value), b, x)
                if meth == 'upper' and not e.args and not e.keywords:
                    p, x = self.str(e.func.value)
                    return p, "(upper %s)" % x
                if meth == 'join' and len(e.args) == 1 and not e.keywords:
                    sep = e.func.value
                    if not (isinstance(sep, ast.Constant) and isinstance(sep.value, str)):
                        raise Unsupported("join: separator is not a constant: " + s)
                    a = self.src(e.args[0])
                    if a in self.lists:
                        return [], "(join %s %s)" % (cstr(sep.value), self.lists[a])
                    raise Unsupported("join: argument is not a declared list: " + a)
        raise Unsupported("string expression: " + s)

    # ---------------------------------------------------------------- booleans
    def bool(self, e):
        s = self.src(e)
        if s in self.bools:
            return self.bools[s]
        if isinstance(e, ast.BoolOp):
            op = " && " if isinstance(e.op, ast.And) else " || "
            return "(%s)" % op.join(self.bool(v) for v in e.values)
        if isinstance(e, ast.UnaryOp) and isinstance(e.op, ast.Not):
            return "(negb %s)" % self.bool(e.operand)
        if isinstance(e, ast.Compare) and len(e.ops) == 1:
            left, op, right = e.left, e.ops[0], e.comparators[0]
            if self.src(left) == self.dvar:
                if isinstance(op, (ast.Eq, ast.NotEq)) and isinstance(right, ast.Constant):
                    t = "(dialect_eqb %s %s)" % (self.dvar, cdialect(right.value))
                    return t if isinstance(op, ast.Eq) else "(negb %s)" % t
                if isinstance(op, (ast.In, ast.NotIn)) and isinstance(right, (ast.Tuple, ast.List)):
                    names = []
                    for c in right.elts:
                        if not isinstance(c, ast.Constant):
                            raise Unsupported("dialect list: " + s)
                        names.append(cdialect(c.value))
                    t = "(dialect_in %s [%s])" % (self.dvar, "; ".join(names))
                    return t if isinstance(op, ast.In) else "(negb %s)" % t
            if isinstance(op, (ast.In, ast.NotIn)) and isinstance(left, ast.Constant) \
                    and isinstance(left.value, str) and len(left.value) == 1:
                p, x = self.str(right)
                if p:
                    raise Unsupported("effectful operand: " + s)
                t = "(contains %d %s)" % (ord(left.value), x)
                return t if isinstance(op, ast.In) else "(negb %s)" % t
        if isinstance(e, ast.Call) and isinstance(e.func, ast.Attribute) \
                and e.func.attr in ('startswith', 'endswith') and len(e.args) == 1 and not e.keywords \
                and isinstance(e.args[0], ast.Constant) and isinstance(e.args[0].value, str):
            p, x = self.str(e.func.value)
            if p:
                raise Unsupported("effectful operand: " + s)
            f = 'starts_with' if e.func.attr == 'startswith' else 'ends_with'
            return "(%s %s %s)" % (f, cstr(e.args[0].value), x)
        raise Unsupported("condition: " + s)

    # ---------------------------------------------------------------- statements
    def stmts(self, body, k="None"):
        if not body:
            return k
        s, rest = body[0], body[1:]
        if isinstance(s, ast.Expr) and isinstance(s.value, ast.Constant):
            return self.stmts(rest, k)
        if isinstance(s, ast.Return):
            if s.value is None:
                raise Unsupported("bare return")
            pre, t = self.str(s.value)
            return self.wrap(pre, "Some %s" % t)
        if isinstance(s, ast.Raise):
            return "None"
        if isinstance(s, ast.Assert):
            t = s.test
            if isinstance(t, ast.Constant) and t.value in (0, False):
                return "None"
            return "(if %s then %s else None)" % (self.bool(t), self.stmts(rest, k))
        if isinstance(s, ast.Assign) and len(s.targets) == 1 and isinstance(s.targets[0], ast.Name):
            pre, t = self.str(s.value)
            name = s.targets[0].id
            self.bound.add(name)
            out = "(let v_%s := %s in %s)" % (name, t, self.stmts(rest, k))
            return self.wrap(pre, out)
        if isinstance(s, ast.For):
            # for a, b in TABLE: x = x.replace(a, b)
            if (isinstance(s.target, ast.Tuple) and len(s.target.elts) == 2
                    and all(isinstance(x, ast.Name) for x in s.target.elts)
                    and isinstance(s.iter, ast.Name) and s.iter.id in self.tables
                    and len(s.body) == 1 and not s.orelse and isinstance(s.body[0], ast.Assign)):
                a, b = s.target.elts[0].id, s.target.elts[1].id
                asg = s.body[0]
                if len(asg.targets) == 1 and isinstance(asg.targets[0], ast.Name):
                    x = asg.targets[0].id
                    if self.src(asg.value) == "%s.replace(%s, %s)" % (x, a, b) and x in self.bound:
                        return "(let v_%s := apply_table %s v_%s in %s)" % (
                            x, self.tables[s.iter.id], x, self.stmts(rest, k))
            raise Unsupported("for loop: " + self.src(s))
        if isinstance(s, ast.If):
            if self.src(s.test) in self.skip:
                return self.stmts(list(s.orelse) + rest, k)
            bound0 = set(self.bound)
            both = (assigned(s.body) & assigned(s.orelse)) if s.orelse else set()
            self.bound = bound0 | both
            kk = self.stmts(rest, k)
            self.bound = set(bound0)
            a = self.stmts(s.body, kk)
            self.bound = set(bound0)
            b = self.stmts(s.orelse, kk) if s.orelse else kk
            # the continuation may use names bound before the `if` or (re)bound in both branches
            return "(if %s then %s else %s)" % (self.bool(s.test), a, b)
        raise Unsupported("statement: " + self.src(s))


def assigned(stmts):
    """names certainly assigned by a statement list (top level only; an if/else counts when both branches assign)"""
    out = set()
    for s in stmts:
        if isinstance(s, ast.Assign) and len(s.targets) == 1 and isinstance(s.targets[0], ast.Name):
            out.add(s.targets[0].id)
        elif isinstance(s, ast.If) and s.orelse:
            out |= assigned(s.body) & assigned(s.orelse)
    return out


def find_function(tree, fn):
    for n in tree.body:
        if isinstance(n, ast.FunctionDef) and n.name == fn:
            return n
    raise Unsupported("no function %s" % fn)


def find_class(tree, cls):
    for n in tree.body:
        if isinstance(n, ast.ClassDef) and n.name == cls:
            return n
    raise Unsupported("no class %s" % cls)


def find_method(tree, cls, fn):
    c = find_class(tree, cls)
    for m in c.body:
        if isinstance(m, ast.FunctionDef) and m.name == fn:
            return m
    raise Unsupported("no %s.%s" % (cls, fn))


def find_assign(tree, name):
    hits = [n for n in tree.body if isinstance(n, ast.Assign) and len(n.targets) == 1
            and isinstance(n.targets[0], ast.Name) and n.targets[0].id == name]
    if len(hits) != 1:
        raise Unsupported("expected exactly one module-level assignment of %s" % name)
    return hits[0].value


def argnames(fn):
    a = fn.args
    if a.vararg or a.kwarg or a.kwonlyargs or a.posonlyargs:
        raise Unsupported("signature of %s" % fn.name)
    return [x.arg for x in a.args]


def registered(tree, typ):
    """the converter function registered for a type name: registerConverter(typ, F) at module level (unconditional)"""
    hits = []
    for n in tree.body:
        if isinstance(n, ast.Expr) and isinstance(n.value, ast.Call) and ast.unparse(n.value.func) == 'registerConverter' \
                and len(n.value.args) == 2 and ast.unparse(n.value.args[0]) == typ:
            hits.append(ast.unparse(n.value.args[1]))
    if len(hits) != 1:
        raise Unsupported("expected exactly one unconditional registerConverter(%s, ...), found %r" % (typ, hits))
    return hits[0]
