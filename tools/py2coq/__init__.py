"""Tie A: generators that re-translate kernels of /repo into coq/Gen/*.v (each plugin in tools/props names the ones it needs)."""
