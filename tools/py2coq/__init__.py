"""Tie A: generators that re-translate kernels of /repo into coq/Gen/*.v."""
GENERATORS = {
    'Slice': 'tools.py2coq.gen_slice',
}
