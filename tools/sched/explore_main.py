"""python -m tools.sched.explore_main <in.json> <out.json>
in: [{'base': case-without-sched, 'bound': k}, ...]; out: [[sched, ...], ...] (same order).
Runs in an implementation process (PYTHONPATH = tree under test)."""
import json
import sys
import warnings


def main():
    warnings.simplefilter('ignore')
    fin, fout = sys.argv[1:3]
    jobs = json.load(open(fin))
    from tools.sched import sched, explore
    env = sched.make_env()
    out = []
    for j in jobs:
        try:
            # Tie A broken: every line is a preemption point; keep the search bounded
            lim = j.get('limit', 20000) if not env.get('skel_error') else min(j.get('limit', 20000), 400)
            res = explore.explore(env, j['base'], j['bound'], limit=lim)
            out.append([sd for sd, _ in res])
        except Exception as e:      # never lose the whole chunk
            out.append({'error': '%s: %s' % (type(e).__name__, e)})
    json.dump(out, open(fout, 'w'))


if __name__ == '__main__':
    main()
