"""Tie A-lite for C09: the statement skeleton of every modelled method is
extracted with `ast` from the tree under test and compared with the skeleton
the Coq model (coq/Model/CacheConc.v) was written against.

An entry is (path, text): `path` is the position of the statement in the
nesting structure of the method (b = body, e = else, h<j> = j-th handler,
f = finally), `text` is the unparsed statement (header only for compound
statements) after alpha-renaming of the method's local names, so comments,
blank lines, docstrings, layout and local renamings do not matter, while any
moved/added/removed/edited statement does.

`python -m tools.sched.skeleton --dump [repo]` prints the skeleton of a tree
in the form of the EXPECTED table (labels have to be filled in by hand)."""
import ast
import os
import sys

# (file, class, function, prefix of the program-point labels)
METHODS = [
    ('sqlobject/cache.py', 'CacheFactory', 'tryGet', 'T'),
    ('sqlobject/cache.py', 'CacheFactory', 'get', 'F'),
    ('sqlobject/cache.py', 'CacheFactory', 'put', 'P'),
    ('sqlobject/cache.py', 'CacheFactory', 'finishPut', 'Q'),
    ('sqlobject/cache.py', 'CacheFactory', 'created', 'K'),
    ('sqlobject/cache.py', 'CacheFactory', 'cull', 'U'),
    ('sqlobject/cache.py', 'CacheFactory', 'expire', 'E'),
    ('sqlobject/cache.py', 'CacheFactory', 'expireAll', 'A'),
    ('sqlobject/cache.py', 'CacheFactory', 'allIDs', 'I'),
    ('sqlobject/cache.py', 'CacheFactory', 'getAll', 'L'),
    ('sqlobject/cache.py', 'CacheSet', 'get', 'SG'),
    ('sqlobject/cache.py', 'CacheSet', 'put', 'SP'),
    ('sqlobject/cache.py', 'CacheSet', 'finishPut', 'SQ'),
    ('sqlobject/cache.py', 'CacheSet', 'created', 'SK'),
    ('sqlobject/cache.py', 'CacheSet', 'expire', 'SE'),
    ('sqlobject/cache.py', 'CacheSet', 'tryGet', 'ST'),
    ('sqlobject/cache.py', 'CacheSet', 'tryGetByName', 'SN'),
    ('sqlobject/cache.py', 'CacheSet', 'weakrefAll', 'SW'),
    ('sqlobject/cache.py', 'CacheSet', 'getAll', 'SL'),
    ('sqlobject/main.py', 'SQLObject', 'get', 'M'),
    ('sqlobject/main.py', 'SQLObject', 'expire', 'X'),
    ('sqlobject/main.py', 'SQLObject', '_SO_finishCreate', 'C'),
    ('sqlobject/main.py', 'SQLObject', '_SO_loadValue', 'V'),
    ('sqlobject/main.py', 'sqlmeta', 'expireAll', 'Z'),
]


class SkeletonMismatch(Exception):
    pass


def _find(tree, cls, fn):
    for node in tree.body:
        if isinstance(node, ast.ClassDef) and node.name == cls:
            for sub in node.body:
                if isinstance(sub, (ast.FunctionDef,)) and sub.name == fn:
                    return sub
    return None


class _Rename(ast.NodeTransformer):
    def __init__(self, names):
        self.names = names

    def visit_Name(self, node):
        if node.id in self.names:
            return ast.copy_location(ast.Name(id=self.names[node.id], ctx=node.ctx), node)
        return node

    def visit_arg(self, node):
        if node.arg in self.names:
            node.arg = self.names[node.arg]
        return node


def _locals(fn):
    names = {}

    def add(n):
        if n not in names and n not in ('self', 'cls', 'sqlmeta'):
            names[n] = 'v%d' % len(names)
    for a in fn.args.posonlyargs + fn.args.args + fn.args.kwonlyargs:
        add(a.arg)
    for node in ast.walk(fn):
        if isinstance(node, ast.Name) and isinstance(node.ctx, (ast.Store, ast.Del)):
            add(node.id)
    return names


def _is_doc(st):
    return isinstance(st, ast.Expr) and isinstance(st.value, ast.Constant) and isinstance(st.value.value, str)


def _walk(stmts, path, out, ren):
    k = 0
    for st in stmts:
        if _is_doc(st):
            continue
        p = '%s%d' % (path, k)
        k += 1
        first = st.lineno

        def header(text, body):
            last = (body[0].lineno - 1) if body else getattr(st, 'end_lineno', first)
            # never let the header swallow the lines of its first body statement
            out.append((p, text, first, max(first, min(last, getattr(st, 'end_lineno', last)))))
        if isinstance(st, ast.If):
            header('if ' + ast.unparse(ren.visit(st.test)), st.body)
            _walk(st.body, p + '.b', out, ren)
            _walk(st.orelse, p + '.e', out, ren)
        elif isinstance(st, ast.For):
            header('for %s in %s' % (ast.unparse(ren.visit(st.target)), ast.unparse(ren.visit(st.iter))), st.body)
            _walk(st.body, p + '.b', out, ren)
            _walk(st.orelse, p + '.e', out, ren)
        elif isinstance(st, ast.While):
            header('while ' + ast.unparse(ren.visit(st.test)), st.body)
            _walk(st.body, p + '.b', out, ren)
            _walk(st.orelse, p + '.e', out, ren)
        elif isinstance(st, ast.Try):
            header('try', st.body)
            _walk(st.body, p + '.b', out, ren)
            for j, h in enumerate(st.handlers):
                t = 'except' + ((' ' + ast.unparse(ren.visit(h.type))) if h.type is not None else '') + \
                    ((' as ' + ren.names.get(h.name, h.name)) if h.name else '')
                last = (h.body[0].lineno - 1) if h.body else h.lineno
                out.append(('%s.h%d' % (p, j), t, h.lineno, max(h.lineno, last)))
                _walk(h.body, '%s.h%d.b' % (p, j), out, ren)
            _walk(st.orelse, p + '.e', out, ren)
            _walk(st.finalbody, p + '.f', out, ren)
        elif isinstance(st, ast.With):
            header('with ' + ', '.join(ast.unparse(ren.visit(i)) for i in st.items), st.body)
            _walk(st.body, p + '.b', out, ren)
        elif isinstance(st, (ast.FunctionDef, ast.ClassDef)):
            out.append((p, 'def ' + st.name, first, first))
        else:
            out.append((p, ast.unparse(ren.visit(st)), first, getattr(st, 'end_lineno', first)))


def extract(repo):
    """{(file, cls, fn): [(path, text, first_line, last_line), ...]}"""
    trees, out = {}, {}
    for f, cls, fn, _ in METHODS:
        if f not in trees:
            trees[f] = ast.parse(open(os.path.join(repo, f)).read())
        node = _find(trees[f], cls, fn)
        if node is None:
            raise SkeletonMismatch('%s: method %s.%s not found' % (f, cls, fn))
        import copy
        node = copy.deepcopy(node)
        ren = _Rename(_locals(node))
        sig = 'def(%s)' % ', '.join(ren.names.get(a.arg, a.arg) for a in node.args.args)
        entries = [('sig', sig, node.lineno, node.lineno)]
        _walk(node.body, 'b', entries, ren)
        out[(f, cls, fn)] = entries
    return out


def check(repo):
    """Compare with EXPECTED.  Returns the pause map
    {file: {lineno: (label, stmt_first_line)}} and {label: (file, first_line)}.
    Raises SkeletonMismatch with the first difference."""
    from tools.sched.expected import EXPECTED
    got = extract(repo)
    pause, where = {}, {}
    for f, cls, fn, pre in METHODS:
        exp = EXPECTED[(cls, fn)]
        ent = got[(f, cls, fn)]
        for i in range(max(len(exp), len(ent))):
            e = exp[i] if i < len(exp) else None
            g = ent[i] if i < len(ent) else None
            if e is None or g is None or e[0] != g[0] or e[1] != g[1]:
                raise SkeletonMismatch(
                    '%s %s.%s: statement %d differs from the modelled skeleton: expected %r, found %r%s' % (
                        f, cls, fn, i, (e[0], e[1]) if e else None, (g[0], g[1]) if g else None,
                        (' (line %d)' % g[2]) if g else ''))
            label = e[2]
            if label:
                for ln in range(g[2], g[3] + 1):
                    pause.setdefault(f, {})[ln] = (label, g[2])
                where[label] = (f, g[2])
    return pause, where


def dump(repo):
    got = extract(repo)
    print('EXPECTED = {')
    for f, cls, fn, pre in METHODS:
        print('    (%r, %r): [' % (cls, fn))
        for p, t, a, b in got[(f, cls, fn)]:
            print('        (%r, %r, %r),' % (p, t, '%s%d' % (pre, a)))
        print('    ],')
    print('}')


if __name__ == '__main__':
    if len(sys.argv) > 1 and sys.argv[1] == '--dump':
        dump(sys.argv[2] if len(sys.argv) > 2 else '/repo')
    else:
        p, w = check(sys.argv[1] if len(sys.argv) > 1 else '/repo')
        print('skeleton ok: %d labelled program points' % len(w))
