"""Deterministic line-level scheduler driving REAL threads through the real
cache code of SQLObject.

* every worker thread runs a small program of operations (get / create /
  expire / expireAll ...) on one SQLObject class bound to one fresh sqlite
  :memory: connection;
* a `sys.settrace` line hook pauses a worker *before* every labelled statement
  (tools/sched/expected.py: every statement of the modelled cache.py methods and
  the cache-relevant statements of main.py) and hands control back to the
  controller; a step = "resume thread t until its next labelled statement";
* `threading.Lock` as seen by sqlobject.cache and sqlobject.main is replaced by a
  cooperative lock: acquiring a held lock does not hang, the thread reports
  "blocked" (it is then not enabled until the lock is free);
* the controller chooses the thread of every step from the schedule of the
  case, observes the shared state after every step, detects deadlock (nobody
  enabled, somebody unfinished) and has a watchdog on every hand-over.

Nothing here knows the Coq model; the observation is what the model is
compared with (Corr/C09.v) and what the oracle judges."""
import gc
import sys
import threading as _th
import time

WATCHDOG = 8.0          # seconds a single step may take before the case is declared hung
MAX_STEPS = 1500        # line steps per case

_local = _th.local()


class Abort(BaseException):
    """raised inside a worker to unwind it when the case is abandoned"""


class Ctl:
    current = None      # the Run in progress (one per process at a time)


class CoopLock(object):
    """Replacement for threading.Lock inside the code under test."""

    def __init__(self):
        self.owner = None
        run = Ctl.current
        if run is not None:
            run.locks.append(self)

    def acquire(self, blocking=True, timeout=-1):
        w = getattr(_local, 'worker', None)
        if w is None or w.run.aborting:
            if self.owner is None:
                self.owner = -1 if w is None else w.tid
                return True
            if w is not None:
                raise Abort()
            raise RuntimeError('cooperative lock held while acquired from an unscheduled thread')
        while self.owner is not None:
            w.blocked_on = self
            w.handback()
        w.blocked_on = None
        self.owner = w.tid
        return True

    def release(self):
        if self.owner is None:
            raise RuntimeError('release unlocked lock')
        self.owner = None

    def locked(self):
        return self.owner is not None

    def __enter__(self):
        self.acquire()
        return self

    def __exit__(self, *a):
        self.release()


class FakeThreading(object):
    """module stand-in: everything from threading except Lock"""

    def __init__(self):
        self.Lock = CoopLock

    def __getattr__(self, name):
        return getattr(_th, name)


_installed = {}


def install(repo_modules):
    """patch sqlobject.cache / sqlobject.main once per process"""
    if _installed:
        return
    import sqlobject.cache as C
    import sqlobject.main as M
    fake = FakeThreading()
    C.threading = fake
    M.threading = fake
    _installed['C'] = C
    _installed['M'] = M


class Worker(object):
    def __init__(self, run, tid, prog):
        self.run, self.tid, self.prog = run, tid, prog
        self.go = _th.Semaphore(0)
        self.status = 'idle'        # idle | paused | done
        self.opi = 0                # index of the operation in progress / next
        self.pc = None              # label at which the thread is paused
        self.blocked_on = None
        self.results = [None] * len(prog)      # ['obj', object] | ['exc', name] | ['none']
        self.laststmt = {}
        self.thread = _th.Thread(target=self.main, daemon=True)
        if not prog:
            self.status = 'done'        # nothing to do: finished from the start, never scheduled

    # -- hand-over
    def handback(self):
        self.run.back.release()
        self.go.acquire()
        if self.run.aborting:
            raise Abort()

    # -- tracing
    def gtrace(self, frame, event, arg):
        code = frame.f_code
        pm = self.run.pause_by_file.get(code.co_filename)
        if pm is None or code.co_name not in self.run.fnames:
            return None
        return self.ltrace

    def ltrace(self, frame, event, arg):
        if event == 'line':
            if self.run.aborting:
                return None
            pm = self.run.pause_by_file[frame.f_code.co_filename]
            ent = pm.get(frame.f_lineno)
            key = id(frame)
            if ent is None:
                self.laststmt[key] = None
                return self.ltrace
            label, stmt = ent
            if self.laststmt.get(key) == stmt:
                return self.ltrace          # a further line of the same statement
            self.laststmt[key] = stmt
            if label == 'X1072':
                # expire() begins: is the instance still under construction (its _init has not run: no `id` yet)?
                try:
                    inst = frame.f_locals.get('self')
                    if inst is not None and 'id' not in inst.__dict__ and self.tid not in self.run.uninit_uses:
                        self.run.uninit_uses.append(self.tid)
                    inst = None
                except Exception:
                    pass
            if label == 'X1078':
                # about to set the expired flag: was the instance expired (and so purged) already?
                try:
                    inst = frame.f_locals.get('self')
                    if inst is not None and inst.sqlmeta.expired:
                        self.run.stale_expires.append([self.tid, int(inst.id)])
                    inst = None
                except Exception:
                    pass
            self.pc = label
            self.status = 'paused'
            self.handback()
            self.status = 'running'
        elif event == 'return':
            self.laststmt.pop(id(frame), None)
        return self.ltrace

    # -- the program
    def main(self):
        _local.worker = self
        try:
            self.go.acquire()
            if self.run.aborting:
                return
            sys.settrace(self.gtrace)
            for k, op in enumerate(self.prog):
                self.opi = k
                if k > 0:
                    self.status = 'idle'
                    self.pc = None
                    sys.settrace(None)
                    self.handback()
                    sys.settrace(self.gtrace)
                self.status = 'running'
                self.do_op(k, op)
                if self.run.aborting:
                    raise Abort()
            sys.settrace(None)
            self.opi = len(self.prog)
        except Abort:
            sys.settrace(None)
            self.status = 'aborted'
            return
        except BaseException as e:           # harness bug: never hang the controller
            sys.settrace(None)
            self.run.harness_error = '%s: %s' % (type(e).__name__, e)
        self.status = 'done'
        self.pc = None
        self.run.back.release()

    def do_op(self, k, op):
        run = self.run
        kind = op[0]
        res = ['none']
        try:
            if kind == 'get':
                o = run.cls.get(op[1])
                res = ['obj', o]
                o = None
            elif kind == 'create':
                o = run.cls(a=0)
                res = ['obj', o]
                o = None
            elif kind == 'expire':
                t, j = op[1]
                r = run.workers[t].results[j]
                if r is not None and r[0] == 'obj':
                    if 'id' not in r[1].__dict__ and self.tid not in run.uninit_uses:
                        run.uninit_uses.append(self.tid)
                    if r[1].sqlmeta.expired and [self.tid, int(r[1].id)] not in run.stale_ops:
                        run.stale_ops.append([self.tid, int(r[1].id)])
                    r[1].expire()
                r = None
            elif kind == 'xall':
                run.conn.cache.weakrefAll(run.cls)
            elif kind == 'mexall':
                run.cls.sqlmeta.expireAll()
            elif kind == 'drop':
                t, j = op[1]
                r = run.workers[t].results[j]
                if r is not None and r[0] == 'obj':
                    run.workers[t].results[j] = ['dropped']
                r = None
            else:
                raise ValueError('unknown op %r' % (op,))
        except Abort:
            raise
        except Exception as e:
            if self.run.aborting:
                raise Abort()
            res = ['exc', type(e).__name__, str(e)[:120]]
            e = None
        self.results[k] = res


class Run(object):
    """One case: programs (thread 0 = sequential set-up), a schedule, a fresh connection."""

    def __init__(self, env, case):
        self.env = env
        self.case = case
        self.pause_by_file = env['pause_by_file']
        self.fnames = env['fnames']
        self.locks = []
        self.stale_expires = []    # [thread, row]: expire() ran on an instance that was expired already
        self.stale_ops = []
        self.uninit_uses = []      # threads that called expire() on an instance whose constructor had not returned
        self.aborting = False
        self.harness_error = None
        self.back = _th.Semaphore(0)
        Ctl.current = self
        from sqlobject.sqlite.sqliteconnection import SQLiteConnection
        cfg = case.get('cfg', {})
        self.conn = SQLiteConnection(':memory:', check_same_thread=False, cache=bool(cfg.get('cache', 1)))
        self.conn.cache.kw.update(cullFrequency=cfg.get('freq', 100), cullFraction=cfg.get('frac', 2))
        self.cls = env['cls']
        self.cls._connection = self.conn
        self.cls.createTable()
        for i in case.get('rows', []):
            self.conn.query('INSERT INTO %s (id, a) VALUES (%d, 0)' % (self.cls.sqlmeta.table, i))
        # the statements the threads send to the database, in the order they happen: [thread, kind, id]
        self.sql_log = []
        _orig = self.conn._executeRetry
        _tab = self.cls.sqlmeta.table

        def _logged(rawconn, cursor, query, _orig=_orig, _tab=_tab):
            w = getattr(_local, 'worker', None)
            if w is not None:
                q = query.strip()
                import re as _re
                m = _re.search(r'\(\(%s\.id\) = \((-?\d+)\)\)' % _tab, q)
                kind = q.split(None, 1)[0].upper()
                self.sql_log.append([w.tid, kind, int(m.group(1)) if m else None, len(self.executed)])
            return _orig(rawconn, cursor, query)
        self.conn._executeRetry = _logged
        self.workers = [Worker(self, t, p) for t, p in enumerate(case['progs'])]
        self.trace = []           # [tid, label-after, state or None]
        self.executed = []        # thread id per consumed step
        self.last_state = None
        self.verdict = 'ok'       # ok | deadlock | hang | steps | harness

    # -- shared state as seen from outside
    def factory(self):
        return self.conn.cache.caches.get(self.cls.__name__)

    def state(self):
        f = self.factory()
        if f is None:
            return {'present': 0, 'lock': None, 'strong': [], 'weak': [], 'cc': 0, 'co': 0}
        weak = []
        for k, r in list(f.expiredCache.items()):
            weak.append([k, 1 if r() is not None else 0])
        strong = list(f.cache.keys()) if f.doCache else []
        lk = f.lock.owner if isinstance(f.lock, CoopLock) else None
        return {'present': 1, 'lock': lk, 'strong': strong, 'weak': weak, 'cc': f.cullCount, 'co': f.cullOffset}

    def finished(self, w):
        return w.status in ('done', 'aborted')

    def maybe_enabled(self, w):
        if self.finished(w):
            return False
        if w.blocked_on is not None and w.blocked_on.owner is not None:
            return False
        return True

    def step(self, t):
        """Try to run one step of thread t.  Returns True when a step was consumed,
        False when the thread turned out to be blocked (nothing happened)."""
        w = self.workers[t]
        w.go.release()
        if not self.back.acquire(timeout=WATCHDOG):
            self.verdict = 'hang'
            raise Hang()
        if self.harness_error:
            self.verdict = 'harness'
            raise Hang()
        if w.blocked_on is not None:
            return False
        self.executed.append(t)
        st = self.state()
        lab = w.pc if w.status == 'paused' else ('done' if w.status == 'done' else 'idle')
        self.trace.append([t, lab, w.opi, st if st != self.last_state else None])
        self.last_state = st
        return True

    def enabled_now(self):
        return [w.tid for w in self.workers if self.maybe_enabled(w)]

    def run(self):
        for w in self.workers:
            if w.prog:
                w.thread.start()
        self.last_state = self.state()
        self.init_state = self.last_state
        try:
            self.drive()
        except Hang:
            pass
        self.abort_rest()
        return self.observe()

    # -- schedules
    def drive(self):
        sched = self.case['sched']
        # phase 0: the set-up thread alone
        w0 = self.workers[0]
        while not self.finished(w0):
            if not self.step(0):
                self.verdict = 'deadlock'
                return
            if len(self.executed) > MAX_STEPS:
                self.verdict = 'steps'
                return
        others = [w.tid for w in self.workers[1:]]
        if sched.get('kind') == 'list':
            self.drive_list(sched['list'], others)
        else:
            self.drive_pre(sched, others)

    def pick_fallback(self, others, avoid=None):
        """lowest thread that can make a step (tries them); None when nobody can"""
        for t in others:
            if t == avoid:
                continue
            w = self.workers[t]
            if not self.maybe_enabled(w):
                continue
            if self.step(t):
                return t
        if avoid is not None and self.maybe_enabled(self.workers[avoid]) and self.step(avoid):
            return avoid
        return None

    def all_done(self, others):
        return all(self.finished(self.workers[t]) for t in others)

    def drive_list(self, lst, others):
        i = 0
        while not self.all_done(others):
            if len(self.executed) > MAX_STEPS:
                self.verdict = 'steps'
                return
            t = lst[i] if i < len(lst) else None
            i += 1
            if t is not None and t in others and self.maybe_enabled(self.workers[t]) and self.step(t):
                continue
            if self.pick_fallback(others) is None:
                self.verdict = 'deadlock'
                return

    def next_visible(self, w):
        """is the step thread w would execute next one that touches shared state?"""
        if w.status != 'paused' or w.blocked_on is not None:
            return True                      # operation boundary / lock acquisition
        vis = self.env.get('visible')
        return True if vis is None else (w.pc in vis)

    def drive_pre(self, sched, others):
        """Preemption-bounded schedule {first, pre: [[seg, n, to], ...], prio}.  The run is a
        sequence of segments (maximal runs of one thread), numbered from 0; segment 0 belongs to
        `first`.  An entry [seg, n, to] says: in segment `seg`, when its thread has executed n
        visible steps of the segment and is about to execute another visible step, switch to
        thread `to` (a preemption).  When the current thread finishes or blocks, the run goes on
        with the first thread of `prio` that can run (a forced switch, not a preemption).
        Invisible steps (statements that touch no shared state) never are preemption points:
        they commute with every step of the other threads."""
        prio = [t for t in sched.get('prio', others) if t in others] or others
        cur = sched.get('first', prio[0] if prio else None)
        pre = sorted([list(p) for p in sched.get('pre', [])])
        vis = 0
        self.npre = 0
        self.segs = [[cur, 0]]          # [thread, visible steps] per segment, for the explorer
        while not self.all_done(others):
            if len(self.executed) > MAX_STEPS:
                self.verdict = 'steps'
                return
            while pre and pre[0][0] < len(self.segs) - 1:
                pre.pop(0)               # its segment is over
            w = self.workers[cur]
            if self.maybe_enabled(w):
                nv = self.next_visible(w)
                if pre and nv and pre[0][0] == len(self.segs) - 1 and vis >= pre[0][1]:
                    _, n, to = pre.pop(0)
                    if to != cur and to in others and self.maybe_enabled(self.workers[to]) and self.step(to):
                        self.npre += 1
                        cur, vis = to, 1
                        self.segs.append([cur, 1])
                    continue
                if self.step(cur):
                    if nv:
                        vis += 1
                        self.segs[-1][1] = vis
                    continue
            # the current thread finished or is blocked: forced switch
            nxt = None
            for t in prio:
                if t != cur and self.maybe_enabled(self.workers[t]) and self.step(t):
                    nxt = t
                    break
            if nxt is None:
                if self.maybe_enabled(w) and self.step(cur):
                    vis += 1
                    self.segs[-1][1] = vis
                    continue
                self.verdict = 'deadlock'
                return
            cur, vis = nxt, 1
            self.segs.append([cur, 1])

    # -- winding down
    def abort_rest(self):
        self.aborting = True
        for w in self.workers:
            if not self.finished(w):
                w.go.release()
        for w in self.workers:
            if w.thread.is_alive():
                w.thread.join(1.0)
        Ctl.current = None

    def observe(self):
        # identity tokens: numbered by first occurrence over results (thread, op order), then cache contents
        tokens = {}

        def tok(o):
            k = id(o)
            if k not in tokens:
                tokens[k] = len(tokens)
            return tokens[k]
        results = []
        held = []
        for w in self.workers:
            row = []
            for r in w.results:
                if r is None:
                    row.append(['unfinished'])
                elif r[0] == 'obj':
                    row.append(['obj', tok(r[1]), int(r[1].id)])
                    held.append(r[1])
                elif r[0] == 'exc':
                    row.append(['exc', r[1]])
                else:
                    row.append([r[0]])
            results.append(row)
        f = self.factory()
        strong, weak = [], []
        reach = []
        if f is not None:
            if f.doCache:
                for k, o in list(f.cache.items()):
                    strong.append([k, tok(o)])
            for k, r in list(f.expiredCache.items()):
                o = r()
                if o is not None:
                    weak.append([k, tok(o)])
                o = None
        # every still-referenced object reachable through the cache (tryGet)
        for o in held:
            got = self.conn.cache.tryGet(o.id, self.cls)
            reach.append([tok(o), int(o.id), (None if got is None else tok(got)), 1 if o.sqlmeta.expired else 0])
            got = None
        final = self.state()
        unfinished = [w.tid for w in self.workers if w.status != 'done']
        blocked = [w.tid for w in self.workers if w.blocked_on is not None and w.status != 'done']
        wlocks = 0
        for lk in self.locks:
            if lk.owner is not None and (f is None or lk is not f.lock):
                wlocks += 1
        obs = {'verdict': self.verdict, 'sched': self.executed, 'trace': self.trace, 'init': self.init_state,
               'results': results, 'strong': strong, 'weak': weak, 'reach': reach, 'final': final,
               'unfinished': unfinished if self.verdict != 'ok' else [], 'blocked': blocked if self.verdict != 'ok' else [],
               'wlocks_held': wlocks, 'npre': getattr(self, 'npre', 0),
               'uninit_uses': self.uninit_uses, 'sql': self.sql_log,
               'stale_expires': self.stale_expires + [x for x in self.stale_ops if x not in self.stale_expires],
               'segs': getattr(self, 'segs', [])}
        if self.harness_error:
            obs['harness_error'] = self.harness_error
        held = None
        return obs


class Hang(Exception):
    pass


def make_env(repo=None):
    """import sqlobject, patch the locks, build the fixture class, read the pause map"""
    import os
    from tools.sched import skeleton
    import sqlobject
    repo = repo or os.path.dirname(os.path.dirname(os.path.abspath(sqlobject.__file__)))
    install(None)
    try:
        pause, where = skeleton.check(repo)
        skel_error = None
    except skeleton.SkeletonMismatch as e:
        # Tie A broken: the labels are unknown; pause before every line of the modelled functions
        pause, where, skel_error = fallback_pause(repo), {}, str(e)
    from sqlobject import SQLObject, IntCol

    class VConc(SQLObject):
        a = IntCol(default=None)
    pbf = {}
    for f, m in pause.items():
        pbf[os.path.join(repo, f)] = m
    fnames = {fn for _, _, fn, _ in skeleton.METHODS}
    gc.collect()
    gc.freeze()
    from tools.sched.expected import VISIBLE
    return {'cls': VConc, 'pause_by_file': pbf, 'fnames': fnames, 'where': where, 'skel_error': skel_error,
            'repo': repo, 'visible': None if skel_error else VISIBLE}


def fallback_pause(repo):
    """every line of every modelled function body is a pause point (labels = L<line>)"""
    import ast
    import os
    from tools.sched import skeleton
    out = {}
    for f in sorted({m[0] for m in skeleton.METHODS}):
        tree = ast.parse(open(os.path.join(repo, f)).read())
        keep_all = f.endswith('cache.py')
        for cls, fn in [(m[1], m[2]) for m in skeleton.METHODS if m[0] == f]:
            node = skeleton._find(tree, cls, fn)
            if node is None:
                continue
            for st in ast.walk(node):
                if isinstance(st, (ast.stmt, ast.ExceptHandler)) and st is not node and not skeleton._is_doc(st):
                    if keep_all or _cache_relevant(st):
                        out.setdefault(f, {})[st.lineno] = ('L%d' % st.lineno, st.lineno)
    return out


def _cache_relevant(st):
    import ast
    if isinstance(st, (ast.If, ast.For, ast.While, ast.Try, ast.With, ast.ExceptHandler)):
        return False
    src = ast.unparse(st)
    return any(w in src for w in ('cache', 'Cache', '_SO_writeLock', 'queryInsertID', 'expired', '.expire(', '_SO_fetch_no_create'))


def run_case(env, case):
    t0 = time.time()
    r = Run(env, case)
    obs = r.run()
    obs['ms'] = int((time.time() - t0) * 1000)
    if env.get('skel_error'):
        obs['skeleton'] = 'mismatch'
    r.conn.close()
    r.workers = None
    return obs
