"""Deterministic line-level thread scheduler for the cache code of SQLObject (property C09)."""
