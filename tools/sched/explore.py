"""Exhaustive enumeration of the schedules of one configuration up to a preemption bound, by
stateless search on the real code: every schedule is executed from scratch; the segments of the
run tell where one more preemption can be placed."""
import itertools


def explore(env, base, bound, limit=100000):
    """base: case without 'sched'.  Returns [(sched, obs)] for every schedule with at most `bound`
    preemptions (preemption points = visible steps only)."""
    from tools.sched import sched as S
    others = list(range(1, len(base['progs'])))
    others = [t for t in others if base['progs'][t]]
    if not others:
        return []
    prios = [list(p) for p in itertools.permutations(others)] if len(others) > 2 else [others]
    work = []
    for pr in prios:
        for f in others:
            if len(others) > 2 and pr[0] != f:
                continue
            work.append({'first': f, 'pre': [], 'prio': pr})
    out = []
    while work and len(out) < limit:
        sd = work.pop(0)          # breadth first: fewer preemptions first
        case = dict(base)
        case['sched'] = sd
        obs = S.run_case(env, case)
        if obs.get('npre', 0) < len(sd['pre']):
            continue                    # the last preemption could not be placed: a duplicate
        out.append((sd, obs))
        if obs['verdict'] != 'ok' and obs['verdict'] != 'deadlock':
            continue
        if len(sd['pre']) >= bound:
            continue
        lastseg = sd['pre'][-1][0] + 1 if sd['pre'] else 0
        segs = obs.get('segs', [])
        for i in range(lastseg, len(segs)):
            t, v = segs[i]
            for n in range(1, v):
                for to in others:
                    if to != t:
                        work.append({'first': sd['first'], 'pre': sd['pre'] + [[i, n, to]], 'prio': sd['prio']})
    return out
