"""Common machinery of ./check: regenerate (Tie A), build the Coq closure,
gate the assumptions, run the correspondence (Tie B), judge the
implementation with the property's own oracle, apply the known-findings
policy, write evidence and replay files, print the verdict."""
import fcntl
import glob
import hashlib
import importlib
import json
import os
import random
import re
import shutil
import subprocess
import sys
import time

ROOT = os.path.dirname(os.path.dirname(os.path.dirname(os.path.abspath(__file__))))
COQ = os.path.join(ROOT, 'coq')
REPO = os.environ.get('VERIF_REPO', '/repo')
PY = '/venv/bin/python' if os.path.exists('/venv/bin/python') else sys.executable
NCPU = max(1, min(16, os.cpu_count() or 1))
COQ_DIRS = ['Lib', 'Gen', 'Model', 'Proofs', 'Props', 'Corr']
GATE_RE = re.compile(r'\b(Admitted|admit|Axiom|Axioms|Parameter|Parameters|Conjecture|Conjectures|'
                     r'Unset\s+Guard|bypass_check|Admit\s+Obligations|type-in-type|impredicative-set|'
                     r'Unset\s+Universe\s+Checking|Unset\s+Positivity)\b')
AXIOM_WHITELIST = {
    # stdlib axioms a proof file may rely on; each is named in DESIGN.md 1.8
    'functional_extensionality_dep', 'Eqdep.Eq_rect_eq.eq_rect_eq', 'Coq.Logic.Eqdep.Eq_rect_eq.eq_rect_eq',
    'FunctionalExtensionality.functional_extensionality_dep', 'JMeq_eq', 'JMeq.JMeq_eq',
}


def qflags():
    out = []
    for d in COQ_DIRS:
        out += ['-Q', os.path.join(COQ, d), d]
    return out


def impl_env():
    env = dict(os.environ)
    env['PYTHONPATH'] = REPO + os.pathsep + ROOT
    env['PYTHONHASHSEED'] = '0'
    env['SQLOBJECT_VERIF'] = '1'
    env['PYTHONDONTWRITEBYTECODE'] = '1'
    return env


class Lock:
    def __enter__(self):
        self.f = open(os.path.join(COQ, '.lock'), 'w')
        fcntl.flock(self.f, fcntl.LOCK_EX)
        return self

    def __exit__(self, *a):
        fcntl.flock(self.f, fcntl.LOCK_UN)
        self.f.close()


def write_coqproject():
    lines = []
    for d in COQ_DIRS:
        lines.append('-Q %s %s' % (d, d))
    files = []
    for d in COQ_DIRS:
        files += sorted(glob.glob(os.path.join(COQ, d, '*.v')))
    lines += [os.path.relpath(f, COQ) for f in files]
    text = '\n'.join(lines) + '\n'
    p = os.path.join(COQ, '_CoqProject')
    if not os.path.exists(p) or open(p).read() != text or not os.path.exists(os.path.join(COQ, 'Makefile')):
        open(p, 'w').write(text)
        subprocess.run(['coq_makefile', '-f', '_CoqProject', '-o', 'Makefile'], cwd=COQ, check=True,
                       stdout=subprocess.DEVNULL, stderr=subprocess.DEVNULL)


def regenerate_all():
    """Run every Tie A generator.  Returns {name: error or None}."""
    gens = {}
    try:
        m = json.load(open(os.path.join(ROOT, 'MANIFEST.json')))
        for c in m.get('checks', []):
            P = importlib.import_module('tools.props.%s' % c['property_id'].lower())
            gens.update(getattr(P, 'GENERATORS', {}))
    except (OSError, ValueError, ImportError) as e:
        print('regenerate: cannot read the registered checks: %s' % e)
    res = {}
    for name, mod in sorted(gens.items()):
        res[name] = regenerate(mod, name)
    return res


def regenerate(modname, name):
    from tools.py2coq.core import Unsupported
    mod = importlib.import_module(modname)
    dest = os.path.join(COQ, 'Gen', name + '.v')
    try:
        mod.main(REPO, dest)
        return None
    except Unsupported as e:
        return 'Unsupported: %s' % e
    except (SyntaxError, OSError, KeyError, AssertionError, ValueError, AttributeError, IndexError) as e:
        return '%s: %s' % (type(e).__name__, e)


def make(targets, timeout=1500):
    """make the given .vo targets; returns (ok, output)"""
    write_coqproject()
    cmd = ['make', '-j%d' % NCPU, '-k'] + targets
    try:
        p = subprocess.run(cmd, cwd=COQ, stdout=subprocess.PIPE, stderr=subprocess.STDOUT,
                           text=True, timeout=timeout)
        return p.returncode == 0, p.stdout
    except subprocess.TimeoutExpired as e:
        return False, 'TIMEOUT after %ss\n%s' % (timeout, e.stdout or '')


ERR_RE = re.compile(r'File "\./?([^"]+)", line (\d+), characters [\d-]+:\s*\n\s*Error:([^\n]*(?:\n(?!File|make|COQC)[^\n]*){0,6})')
DECL_RE = re.compile(r'^\s*(?:Local\s+|Global\s+)?(Lemma|Theorem|Corollary|Example|Fact|Remark|Proposition|Definition|Fixpoint|Instance)\s+([A-Za-z0-9_\']+)')


def parse_errors(out):
    errs = []
    for m in ERR_RE.finditer(out):
        f, line, msg = m.group(1), int(m.group(2)), ' '.join(m.group(3).split())
        name = None
        try:
            src = open(os.path.join(COQ, f)).read().split('\n')
            for i in range(min(line, len(src)) - 1, -1, -1):
                mm = DECL_RE.match(src[i])
                if mm:
                    name = mm.group(2)
                    break
        except OSError:
            pass
        errs.append({'file': f, 'line': line, 'in': name, 'error': msg[:400]})
    return errs


def count_obligations(vfile):
    """Lemmas/theorems proved in the transitive closure of a .v file (by its From ... Require lines)."""
    seen, todo, n, names = set(), [vfile], 0, []
    while todo:
        f = todo.pop()
        if f in seen or not os.path.exists(os.path.join(COQ, f)):
            continue
        seen.add(f)
        src = open(os.path.join(COQ, f)).read()
        for m in re.finditer(r'^\s*(?:Local\s+)?(Lemma|Theorem|Corollary|Example|Fact|Remark|Proposition)\s+([A-Za-z0-9_\']+)', src, re.M):
            n += 1
            names.append(m.group(2))
        for m in re.finditer(r'From\s+(Lib|Gen|Model|Proofs|Props|Corr)\s+Require\s+(?:Import|Export)?\s*([^.]*)\.', src):
            for mod in m.group(2).split():
                todo.append('%s/%s.v' % (m.group(1), mod))
    return n, names, sorted(seen)


def print_assumptions(props_v):
    """Compile Props/Cxx.v on its own and parse every Print Assumptions block."""
    p = subprocess.run(['coqc'] + qflags() + [props_v], cwd=COQ, stdout=subprocess.PIPE,
                       stderr=subprocess.STDOUT, text=True, timeout=900)
    src = open(os.path.join(COQ, props_v)).read()
    asked = re.findall(r'^\s*Print Assumptions\s+([A-Za-z0-9_\']+)\s*\.', src, re.M)
    theorems = re.findall(r'^\s*Theorem\s+([A-Za-z0-9_\']+)', src, re.M)
    out = p.stdout
    blocks = []
    # each block is either "Closed under the global context" or "Axioms:\n name : type ..."
    for m in re.finditer(r'(Closed under the global context)|(Axioms:\n(?:(?!Closed under|Axioms:).*\n?)*)', out):
        if m.group(1):
            blocks.append([])
        else:
            names = re.findall(r'^([A-Za-z0-9_\.\']+)\s*:', m.group(2), re.M)
            blocks.append(names)
    problems = []
    if p.returncode != 0:
        problems.append('coqc %s failed: %s' % (props_v, out[-600:]))
    missing = [t for t in theorems if t not in asked]
    if missing:
        problems.append('theorems without Print Assumptions: %s' % missing)
    if len(blocks) != len(asked):
        problems.append('expected %d Print Assumptions blocks, saw %d' % (len(asked), len(blocks)))
    axioms = {}
    for t, b in zip(asked, blocks):
        axioms[t] = b
        bad = [a for a in b if a not in AXIOM_WHITELIST and a.split('.')[-1] not in AXIOM_WHITELIST]
        if bad:
            problems.append('%s depends on non-whitelisted axioms %s' % (t, bad))
    # every Theorem must end in `exact`
    for m in re.finditer(r'Theorem\s+([A-Za-z0-9_\']+)(.*?)Qed\.', src, re.S):
        body = m.group(2)
        pm = re.search(r'Proof\.(.*)$', body, re.S)
        if not pm or not re.fullmatch(r'\s*exact\s+[^.]*(?:\.[^.\s][^.]*)*\.\s*', pm.group(1), re.S):
            problems.append('theorem %s is not closed by a single `exact`' % m.group(1))
    return {'theorems': theorems, 'asked': asked, 'axioms': axioms, 'problems': problems}


def coqchk(props_v, timeout=1500):
    """thorough tier: re-check the compiled closure with the independent checker and read its context summary"""
    mod = 'Props.' + os.path.basename(props_v)[:-2]
    try:
        p = subprocess.run(['coqchk', '-o', '-silent'] + qflags() + [mod], cwd=COQ, stdout=subprocess.PIPE,
                           stderr=subprocess.STDOUT, text=True, timeout=timeout)
    except subprocess.TimeoutExpired:
        return {'ran': True, 'ok': None, 'note': 'coqchk timed out after %ss' % timeout}
    out = p.stdout
    res = {'ran': True, 'exit': p.returncode}
    for key, label in (('axioms', 'Axioms'), ('type_in_type', 'Constants/Inductives relying on type-in-type'),
                       ('unsafe_fix', 'Constants/Inductives relying on unsafe (co)fixpoints'),
                       ('positivity', 'Inductives whose positivity is assumed')):
        m = re.search(r'\* ' + re.escape(label) + r':\s*(.*?)(?=\n\s*\n\*|\Z)', out, re.S)
        res[key] = ' '.join(m.group(1).split()) if m else 'not reported'
    res['ok'] = p.returncode == 0 and all(res[k] == '<none>' for k in ('axioms', 'type_in_type', 'unsafe_fix', 'positivity'))
    if not res['ok']:
        res['tail'] = out[-600:]
    return res


def grep_gate(files):
    hits = []
    for f in files:
        try:
            src = open(os.path.join(COQ, f)).read()
        except OSError:
            continue
        # strip comments (non-nested is enough: we never write nested comments with gate words)
        body = re.sub(r'\(\*.*?\*\)', ' ', src, flags=re.S)
        for m in GATE_RE.finditer(body):
            hits.append('%s: %s' % (f, m.group(0)))
    return hits


class WorkDir:
    def __enter__(self):
        self.path = os.path.join(ROOT, '.work', '%d_%d' % (os.getpid(), int(time.time() * 1000) % 100000))
        os.makedirs(self.path, exist_ok=True)
        return self.path

    def __exit__(self, *a):
        shutil.rmtree(self.path, ignore_errors=True)


def run_impl(plugin_mod, cases, work, timeout=1500, nproc=None, per_shard=None):
    """Run the implementation on the cases in parallel subprocesses.
    Returns list of observations (or {'crash': msg} entries)."""
    if not cases:
        return []
    nproc = nproc or NCPU
    shards = [[] for _ in range(min(nproc, max(1, len(cases))))]
    for i, c in enumerate(cases):
        shards[i % len(shards)].append((i, c))
    procs = []
    for k, sh in enumerate(shards):
        fin = os.path.join(work, 'impl_in_%d.json' % k)
        fout = os.path.join(work, 'impl_out_%d.json' % k)
        json.dump([c for _, c in sh], open(fin, 'w'))
        p = subprocess.Popen([PY, '-m', 'tools.vlib.implrun', plugin_mod, fin, fout],
                             cwd=ROOT, env=impl_env(), stdout=subprocess.PIPE, stderr=subprocess.STDOUT, text=True)
        procs.append((k, sh, p, fout))
    obs = [None] * len(cases)
    deadline = time.time() + timeout
    for k, sh, p, fout in procs:
        try:
            out, _ = p.communicate(timeout=max(1, deadline - time.time()))
        except subprocess.TimeoutExpired:
            p.kill()
            out = 'TIMEOUT'
        res = None
        if os.path.exists(fout):
            try:
                res = json.load(open(fout))
            except ValueError:
                res = None
        if res is None or len(res) != len(sh):
            for (i, _) in sh:
                obs[i] = {'crash': (out or '')[-800:]}
        else:
            for (i, _), r in zip(sh, res):
                obs[i] = r
    return obs


def run_coq_cases(header, ctype, agree, terms, work, shard=400, timeout=1200):
    """Evaluate `agree` on every case term inside Coq (vm_compute).
    Returns (bad_indices, errors)."""
    if not terms:
        return [], []
    files = []
    for k in range(0, len(terms), shard):
        f = os.path.join(work, 'cases_%d.v' % (k // shard))
        with open(f, 'w') as fh:
            fh.write(header + '\n')
            fh.write('Definition cases : list %s := [\n' % ctype)
            fh.write(';\n'.join(terms[k:k + shard]))
            fh.write('\n].\nEval vm_compute in (bad_indices %s cases).\n' % agree)
        files.append((k, f))
    bad, errors = [], []
    running = []
    pending = list(files)

    def reap(k, f, p):
        try:
            out, _ = p.communicate(timeout=timeout)
        except subprocess.TimeoutExpired:
            p.kill()
            errors.append('coqc timeout on %s' % os.path.basename(f))
            return
        # the answer is the last thing coqc prints: "= [i; j; ...]%nat : list nat" (never scan a huge error message with a
        # backtracking pattern: a failing shard can echo megabytes of case terms)
        body = None
        if p.returncode == 0:
            tail = out[-200000:]
            end = tail.rfind(': list nat')
            start = tail.rfind('= [', 0, end) if end >= 0 else -1
            if start >= 0:
                close = tail.rfind(']', start, end)
                if close > start:
                    body = tail[start + 3:close]
        if body is None:
            msg = out[-500:] if len(out) < 4000 else out[:600] + ' ... ' + out[-400:]
            errors.append('coqc failed on %s: %s' % (os.path.basename(f), msg))
            return
        for x in re.findall(r'\d+', body):
            bad.append(k + int(x))

    while pending or running:
        while pending and len(running) < NCPU:
            k, f = pending.pop(0)
            p = subprocess.Popen('ulimit -s unlimited 2>/dev/null; exec coqc %s -w none %s' % (
                ' '.join(qflags()), f), shell=True, cwd=work, stdout=subprocess.PIPE,
                stderr=subprocess.STDOUT, text=True)
            running.append((k, f, p))
        k, f, p = running.pop(0)
        reap(k, f, p)
    return sorted(bad), errors


def load_findings(prop):
    p = os.path.join(ROOT, 'KNOWN_FINDINGS.json')
    if not os.path.exists(p):
        return []
    data = json.load(open(p))
    out = [f for f in data.get('findings', []) if f.get('property') == prop]
    # per-property files written while a check is being built (merged into KNOWN_FINDINGS.json on integration)
    q = os.path.join(ROOT, 'findings', prop + '.json')
    if os.path.exists(q):
        ids = {f['id'] for f in out}
        out += [f for f in json.load(open(q)).get('findings', []) if f.get('property') == prop and f['id'] not in ids]
    return out


def fingerprint(paths):
    """ast-normalised hash of source files (reported in evidence)"""
    import ast
    out = {}
    for rel in paths:
        try:
            src = open(os.path.join(REPO, rel)).read()
            out[rel] = hashlib.sha256(ast.dump(ast.parse(src)).encode()).hexdigest()[:16]
        except (OSError, SyntaxError) as e:
            out[rel] = 'unreadable: %s' % type(e).__name__
    return out


def write_json(path, obj):
    os.makedirs(os.path.dirname(path), exist_ok=True)
    tmp = path + '.tmp%d' % os.getpid()
    with open(tmp, 'w') as f:
        json.dump(obj, f, indent=1, sort_keys=True, default=str)
    os.replace(tmp, path)


def registered_targets():
    """the .vo targets of every check registered in MANIFEST.json"""
    targets = []
    try:
        m = json.load(open(os.path.join(ROOT, 'MANIFEST.json')))
        for c in m.get('checks', []):
            P = importlib.import_module('tools.props.%s' % c['property_id'].lower())
            targets += [P.CORR_VO, P.PROPS_VO]
    except (OSError, ValueError, ImportError) as e:
        print('setup: cannot read the registered checks (%s); building everything' % e)
        return ['all']
    return targets or ['all']


def setup():
    t0 = time.time()
    os.makedirs(os.path.join(ROOT, 'evidence'), exist_ok=True)
    with Lock():
        regen = regenerate_all()
        write_coqproject()
        ok, out = make(registered_targets(), timeout=3000)
    print('regenerate:', {k: (v or 'ok') for k, v in regen.items()})
    if not ok:
        print(out[-4000:])
        print('SETUP FAILED')
        return 1
    print('setup ok in %.1fs' % (time.time() - t0))
    return 0


def run_check(plugin_mod, tier, replay=None):
    """The verdict logic of DESIGN.md 1.5."""
    t0 = time.time()
    P = importlib.import_module(plugin_mod)
    prop = P.PROP
    seed = int(os.environ.get('VERIF_SEED', '0') or 0)
    rng = random.Random(seed * 1000003 + 17)
    broken = []        # list of dicts {kind, detail}
    info = {}

    if replay:
        return run_replay(P, replay)

    with Lock():
        # ---- Tie A
        for name, modname in getattr(P, 'GENERATORS', {}).items():
            err = regenerate(modname, name)
            if err:
                broken.append({'kind': 'tie-A', 'what': 'Gen/%s.v cannot be regenerated from %s' % (name, REPO),
                               'detail': err})
        # ---- build model + correspondence file first (no proofs inside), then the proofs
        ok_corr, out_corr = make([P.CORR_VO])
        if not ok_corr:
            broken.append({'kind': 'model', 'what': '%s does not compile' % P.CORR_VO,
                           'detail': parse_errors(out_corr) or out_corr[-800:]})
        ok_props, out_props = make([P.PROPS_VO])
        if not ok_props:
            errs = parse_errors(out_props)
            broken.append({'kind': 'proof', 'what': 'proof obligation no longer checks: %s' % (
                ', '.join(sorted({'%s (%s)' % (e['in'], e['file']) for e in errs})) or P.PROPS_VO),
                'detail': errs or out_props[-800:]})
        props_v = P.PROPS_VO[:-1]
        nobl, names, closure = count_obligations(props_v)
        pa = {'theorems': [], 'axioms': {}, 'problems': []}
        if ok_props:
            pa = print_assumptions(props_v)
            for pr in pa['problems']:
                broken.append({'kind': 'assumptions', 'what': pr, 'detail': pr})
        chk = {'ran': False}
        if ok_props and tier == 'thorough' and not os.environ.get('VERIF_NO_COQCHK'):
            chk = coqchk(props_v)
            if chk.get('ok') is False:
                broken.append({'kind': 'coqchk', 'what': 'coqchk does not accept the closure of %s or reports axioms' % props_v,
                               'detail': chk})
        gate = grep_gate(closure + [P.CORR_VO[:-1]])
        for g in gate:
            broken.append({'kind': 'gate', 'what': 'forbidden construct ' + g, 'detail': g})

    info['obligations'] = nobl
    if ok_props:
        info['discharged'] = nobl
    else:
        # count the lemmas of the closure files that did compile on this run
        done = 0
        for f in closure:
            v, vo = os.path.join(COQ, f), os.path.join(COQ, f[:-2] + '.vo')
            if os.path.exists(vo) and os.path.getmtime(vo) >= os.path.getmtime(v):
                done += len(re.findall(r'^\s*(?:Local\s+)?(?:Lemma|Theorem|Corollary|Example|Fact|Remark|Proposition)\s', open(v).read(), re.M))
        info['discharged'] = min(done, max(0, nobl - 1))

    with WorkDir() as work:
        # ---- cases: corpus + known-finding witnesses first, then generated
        cases = list(P.corpus()) if hasattr(P, 'corpus') else []
        ncorpus = len(cases)
        cases += P.generate(rng, tier)
        obs = run_impl(plugin_mod, cases, work, timeout=getattr(P, 'IMPL_TIMEOUT', 1500))
        crashes = [i for i, o in enumerate(obs) if isinstance(o, dict) and 'crash' in o]
        if crashes:
            broken.append({'kind': 'harness', 'what': 'the implementation run aborted on %d cases' % len(crashes),
                           'detail': obs[crashes[0]]['crash']})
        live = [i for i in range(len(cases)) if i not in set(crashes)]

        # ---- Tie B: the model evaluated inside Coq on the same cases
        disagreements, coq_errors = [], []
        if ok_corr and live:
            terms = [P.coq_case(cases[i], obs[i]) for i in live]
            bad, coq_errors = run_coq_cases(P.COQ_HEADER, P.COQ_CASE_TYPE, P.COQ_AGREE, terms, work,
                                             shard=getattr(P, 'COQ_SHARD', 400))
            disagreements = [live[j] for j in bad]
            for e in coq_errors:
                broken.append({'kind': 'tie-B', 'what': 'correspondence could not be evaluated', 'detail': e})
            if disagreements:
                i = min(disagreements, key=lambda i: len(json.dumps(cases[i])))
                broken.append({'kind': 'tie-B', 'what': 'model and implementation disagree on %d of %d cases'
                               % (len(disagreements), len(live)),
                               'detail': {'case': cases[i], 'observed': obs[i],
                                          'explain': P.explain(cases[i], obs[i]) if hasattr(P, 'explain') else None}})

        # ---- the property's own oracle on the implementation
        failures = []
        for i in live:
            f = P.oracle(cases[i], obs[i])
            if f:
                failures.append((i, f))
        # a broken proof or tie starts a wider search on the implementation
        searched = 0
        if broken and not failures and hasattr(P, 'search_cases'):
            extra = P.search_cases(rng, tier)
            searched = len(extra)
            eobs = run_impl(plugin_mod, extra, work, timeout=600)
            for c, o in zip(extra, eobs):
                if isinstance(o, dict) and 'crash' in o:
                    continue
                f = P.oracle(c, o)
                if f:
                    cases.append(c)
                    obs.append(o)
                    failures.append((len(cases) - 1, f))

    findings = load_findings(prop)
    open_findings = [f for f in findings if f.get('status') == 'open']
    known_hits, unknown = {}, []
    for i, f in failures:
        fid = P.classify(cases[i], obs[i], f) if hasattr(P, 'classify') else None
        if fid and any(k['id'] == fid for k in open_findings):
            known_hits.setdefault(fid, []).append(i)
        else:
            unknown.append((i, f))

    # ---- evidence
    keys = set()
    nontrivial = 0
    for i in live:
        k = json.dumps(P.key(cases[i]) if hasattr(P, 'key') else cases[i], sort_keys=True, default=str)
        if k in keys:
            continue
        keys.add(k)
        if P.nontrivial(cases[i], obs[i]):
            nontrivial += 1
    samples = [{'case': cases[i], 'observed': obs[i]} for i in live[ncorpus:ncorpus + 3]] or \
              [{'case': cases[i], 'observed': obs[i]} for i in live[:3]]
    trusted = list(P.TRUSTED_BASE)
    axioms_used = sorted({a for v in pa['axioms'].values() for a in v})
    coverage = {
        'obligations': max(1, info['obligations']),
        'discharged': info['discharged'],
        'checker_cmd': 'cd coq && make %s && coqc %s  (Print Assumptions under every theorem)' % (P.PROPS_VO, props_v),
        'trusted_base': trusted + ['axioms reported by Print Assumptions: %s' % (axioms_used or 'none (closed under the global context)')],
        'theorems': pa['theorems'],
        'lemmas_in_closure': names,
        'closure_files': closure,
        'evaluations': max(1, len(live)),
        'distinct_nontrivial': nontrivial,
        'rule': P.RULE,
        'samples': samples or [{'note': 'no case could be run'}],
        'traces_validated_against_impl': len(live) - len(disagreements),
        'disagreements_checked': len(disagreements),
        'programs': len(live),
        'exhaustive': bool(getattr(P, 'EXHAUSTIVE', {}).get(tier, False)),
        'distribution': P.distribution(cases, obs) if hasattr(P, 'distribution') else {},
        'tie_a_generated': sorted(getattr(P, 'GENERATORS', {}).keys()),
        'source_fingerprints': fingerprint(getattr(P, 'SOURCES', [])),
        'broken': broken,
        'oracle_failures': len(failures),
        'known_finding_hits': {k: len(v) for k, v in known_hits.items()},
        'search_cases': searched,
        'explanation': P.EXPLANATION,
        'coqchk': chk,
    }
    ev = {'property_id': prop, 'tier': tier, 'seed': seed, 'level': 'proof', 'coverage': coverage,
          'assumptions': trusted, 'wall_s': round(time.time() - t0, 2),
          'violations': len(unknown) + (1 if (broken and not unknown) else 0)}
    write_json(os.path.join(ROOT, 'evidence', prop + '.json'), ev)

    # ---- verdict
    for k in open_findings:
        if k['id'] in known_hits:
            print('KNOWN-FINDING: property=%s %s [%s; %d case(s) this run]' % (prop, k['what'], k['id'], len(known_hits[k['id']])))
        elif k.get('witness_script'):
            # a finding the generated cases do not reach: its standalone witness (exit 1 = the defect shows, 0 = it does not)
            # is run against the tree under test
            try:
                r = subprocess.run(['/venv/bin/python', os.path.join(ROOT, k['witness_script'])], env=impl_env(), cwd=ROOT,
                                   stdout=subprocess.PIPE, stderr=subprocess.STDOUT, text=True, timeout=120)
                rc = r.returncode
            except subprocess.TimeoutExpired:
                rc = 1
            if rc == 1:
                print('KNOWN-FINDING: property=%s %s [%s; standalone witness %s reproduces]' % (prop, k['what'], k['id'], k['witness_script']))
    print('%s tier=%s seed=%d cases=%d nontrivial=%d obligations=%d/%d disagreements=%d oracle_failures=%d wall=%.1fs' % (
        prop, tier, seed, len(live), nontrivial, info['discharged'], info['obligations'], len(disagreements),
        len(failures), time.time() - t0))
    if unknown:
        i, f = min(unknown, key=lambda x: len(json.dumps(cases[x[0]], default=str)))
        case, ob, shrunk = cases[i], obs[i], None
        if hasattr(P, 'shrink'):
            # minimise the failing case (the plugin re-runs candidates on the implementation and keeps one only while
            # its oracle still reports a failure that no open finding explains)
            try:
                with WorkDir() as work:
                    res = P.shrink(case, lambda cs: run_impl(plugin_mod, cs, work, timeout=300))
                if res:
                    shrunk = {'from_operations': len(case.get('ops', [])) if isinstance(case, dict) else None}
                    case, ob, f = res
            except Exception as e:  # noqa  (a failing shrinker must never hide the violation)
                shrunk = {'error': '%s: %s' % (type(e).__name__, e)}
        rp = os.path.join(ROOT, 'replays', '%s_%s_%d.json' % (prop, tier, seed))
        write_json(rp, {'property': prop, 'kind': getattr(P, 'REPLAY_KIND', 'input'), 'case': case,
                        'observed': ob, 'failure': f, 'seed': seed, 'plugin': plugin_mod, 'shrunk': shrunk,
                        'also_broken': broken, 'other_failures': len(unknown) - 1})
        print('VIOLATION property=%s replay=%s' % (prop, rp))
        return 1
    # a repaired finding that no generated case reaches keeps its standalone script as a regression test: exit 1 = the defect
    # is back (a fixed entry suppresses nothing)
    for k in findings:
        if str(k.get('status', '')).startswith('fixed') and k.get('regression_script'):
            try:
                r = subprocess.run(['/venv/bin/python', os.path.join(ROOT, k['regression_script'])], env=impl_env(), cwd=ROOT,
                                   stdout=subprocess.PIPE, stderr=subprocess.STDOUT, text=True, timeout=120)
                rc, outtxt = r.returncode, r.stdout[-2000:]
            except subprocess.TimeoutExpired:
                rc, outtxt = 1, 'timed out'
            if rc == 1:
                rp = os.path.join(ROOT, 'replays', '%s_%s_%d_regression.json' % (prop, tier, seed))
                write_json(rp, {'property': prop, 'kind': 'input', 'case': {'script': k['regression_script']}, 'observed': outtxt,
                                'failure': {'what': 'the repaired defect %s is back: %s' % (k['id'], k['what'])}, 'seed': seed,
                                'plugin': plugin_mod, 'also_broken': broken})
                print('VIOLATION property=%s replay=%s' % (prop, rp))
                return 1
    if broken:
        rp = os.path.join(ROOT, 'replays', '%s_%s_%d_unchecked.json' % (prop, tier, seed))
        write_json(rp, {'property': prop, 'kind': 'unchecked-obligation', 'broken': broken, 'seed': seed,
                        'plugin': plugin_mod,
                        'note': 'no failing input was found on the implementation (%d cases + %d search cases judged by the oracle); '
                                'the theorem / generated definition / correspondence named here no longer checks' % (len(live), searched)})
        for b in broken[:5]:
            print('BROKEN %s: %s' % (b['kind'], b['what']))
        print('VIOLATION property=%s replay=%s no-failing-input-found' % (prop, rp))
        return 1
    return 0


def run_replay(P, path):
    data = json.load(open(path))
    if data.get('kind') == 'unchecked-obligation':
        print(json.dumps(data, indent=1))
        return 1
    with WorkDir() as work:
        obs = run_impl(data.get('plugin') or P.__name__, [data['case']], work)
    f = P.oracle(data['case'], obs[0]) if not ('crash' in obs[0]) else {'crash': obs[0]}
    print(json.dumps({'case': data['case'], 'observed': obs[0], 'failure': f}, indent=1, default=str))
    if f:
        print('VIOLATION property=%s replay=%s' % (P.PROP, path))
        return 1
    print('replay passes: the property holds on this case')
    return 0
