"""Runs one shard of cases on the real implementation (/repo) in its own
process: python -m tools.vlib.implrun <plugin module> <cases.json> <out.json>"""
import importlib
import json
import sys
import warnings


def main():
    warnings.simplefilter('ignore')
    mod, fin, fout = sys.argv[1:4]
    P = importlib.import_module(mod)
    cases = json.load(open(fin))
    out = P.run_impl(cases)
    json.dump(out, open(fout, 'w'), default=str)


if __name__ == '__main__':
    main()
