"""debug helper: run N random histories, report disagreements with the first differing step"""
import json, os, random, subprocess, sys
sys.path.insert(0, '/verif')
from tools.vlib import core
from tools.props import ormlib

PROFILE = {'weights': {'create': 10, 'get': 10, 'select': 8, 'byalt': 4, 'read': 12, 'setattr': 12, 'set': 10, 'syncupdate': 5,
                       'sync': 4, 'expire': 5, 'destroy': 5, 'drop': 8, 'cull': 3, 'expireall': 2, 'clear': 1, 'pickle': 3,
                       'unpickle': 3, 'rawupdate': 2, 'rawdelete': 1}, 'p_fault': 0.05}

def main(n, length, seed):
    rng = random.Random(seed)
    cases = [ormlib.gen_history(rng, PROFILE, rng.randint(3, length)) for _ in range(n)]
    with core.WorkDir() as work:
        obs = core.run_impl('tools.props.ormlib', cases, work)
        crashes = [o for o in obs if 'crash' in o]
        print('crashes', len(crashes), crashes[:2])
        live = [i for i, o in enumerate(obs) if 'crash' not in o]
        terms = [ormlib.coq_case(cases[i], obs[i]) for i in live]
        bad, errs = core.run_coq_cases(ormlib.COQ_HEADER, 'case', 'agree', terms, work, shard=100)
        print('cases', len(live), 'bad', len(bad), 'errors', errs[:1])
        for j in bad[:3]:
            i = live[j]
            f = os.path.join(work, 'dbg.v')
            open(f, 'w').write(ormlib.COQ_HEADER + '\nDefinition c := %s.\nEval vm_compute in (first_bad (c_cfg c) init (c_steps c) 0).\n' % terms[j])
            out = subprocess.run(['coqc'] + core.qflags() + ['-w', 'none', f], cwd=work, capture_output=True, text=True).stdout
            import re
            m = re.search(r'Some (\d+)', out)
            k = int(m.group(1)) if m else None
            print('--- case', i, 'cfg', cases[i]['cfg'], 'first bad step', k)
            if k is not None:
                ops = cases[i]['ops'][:k + 1]
                print('ops', json.dumps(ops))
                print('impl obs', json.dumps(obs[i]['steps'][k]))
                opsterm = '[%s]' % '; '.join(ormlib.cop(o) for o in ops)
                cfg = cases[i]['cfg']
                open(f, 'w').write(ormlib.COQ_HEADER + '\nEval vm_compute in (last (model_trace {| doCache := %s; cullFreq := %d; cullFrac := %d |} init %s) (observe (Raise EBadHandle) init)).\n' % ('true' if cfg['cache'] else 'false', cfg['freq'], cfg['frac'], opsterm))
                out = subprocess.run(['coqc'] + core.qflags() + ['-w', 'none', f], cwd=work, capture_output=True, text=True).stdout
                print('model obs', ' '.join(out.split())[:1500])

if __name__ == '__main__':
    main(int(sys.argv[1]), int(sys.argv[2]), int(sys.argv[3]))
