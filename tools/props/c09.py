"""C09 -- the instance cache is thread-safe under every (line-atomic) interleaving.

A case = thread programs + one schedule.  The deterministic scheduler
(tools/sched) drives real threads of the real code through the schedule; the
same schedule is replayed on the Coq model (Corr/C09.v).  Schedules are
enumerated exhaustively up to a preemption bound by stateless search on the
code under test (tools/sched/explore.py), then drawn at random."""
import itertools
import json
import os
import subprocess
import sys

PROP = 'C09'
PROPS_VO = 'Props/C09.vo'
CORR_VO = 'Corr/C09.vo'
GENERATORS = {'CacheConc': 'tools.py2coq.gen_cacheconc'}
SOURCES = ['sqlobject/cache.py', 'sqlobject/main.py']
COQ_HEADER = '''From Coq Require Import List ZArith Bool. Import ListNotations.
From Lib Require Import CorrLib. From Model Require Import CacheConc. From Corr Require Import C09.
Definition T := Build_tstep. Definition O := Build_obsstate. Definition N_ := @None obsstate.'''
COQ_CASE_TYPE = 'case'
COQ_AGREE = 'agree'
COQ_SHARD = 150
REPLAY_KIND = 'schedule'
IMPL_TIMEOUT = 2400
EXHAUSTIVE = {'quick': False, 'thorough': True}    # quick explores some pairs at bound 1 only
RULE = ('a case = the mode of the connection (cache=True / cache=False) + the programs of 2-3 threads (operations get-hit / get-miss / '
        'get of a missing row / first use of the class / create / expire of a held instance / expireAll (cache level and sqlmeta level) / '
        'cull triggered through the counters; cache=False: hit through a live weak entry, dead weak entry, miss) after a '
        'sequential set-up program, plus ONE schedule.  Schedules: for every pair of operations in every set-up world, ALL schedules '
        'with at most 2 preemptions (quick; 3 for the core operations in thorough), found by stateless search on the code under test '
        '(preemption points = statements that touch shared state; other statements commute); 3 threads at bound 1; then seeded random '
        'schedules over longer programs.  Non-trivial = at least one context switch between two unfinished threads; distinct = distinct '
        '(programs, executed schedule).')
EXPLANATION = ('Theorems of Props/C09.v over the interleaving semantics Model/CacheConc.v (one transition per source statement; the `cache` '
               'option of the connection is a parameter of the model and universally quantified in the C09_*_modes_* theorems); the '
               'program-point table is tied to cache.py/main.py by the statement skeleton extracted with ast on this run '
               '(tools/sched/skeleton.py, Gen/CacheConc.v); correspondence: every schedule executed on real threads by the deterministic '
               'scheduler is replayed on the model inside Coq and compared after every step; the oracle judges the real run alone.')
TRUSTED_BASE = [
    'Coq 8.16.1 kernel + vm_compute (witnesses, correspondence); no native_compute',
    'Model/CacheConc.v is hand-written after cache.py / main.py; tied to the code by (A-lite) the statement skeleton of every modelled '
    'method, extracted with ast from the tree under test and compared with tools/sched/expected.py on every run, and (B) the replay '
    'of every executed schedule with comparison of program point, lock owner, dict keys, weak liveness and cull counters after every step',
    'line-atomic interleavings only: a thread switch happens between two source statements of the modelled methods, never inside one '
    '(no bytecode-level preemption); database statements (_init SELECT, INSERT) are single steps',
    'garbage collection = immediate CPython reference counting; weak reference callbacks are not used by the code; OS scheduling is not exhibited',
    'the proved theorems (C09_*_partial) cover every operation of the model (get: hit / miss / missing row / first use; create; '
    'expire of a held instance; cull triggered through the counters; CacheFactory.expireAll; sqlmeta.expireAll; forgetting a result) for '
    'any number of threads, programs and schedules, under the guard of Model/CacheConcSpec.v, which excludes one kind of step: the write '
    'of created() (line K181; K183 when caching is off) when the cache already has an entry for the new id (open finding '
    'created_overwrites_get_miss), and expire() of an instance whose constructor has not returned (open finding created_publishes_uninitialised_instance)',
    'both modes of the connection are modelled, replayed and covered by the theorems (C09_*_modes_*); for cache=False the guard carries ONE '
    'unproved assumption: when get deletes a weak entry (line F142) the entry the lock holder saw dead at line F137 is still there and '
    'still dead (true in the model: only the lock holder writes the weak dict and a dead referent never comes back; checked by the replay '
    'on every executed step; not proved)',
    '__setstate__ (unpickling), destroySelf (cache.purge), sync and _SO_loadValue are outside the operation list',
    'CPython dict iteration over a dict modified without a change of size is not modelled (such runs are counted, not compared)',
    'the scheduler tools/sched (sys.settrace line hook, cooperative lock patched into sqlobject.cache/sqlobject.main) and this harness',
    'completeness of the exhaustive enumeration rests on: statements not marked visible in tools/sched/expected.py touch no shared state',
]

ROOT = os.path.dirname(os.path.dirname(os.path.dirname(os.path.abspath(__file__))))

# ---------------------------------------------------------------- configurations
CFG = {'freq': 100, 'frac': 2}
CFG_CULL = {'freq': 0, 'frac': 2}
CFG_NC = {'cache': 0, 'freq': 100, 'frac': 2}       # connection with ?cache=0: CacheFactory.doCache False

WORLDS = {
    # name: (rows, cfg, set-up program)
    'fresh': ([1, 2], CFG, []),
    'strong': ([1, 2, 3], CFG, [['get', 1], ['get', 2]]),
    'weak': ([1, 2, 3], CFG, [['get', 1], ['get', 2], ['xall']]),
    'weakdead': ([1, 2, 3], CFG, [['get', 1], ['get', 2], ['xall'], ['drop', [0, 0]]]),
    'unheld': ([1, 2, 3], CFG, [['get', 1], ['get', 2], ['drop', [0, 1]]]),
    'cull': ([1, 2, 3], CFG_CULL, [['get', 1], ['get', 2], ['get', 3]]),
    # cache=False: nothing cached yet / two live weak entries (held by the set-up thread) / one dead and one live entry
    'nc_fresh': ([1, 2], CFG_NC, []),
    'nc_held': ([1, 2, 3], CFG_NC, [['get', 1], ['get', 2]]),
    'nc_dead': ([1, 2, 3], CFG_NC, [['get', 1], ['get', 2], ['drop', [0, 0]]]),
}
OPS = {
    'get1': ['get', 1], 'get2': ['get', 2], 'get3': ['get', 3], 'get9': ['get', 9], 'getnew': None,
    'create': ['create'], 'exp0': ['expire', [0, 0]], 'exp1': ['expire', [0, 1]], 'exp2': ['expire', [0, 2]],
    'xall': ['xall'], 'mexall': ['mexall'],
}
WORLD_OPS = {
    'fresh': ['get1', 'get9', 'create', 'getnew', 'xall', 'mexall'],
    'strong': ['get1', 'get3', 'get9', 'create', 'getnew', 'exp0', 'xall', 'mexall'],
    'weak': ['get1', 'get3', 'create', 'exp0', 'xall', 'mexall'],
    'weakdead': ['get1', 'get2', 'create', 'exp1', 'xall', 'mexall'],
    'unheld': ['get2', 'get3', 'create', 'xall', 'mexall'],
    'cull': ['get1', 'get3', 'get9', 'create', 'exp0', 'exp2', 'xall'],
    'nc_fresh': ['get1', 'get9', 'create', 'getnew', 'xall', 'mexall'],
    'nc_held': ['get1', 'get3', 'create', 'getnew', 'exp0', 'mexall'],
    'nc_dead': ['get1', 'get2', 'create', 'exp1', 'mexall'],
}


THOROUGH_B3 = {'get1', 'get3', 'get9', 'getnew', 'create', 'exp0'}
QUICK_B2 = {   # the pairs explored at bound 2 in the quick tier for these worlds (the others at bound 1; thorough: all at 3)
    'cull': {('get1', 'get3'), ('get3', 'create'), ('create', 'exp0'), ('get1', 'xall'), ('get1', 'exp2')},
    'weakdead': {('get1', 'get1'), ('get1', 'get2'), ('get1', 'exp1'), ('get1', 'xall')},
    'unheld': {('get2', 'get2'), ('get2', 'xall'), ('xall', 'xall'), ('create', 'xall')},
    'nc_fresh': {('get1', 'get1'), ('get1', 'create'), ('create', 'getnew'), ('get1', 'get9'), ('create', 'create'), ('get1', 'getnew')},
    'nc_held': {('get1', 'get3'), ('get3', 'get3'), ('get1', 'exp0'), ('create', 'getnew'), ('get3', 'create')},
    'nc_dead': {('get1', 'get1'), ('get1', 'get2'), ('get1', 'create'), ('get1', 'exp1')},
}


def op_of(world, name):
    if name == 'getnew':            # the id the next create will get
        return ['get', max(WORLDS[world][0]) + 1]
    return OPS[name]


def base_case(world, names, extra=None):
    rows, cfg, setup = WORLDS[world]
    progs = [list(setup)] + [[op_of(world, n)] + (extra or []) for n in names]
    return {'rows': list(rows), 'cfg': dict(cfg), 'progs': progs, 'world': world, 'ops': list(names)}


def configs(tier):
    """[(base, bound)]"""
    out = []
    heavy = {'mexall'}
    for w, names in WORLD_OPS.items():
        for a, b in itertools.combinations_with_replacement(names, 2):
            nheavy = (a in heavy) + (b in heavy)
            if tier == 'quick':
                bound = 1 if nheavy else 2
                if w in QUICK_B2 and (a, b) not in QUICK_B2[w]:
                    bound = 1
            else:
                # thorough: bound 3 for the core operations where most of the code runs, 2 elsewhere
                core3 = w in ('fresh', 'strong', 'weak', 'nc_fresh', 'nc_held') and a in THOROUGH_B3 and b in THOROUGH_B3
                bound = 3 if core3 else 2
                if nheavy == 2 and w not in ('strong', 'weak'):
                    bound = 1
            out.append((base_case(w, [a, b]), bound))
    # three threads, bound 1
    triples = [('fresh', ['get1', 'get1', 'create']), ('fresh', ['get1', 'create', 'getnew']),
               ('strong', ['get3', 'get3', 'exp0']), ('strong', ['get1', 'exp0', 'exp0']),
               ('strong', ['create', 'getnew', 'xall']), ('weak', ['get1', 'get1', 'exp0']),
               ('weak', ['get1', 'xall', 'create']), ('unheld', ['get2', 'xall', 'xall']),
               ('nc_fresh', ['get1', 'get1', 'create']), ('nc_dead', ['get1', 'get1', 'exp1']),
               ('nc_held', ['get3', 'create', 'getnew'])]
    if tier != 'quick':
        triples += [('cull', ['get1', 'get3', 'create']), ('strong', ['get3', 'create', 'get9'])]
    if tier != 'quick':
        for w, names in WORLD_OPS.items():
            light = [n for n in names if n not in heavy and n != 'get9']
            for tr in itertools.combinations_with_replacement(light, 3):
                if (w, list(tr)) not in triples and len(set(tr)) >= 2:
                    triples.append((w, list(tr)))
    for w, tr in triples:
        out.append((base_case(w, tr), 1))
    # create || (get of the new id, then expire of what the get returned)
    for w in ('fresh', 'strong', 'nc_fresh'):
        b = base_case(w, ['create', 'getnew'])
        b['progs'][2].append(['expire', [2, 0]])
        b['ops'] = ['create', 'getnew+expire']
        out.append((b, 2))
    return out


def explore_all(jobs, nproc=16, timeout=2400):
    """run the stateless search in implementation subprocesses; returns list of schedule lists"""
    from tools.vlib import core
    work = os.path.join(ROOT, '.work', 'c09_explore_%d' % os.getpid())
    os.makedirs(work, exist_ok=True)
    # heaviest jobs first, round-robin
    order = sorted(range(len(jobs)), key=lambda i: -job_weight(jobs[i]))
    shards = [[] for _ in range(min(nproc, max(1, len(jobs))))]
    for n, i in enumerate(order):
        shards[n % len(shards)].append(i)
    procs = []
    for k, idx in enumerate(shards):
        fin, fout = os.path.join(work, 'in_%d.json' % k), os.path.join(work, 'out_%d.json' % k)
        json.dump([jobs[i] for i in idx], open(fin, 'w'))
        p = subprocess.Popen([core.PY, '-m', 'tools.sched.explore_main', fin, fout], cwd=ROOT, env=core.impl_env(),
                             stdout=subprocess.PIPE, stderr=subprocess.STDOUT, text=True)
        procs.append((idx, p, fout))
    res = [None] * len(jobs)
    for idx, p, fout in procs:
        try:
            p.communicate(timeout=timeout)
        except subprocess.TimeoutExpired:
            p.kill()
        try:
            got = json.load(open(fout))
        except (OSError, ValueError):
            got = [None] * len(idx)
        for i, g in zip(idx, got):
            res[i] = g if isinstance(g, list) else None
    import shutil
    shutil.rmtree(work, ignore_errors=True)
    return res


def job_weight(j):
    w = 1
    for p in j['base']['progs'][1:]:
        for o in p:
            w *= {'mexall': 6, 'xall': 2}.get(o[0], 1.5)
    return w * (4 ** j['bound'])


def corpus():
    """witnesses of the open findings and minimised past failures (explicit step lists)"""
    c = []
    # create || cache-level expireAll: RuntimeError in the iteration
    c.append(dict(base_case('strong', ['create', 'xall']), sched={'first': 2, 'pre': [[0, 8, 1]], 'prio': [1, 2]}, tag='created_vs_expireall_iteration'))
    # ... object lost between the loop and `self.cache = {}`
    c.append(dict(base_case('strong', ['create', 'xall']), sched={'first': 2, 'pre': [[0, 9, 1]], 'prio': [1, 2]}, tag='created_lost_in_expireall'))
    # create || get of the id being created
    c.append(dict(base_case('strong', ['create', 'getnew']), sched={'first': 2, 'pre': [[0, 8, 1]], 'prio': [1, 2]}, tag='created_overwrites_get_miss'))
    # two sqlmeta.expireAll
    c.append(dict(base_case('strong', ['mexall', 'mexall']), sched={'first': 2, 'pre': [[0, 20, 1]], 'prio': [1, 2]}, tag='getall_unlocked_iteration'))
    # fixed by ad272ca: expire() of an instance that was expired (and purged) earlier purged the instance registered since
    c.append({'rows': [1], 'cfg': dict(CFG), 'world': 'strong', 'ops': ['stale-expire'],
              'progs': [[['get', 1]], [['expire', [0, 0]], ['get', 1], ['expire', [0, 0]]]],
              'sched': {'first': 1, 'pre': []}, 'tag': 'expire_of_expired_instance_purges_current'})
    # a get that hits the instance between cache.created() and _init, then expires it (found with VERIF_SEED=41)
    c.append({'rows': [1, 2], 'cfg': dict(CFG), 'world': 'fresh', 'ops': ['uninit-expire'],
              'progs': [[], [['get', 3], ['expire', [1, 0]]], [['create']]],
              'sched': {'kind': 'list', 'list': [1] * 7 + [2] * 11 + [1, 2] + [1] * 8 + [2] + [1]},
              'tag': 'created_publishes_uninitialised_instance'})
    # fixed by 2cc82cd: cache=False, created() wrote the weak dict unlocked while getAll() iterated (found with VERIF_SEED=44)
    c.append({'rows': [1, 2, 3], 'cfg': {'cache': 0, 'freq': 100, 'frac': 2}, 'world': 'weakdead', 'ops': ['nocache-create'],
              'progs': [[['get', 1], ['get', 2], ['xall'], ['drop', [0, 0]]], [['mexall']], [['create']]],
              'sched': {'kind': 'list', 'list': [1] * 9 + [2] * 6 + [1] * 8 + [2] * 2 + [1] * 3},
              'tag': 'created_unlocked_without_caching'})
    # cache=False: create || get of the id being created (the open finding in the other mode)
    c.append(dict(base_case('nc_held', ['create', 'getnew']), sched={'first': 1, 'pre': [[0, 2, 2]], 'prio': [1, 2]}, tag='created_overwrites_get_miss'))
    # cache=False: a dead weak entry is deleted under the lock while another get waits
    c.append(dict(base_case('nc_dead', ['get1', 'get1']), sched={'first': 1, 'pre': [[0, 3, 2]], 'prio': [1, 2]}, tag='nocache_dead_entry'))
    # the seeded defect "no re-check under the lock" needs exactly this shape
    c.append(dict(base_case('fresh', ['get1', 'get1']), sched={'first': 1, 'pre': [[0, 9, 2]], 'prio': [1, 2]}, tag='double_checked_lookup'))
    return c


def random_case(rng, k):
    worlds = list(WORLDS)
    w = rng.choice(worlds)
    rows, cfg, setup = WORLDS[w]
    nthreads = 2 if rng.random() < 0.6 else 3
    names = WORLD_OPS[w]
    light = [n for n in names if n != 'mexall']
    progs = [list(setup)]
    for t in range(nthreads):
        p = []
        for j in range(rng.randint(1, 3)):
            n = rng.choice(names if rng.random() < 0.15 else light)
            p.append(op_of(w, n))
        # now and then expire what the thread itself got
        if rng.random() < 0.3 and p and p[0][0] in ('get', 'create'):
            p.append(['expire', [t + 1, 0]])
        progs.append(p)
    cfg = dict(cfg)
    if rng.random() < 0.3:
        cfg = {'freq': rng.choice([0, 1, 2]), 'frac': rng.choice([1, 2, 3])}
    lst = [rng.randint(1, nthreads) for _ in range(rng.randint(20, 160))]
    # bursts: threads run for a while, as real schedulers let them
    out = []
    for t in lst:
        out += [t] * rng.choice([1, 1, 2, 3, 5, 8])
    return {'rows': list(rows), 'cfg': cfg, 'progs': progs, 'world': w, 'ops': ['random'],
            'sched': {'kind': 'list', 'list': out[:400]}}


def generate(rng, tier):
    jobs = [{'base': b, 'bound': k} for b, k in configs(tier)]
    res = explore_all(jobs)
    out = []
    for j, scheds in zip(jobs, res):
        if scheds is None:
            # the search could not run on this tree: fall back to the unpreempted schedules
            scheds = [{'first': 1, 'pre': []}, {'first': 2, 'pre': []}]
        for sd in scheds:
            c = dict(j['base'])
            c['sched'] = sd
            c['bound'] = j['bound']
            out.append(c)
    nrand = 1000 if tier == 'quick' else 8000
    out += [random_case(rng, k) for k in range(nrand)]
    # cache=False over every world (also the ones whose set-up uses expireAll / a low cullFrequency): replayed on the model too
    for k in range(60 if tier == 'quick' else 600):
        c = random_case(rng, k)
        c['cfg']['cache'] = 0
        out.append(c)
    return out


def search_cases(rng, tier):
    """wider search when a proof or tie is broken: every pair at bound 2, all lines visible is decided by the scheduler itself"""
    jobs = [{'base': b, 'bound': max(k, 2)} for b, k in configs('quick') if len(b['progs']) == 3
            and 'mexall' not in b['ops']]
    res = explore_all(jobs)
    out = []
    for j, scheds in zip(jobs, res):
        for sd in (scheds or []):
            c = dict(j['base'])
            c['sched'] = sd
            out.append(c)
    out += [random_case(rng, k) for k in range(3000)]
    return out


# ---------------------------------------------------------------- implementation side
def run_impl(cases):
    from tools.sched import sched
    try:
        env = sched.make_env()
    except Exception as e:
        return [{'crash': 'scheduler set-up failed: %s: %s' % (type(e).__name__, e)} for _ in cases]
    out = []
    for c in cases:
        try:
            o = sched.run_case(env, c)
        except Exception as e:
            o = {'crash': '%s: %s' % (type(e).__name__, e)}
        out.append(o)
    return out


# ---------------------------------------------------------------- Coq side
PCS = None


def model_pcs():
    global PCS
    if PCS is None:
        import re
        src = open(os.path.join(ROOT, 'coq', 'Model', 'CacheConc.v')).read()
        m = re.search(r'Inductive pc :=(.*?)\.\n', src, re.S)
        body = re.sub(r'\(\*.*?\*\)', ' ', m.group(1), flags=re.S)
        PCS = set(re.findall(r'\|\s*([A-Za-z0-9_]+)', body))
    return PCS


def zl(z):
    return '(%d)%%Z' % z


def coq_op(o):
    if o[0] == 'get':
        return 'Get %s' % zl(o[1])
    if o[0] == 'create':
        return 'Create'
    if o[0] == 'expire':
        return 'Expire %d %d' % (o[1][0], o[1][1])
    if o[0] == 'xall':
        return 'XAll'
    if o[0] == 'mexall':
        return 'MExAll'
    if o[0] == 'drop':
        return 'Drop %d %d' % (o[1][0], o[1][1])
    raise ValueError(o)


def coq_obs(st):
    return '(O %s %s [%s] [%s] %s %d)' % (
        'true' if st['present'] else 'false',
        'None' if st['lock'] is None else '(Some %d)' % st['lock'],
        ';'.join(zl(k) for k in st['strong']),
        ';'.join('(%s,%s)' % (zl(k), 'true' if a else 'false') for k, a in st['weak']),
        zl(st['cc']), st['co'])


EXN = {'SQLObjectNotFound': 'NotFound', 'RuntimeError': 'RuntimeErr', 'AttributeError': 'AttrErr', 'KeyError': 'KeyErr'}


def coq_res(r):
    if r[0] == 'obj':
        return 'OObj %d %s' % (r[1], zl(r[2]))
    if r[0] == 'exc':
        return 'OExc %s' % ('(Some %s)' % EXN[r[1]] if r[1] in EXN else 'None')
    if r[0] == 'dropped':
        return 'ODropped'
    if r[0] == 'none':
        return 'ONone'
    return 'OExc None'


def coq_case(c, o):
    pcs = model_pcs()
    cfg = c.get('cfg', {})
    skip = False
    valid = o.get('verdict') == 'ok' and not o.get('skeleton')
    steps = []
    for t, lab, opi, st in o.get('trace', []):
        p = 'Idle' if lab in ('idle', 'done') else lab
        if p not in pcs:
            if not skip:
                valid = False
            p = 'Idle'
        steps.append('T %d %s %d %s' % (t, p, opi, 'N_' if st is None else '(Some %s)' % coq_obs(st)))
    if not valid or skip:
        steps = []
    init = o.get('init') or {'present': 0, 'lock': None, 'strong': [], 'weak': [], 'cc': 0, 'co': 0}
    return ('{| c_cache := %s; c_freq := %s; c_frac := %d; c_rows := [%s]; c_progs := [%s]; c_init := %s;\n c_trace := [%s];\n'
            ' c_results := [%s]; c_strong := [%s]; c_weak := [%s]; c_valid := %s; c_skip := %s |}' % (
                'true' if cfg.get('cache', 1) else 'false', zl(cfg.get('freq', 100)), cfg.get('frac', 2), ';'.join(zl(r) for r in c.get('rows', [])),
                ';'.join('[%s]' % ';'.join(coq_op(x) for x in p) for p in c['progs']),
                coq_obs(init), ';'.join(steps),
                ';'.join('[%s]' % ';'.join(coq_res(r) for r in row) for row in o.get('results', [])),
                ';'.join('(%s,%d)' % (zl(k), t) for k, t in o.get('strong', [])),
                ';'.join('(%s,%d)' % (zl(k), t) for k, t in o.get('weak', [])),
                'true' if valid else 'false', 'true' if skip else 'false'))


# ---------------------------------------------------------------- the oracle: the property judged on the real run alone
def timeline(o):
    """per step: (thread, statement executed = label the thread was paused at before, label after)"""
    cur = {}
    out = []
    for t, lab, opi, st in o.get('trace', []):
        out.append((t, cur.get(t, 'idle'), lab))
        cur[t] = lab
    return out


def oracle(c, o):
    if 'crash' in o:
        return {'what': 'harness crash', 'detail': o['crash']}
    if o.get('verdict') == 'deadlock':
        return {'what': 'deadlock: threads %s are blocked forever, nobody can run' % (o.get('blocked') or o.get('unfinished')),
                'kind': 'deadlock', 'schedule': o['sched']}
    if o.get('verdict') != 'ok':
        return {'what': 'the run did not end: %s' % o.get('verdict'), 'kind': o.get('verdict'), 'schedule': o['sched']}
    # exceptions
    rows = set(c.get('rows', []))
    for t, row in enumerate(o['results']):
        for k, r in enumerate(row):
            op = c['progs'][t][k]
            if r[0] == 'exc' and r[1] != 'SQLObjectNotFound':
                return {'what': 'thread %d: %s raised %s' % (t, op, r[1]), 'kind': 'exception', 'exc': r[1], 'thread': t, 'op': k,
                        'schedule': o['sched']}
            if r[0] == 'exc' and op[0] == 'get' and op[1] in rows:
                return {'what': 'thread %d: get(%d) of an existing row raised SQLObjectNotFound' % (t, op[1]), 'kind': 'notfound',
                        'schedule': o['sched']}
            if r[0] == 'exc' and op[0] != 'get':
                return {'what': 'thread %d: %s raised %s' % (t, op, r[1]), 'kind': 'exception', 'exc': r[1], 'thread': t, 'op': k,
                        'schedule': o['sched']}
            if r[0] == 'unfinished':
                return {'what': 'thread %d did not finish %s' % (t, op), 'kind': 'unfinished', 'schedule': o['sched']}
    # locks
    if o['final']['lock'] is not None:
        return {'what': 'the cache lock is still held by thread %s when all threads have finished' % o['final']['lock'],
                'kind': 'lock', 'schedule': o['sched']}
    if o.get('wlocks_held'):
        return {'what': 'an instance write lock is still held at the end', 'kind': 'wlock', 'schedule': o['sched']}
    # one object per row (an expired object has been purged: open finding of C04, so only unexpired ones count)
    by = {}
    for tok, i, got, expired in o['reach']:
        if not expired:
            by.setdefault(i, set()).add(tok)
    for i, toks in sorted(by.items()):
        if len(toks) > 1:
            return {'what': 'row %d: the threads hold %d different live (unexpired) objects' % (i, len(toks)), 'kind': 'identity',
                    'row': i, 'schedule': o['sched']}
    # every still-referenced object reachable through the cache
    for tok, i, got, expired in o['reach']:
        if not expired and got != tok:
            return {'what': 'the held object of row %d is not reachable through the cache (tryGet gives %s)' % (
                i, 'nothing' if got is None else 'another object'), 'kind': 'unreachable', 'row': i, 'schedule': o['sched']}
    return None


def _create_and_get_of_row(c, o, row):
    creates = [(t, k) for t, p in enumerate(c['progs']) for k, x in enumerate(p) if x[0] == 'create'
               and o['results'][t][k][0] == 'obj' and o['results'][t][k][2] == row]
    gets = [(t, k) for t, p in enumerate(c['progs']) for k, x in enumerate(p) if x[0] == 'get' and x[1] == row
            and o['results'][t][k][0] == 'obj' and t not in [u for u, _ in creates]]
    return creates, gets


def _uninit_use(c, o, f):
    """expire() ran on an instance whose constructor had not returned yet in another thread (cache.created() registers
    the instance before _SO_finishCreate calls _init): `self.id` is missing (AttributeError) and _init replaces
    `_SO_writeLock` under the feet of the thread that holds it (RuntimeError: release unlocked lock; the old lock
    stays held: a later waiter on it blocks forever)."""
    un = o.get('uninit_uses') or []
    if not un:
        return False
    k = f.get('kind')
    if k == 'exception' and f.get('exc') in ('RuntimeError', 'AttributeError') and f.get('thread') in un:
        op = c['progs'][f['thread']][f['op']]
        return op[0] in ('expire', 'mexall')
    return k in ('wlock', 'deadlock')


def _load_before_reread(c, o, row, creates, gets):
    """On the unchanged tree the creator publishes its instance (created) right after the INSERT and re-reads the row
    only afterwards: a get that registers a second instance has done its load (SELECT of the row) BEFORE the creator's
    re-read.  A load that comes after the creator's re-read and still misses means the instance was published too late."""
    sql = o.get('sql')
    if sql is None:
        return True
    judged = False
    for tc, _ in creates:
        ins = [n for n, (t, k, i, _) in enumerate(sql) if t == tc and k == 'INSERT']
        if not ins:
            continue
        reread = [n for n, (t, k, i, _) in enumerate(sql) if t == tc and k == 'SELECT' and i == row and n > ins[-1]]
        if not reread:
            continue
        for tg, _ in gets:
            loads = [n for n, (t, k, i, _) in enumerate(sql) if t == tg and k == 'SELECT' and i == row and n > ins[-1]]
            if loads:
                judged = True
                if loads[0] < reread[0]:
                    return True          # a get loaded the row before the creator's re-read: the known race
    return not judged


def classify_by_shape(c, o, f):
    """The labels of the model are not available (the skeleton of the tree under test differs, or a cache=False
    run): recognise the open finding by the operations involved only, so that the replay shows something else
    than the known race."""
    if _uninit_use(c, o, f):
        return 'created_publishes_uninitialised_instance'
    if f.get('kind') in ('identity', 'unreachable'):
        creates, gets = _create_and_get_of_row(c, o, f.get('row'))
        if creates and gets and _load_before_reread(c, o, f.get('row'), creates, gets):
            return 'created_overwrites_get_miss'
    return None


def classify(c, o, f):
    """The one open finding, recognised narrowly: a get of the row being created registers its own instance
    (line 153 of put; line 155 when caching is off) after the creator's INSERT (main.py, queryInsertID) and before the creator's write in
    created().  The findings created_vs_expireall_iteration, created_lost_in_expireall (fixed by 6765e29),
    getall_unlocked_iteration (fixed by 7ef2364) and expire_of_expired_instance_purges_current (fixed by ad272ca)
    are not classified: they would be violations."""
    if not isinstance(o, dict) or 'trace' not in o:
        return None
    if o.get('skeleton'):
        return classify_by_shape(c, o, f)
    if _uninit_use(c, o, f):
        return 'created_publishes_uninitialised_instance'
    if f.get('kind') not in ('identity', 'unreachable'):
        return None
    creates, gets = _create_and_get_of_row(c, o, f.get('row'))
    if not creates or not gets:
        return None
    pending = set()          # creators between their INSERT and their write in created()
    racing = set()           # threads whose put ran while a creator was pending
    for t, before, after in timeline(o):
        if before == 'C1397':
            pending.add(t)
        elif before in ('K181', 'K183'):
            pending.discard(t)
        elif before in ('P153', 'P155') and pending - {t}:
            racing.add(t)
    if any(t in racing for t, _ in gets) and _load_before_reread(c, o, f.get('row'), creates, gets):
        return 'created_overwrites_get_miss'
    return None


def nontrivial(c, o):
    s = o.get('sched') or []
    switches = 0
    nset = len(c['progs'][0])
    # context switches among the concurrent threads
    conc = [t for t in s if t != 0]
    for a, b in zip(conc, conc[1:]):
        if a != b:
            switches += 1
    return switches >= 1


def key(c):
    return [c['rows'], c['cfg'], c['progs'], c['sched']]


def distribution(cases, obs):
    d = {'by_world': {}, 'by_ops': {}, 'by_preemptions': {}, 'steps_total': 0, 'verdicts': {}, 'random': 0, 'cache_off': 0,
         'three_threads': 0, 'notfound': 0, 'culls': 0, 'blocked_waits': 0,
         'cache_off_dead_entry_deleted': 0, 'cache_off_unlocked_hit': 0, 'cache_off_locked_hit': 0, 'cache_off_created': 0}
    for c, o in zip(cases, obs):
        if not isinstance(o, dict) or 'trace' not in o:
            continue
        d['by_world'][c.get('world', '?')] = d['by_world'].get(c.get('world', '?'), 0) + 1
        k = '+'.join(c.get('ops', []))
        d['by_ops'][k] = d['by_ops'].get(k, 0) + 1
        if c['sched'].get('kind') == 'list':
            d['random'] += 1
        else:
            n = str(len(c['sched'].get('pre', [])))
            d['by_preemptions'][n] = d['by_preemptions'].get(n, 0) + 1
        d['steps_total'] += len(o['trace'])
        d['verdicts'][o['verdict']] = d['verdicts'].get(o['verdict'], 0) + 1
        if not c['cfg'].get('cache', 1):
            d['cache_off'] += 1
        if len(c['progs']) > 3:
            d['three_threads'] += 1
        labs = {x[1] for x in o['trace']}
        if 'U205' in labs:
            d['culls'] += 1
        for lab, k2 in (('F143', 'cache_off_dead_entry_deleted'), ('F132', 'cache_off_unlocked_hit'),
                        ('F145', 'cache_off_locked_hit'), ('K183r', 'cache_off_created')):
            if lab in labs:
                d[k2] += 1
        if any(r[0] == 'exc' and r[1] == 'SQLObjectNotFound' for row in o['results'] for r in row):
            d['notfound'] += 1
    return d


def explain(c, o):
    tl = ' '.join('%d:%s' % (t, lab) for t, lab, _, _ in o.get('trace', []))
    return 'programs %r, executed schedule %s, steps %s, results %r' % (c['progs'], ''.join(map(str, o.get('sched', []))), tl[:3000], o.get('results'))
