"""C06 -- a write that raises changes nothing: row and in-memory values stay as before."""
from tools.props import ormlib as L
from tools.props.ormlib import COQ_HEADER, CORR_VO  # noqa (plugin interface)
from tools.props.c04 import key, explain  # noqa
from tools.props import c04 as _c04

SOURCES = L.SOURCES + ['sqlobject/inheritance/__init__.py']

PROP = 'C06'
PROPS_VO = 'Props/C06.vo'
GENERATORS = {}
COQ_CASE_TYPE = 'case'
COQ_AGREE = 'agree'
COQ_SHARD = 40
REPLAY_KIND = 'history'
EXHAUSTIVE = {'quick': False, 'thorough': False}
WRITES = ('create', 'setattr', 'set', 'destroy', 'syncupdate')
RULE = ('(a) seeded random histories (3..40 operations) in which write operations fail in every modelled way: an invalid value in any position of '
        'a multi-column set or create, NULL into NOT NULL, a duplicate unique key, a missing required column, and an injected database error at '
        'statement k in {0,1,2} of the operation (OperationalError raised from the connection\'s _executeRetry). After every raising write the tables, '
        'the passive state of every held instance and the set of cached ids are compared with the state before. Non-trivial = at least one write '
        'raised; distinct = distinct operation list. (b) a stream of creates on a three-level InheritableSQLObject chain failing at every level '
        '(invalid value, NOT NULL, UNIQUE, injected error at statement k): tables and cache registrations before/after, judged by the oracle only.')
EXPLANATION = ('Theorems over Model/Orm.v (every write operation, every failure position, every fault index) + correspondence with the real '
               'SQLObject after every operation + atomicity oracle on the implementation.')
TRUSTED_BASE = L.TRUSTED_COMMON + [
    'restricting references / cascades are the subject of C12 and subclass inserts of C15; this fixture has no foreign keys or inheritance',
]
PROFILE = L.profile(without=['clear', 'pickle', 'unpickle', 'rawupdate', 'rawdelete'],
                    weights={'create': 12, 'setattr': 14, 'set': 16, 'destroy': 6, 'syncupdate': 5, 'read': 6, 'expire': 1, 'expireall': 1},
                    p_fault=0.25, p_bad=0.2, p_dup=0.25, p_unknown_kw=0.12)


def corpus():
    return [
        # fixed (71eb426): a lazy set() with a property keyword whose setter refuses queued the column values before raising
        {'cfg': {'cache': False, 'freq': 5, 'frac': 1}, 'ops': [['create', 1, [[1, 100], [0, 3]]], ['set', 0, [[0, None], [1, 101], [4, 'bad']]],
                                                                 ['read', 0, 0], ['syncupdate', 0], ['set', 0, [[4, 2], [0, 7]]], ['syncupdate', 0]]},
        {'cfg': {'cache': True, 'freq': 100, 'frac': 2}, 'ops': [['create', 0, [[1, 100], [0, 3]]], ['set', 0, [[0, 4], [4, 'bad'], [2, 1]]], ['read', 0, 0]]},
        # fixed (6e79cab): a lazy set() with an unknown keyword queued the other values before raising TypeError
        {'cfg': {'cache': True, 'freq': 100, 'frac': 2}, 'ops': [['create', 1, [[1, 100]]], ['set', 0, [[0, 5], [3, 1]]], ['read', 0, 0], ['syncupdate', 0]]},
        {'cfg': {'cache': True, 'freq': 100, 'frac': 2}, 'ops': [['create', 0, [[1, 100], [0, 1]]], ['set', 0, [[0, 3], [2, 'bad']]]]},
        {'cfg': {'cache': True, 'freq': 100, 'frac': 2},
         'ops': [['create', 0, [[1, 100]]], ['create', 0, [[1, 101]]], ['set', 1, [[0, 3], [1, 100]]]]},
        {'cfg': {'cache': True, 'freq': 100, 'frac': 2}, 'ops': [['create', 1, [[1, 100], [0, 1]]], ['set', 0, [[0, 3], [2, 'bad']]]]},
        # fixed: a failing DELETE used to leave the instance obsolete
        {'cfg': {'cache': True, 'freq': 100, 'frac': 2}, 'ops': [['create', 2, [[1, 100]]], ['fault', 0, ['destroy', 0]], ['read', 0, 0]]},
        # open finding: a database error at the re-read after the INSERT
        {'cfg': {'cache': True, 'freq': 100, 'frac': 2}, 'ops': [['fault', 1, ['create', 0, [[1, 100]]]], ['get', 0, 1]]},
        # open finding: a database error at the clean-up DELETE of a failed subclass insert
        {'inherit': True, 'cfg': {'cache': True}, 'ops': [['icreate', 1, {'name': 1, 'y': None}, 3]]},
        # open finding: a multi-column set spanning inherited columns is written column by column
        {'inherit': True, 'cfg': {'cache': True}, 'ops': [['icreate', 2, {'name': 1, 'y': 1}, None], ['iset', 0, {'y': 2, 'x': 'bad'}, None]]},
        # seeded once: the child's own values must be validated before an inherited column is written
        {'inherit': True, 'cfg': {'cache': True}, 'ops': [['icreate', 2, {'name': 1, 'y': 1}, None], ['iset', 0, {'x': 2, 'w': 'bad'}, None]]},
        # seeded once: clean-up skipped for validation errors of a child-level column
        {'inherit': True, 'cfg': {'cache': True}, 'ops': [['icreate', 1, {'name': 1, 'y': 'bad'}, None], ['icreate', 2, {'name': 2, 'y': 1, 'w': 'bad'}, None]]},
    ]


def generate(rng, tier):
    n = 2000 if tier == 'quick' else 20000
    m = 500 if tier == 'quick' else 5000
    return ([L.gen_history(rng, PROFILE, rng.randint(3, 40)) for _ in range(n)] + [gen_inherit(rng) for _ in range(m)] +
            [gen_xid(rng) for _ in range(m // 2)])


# ------------------------------------------------------------------ inheritance stream (failed subclass inserts)
# Judged by the oracle on the implementation only; the model of inheritable classes belongs to C15.
ILEVELS = ['VInhP', 'VInhC', 'VInhG']
ITABLES = ['v_inh_p', 'v_inh_c', 'v_inh_g']
_iclasses = None
_iconns = {}


def iclasses():
    global _iclasses
    if _iclasses is None:
        from sqlobject import IntCol
        from sqlobject.inheritance import InheritableSQLObject

        class VInhP(InheritableSQLObject):
            name = IntCol(alternateID=True)
            x = IntCol(default=None)

        class VInhC(VInhP):
            y = IntCol(notNone=True)
            z = IntCol(default=None, unique=True)

        class VInhG(VInhC):
            w = IntCol(default=None)
        _iclasses = [VInhP, VInhC, VInhG]
    return _iclasses


def gen_inherit(rng):
    ops, names, zs = [], [0], [0]

    def fresh(lst):
        lst[0] += 1
        return lst[0]
    for _ in range(rng.randint(2, 10)):
        lvl = rng.choice([0, 1, 1, 2, 2])
        kw = {}
        kw['name'] = rng.randint(1, names[0]) if names[0] and rng.random() < 0.15 else fresh(names)
        if rng.random() < 0.5:
            kw['x'] = rng.choice([None, 1, 2, 'bad'] if rng.random() < 0.3 else [None, 1, 2])
        if lvl >= 1:
            r = rng.random()
            if r < 0.75:
                kw['y'] = rng.randint(0, 3)
            elif r < 0.83:
                kw['y'] = None
            elif r < 0.92:
                kw['y'] = 'bad'
            if rng.random() < 0.5:
                kw['z'] = rng.randint(1, zs[0]) if zs[0] and rng.random() < 0.3 else fresh(zs)
        if lvl >= 2 and rng.random() < 0.7:
            kw['w'] = rng.choice([None, 1, 'bad'] if rng.random() < 0.4 else [None, 1])
        fault = rng.randint(0, 6) if rng.random() < 0.2 else None
        ops.append(['icreate', lvl, kw, fault])
        if rng.random() < 0.5:
            # a multi-column set on some existing object, mixing inherited and own columns, sometimes invalid
            skw = {}
            for col in rng.sample(['x', 'y', 'z', 'w'], rng.randint(1, 3)):
                if col == 'z':
                    skw[col] = rng.randint(1, max(1, zs[0])) if rng.random() < 0.4 else fresh(zs)
                elif col == 'y':
                    skw[col] = rng.choice([0, 1, 2, 3, None, 'bad'])
                else:
                    skw[col] = rng.choice([None, 1, 2, 'bad'])
            ops.append(['iset', rng.randint(0, 9), skw, rng.randint(0, 3) if rng.random() < 0.15 else None])
    return {'inherit': True, 'cfg': {'cache': rng.random() < 0.7}, 'ops': ops}


def run_inherit(case):
    from sqlobject.sqlite.sqliteconnection import SQLiteConnection
    from sqlobject import dberrors
    from sqlobject.cache import CacheSet
    cls = iclasses()
    conn = _iconns.get(bool(case['cfg']['cache']))
    if conn is None:
        conn = SQLiteConnection(':memory:', cache=bool(case['cfg']['cache']))
        for c in cls:
            c._connection = conn
            c.createTable()
        _iconns[bool(case['cfg']['cache'])] = conn
    else:
        raw = conn.getConnection()
        cur = raw.cursor()
        for c in cls:
            cur.execute('DELETE FROM %s' % c.sqlmeta.table)
        cur.execute('DELETE FROM sqlite_sequence')
        cur.close()
        conn.releaseConnection(raw)
    conn.cache = CacheSet(cache=conn.doCache)
    for c in cls:
        c._connection = conn
    state = {'n': 0, 'fault': None, 'log': []}
    orig = conn._executeRetry

    def wrapped(rc, cur, q):
        i = state['n']
        state['n'] += 1
        state['log'].append(q.split(' ', 1)[0].upper())
        if state['fault'] is not None and state['fault'] == i:
            raise dberrors.OperationalError('injected fault')
        return orig(rc, cur, q)
    conn._executeRetry = wrapped

    def dump():
        raw = conn.getConnection()
        cur = raw.cursor()
        out = []
        for c in cls:
            cur.execute('SELECT * FROM %s ORDER BY id' % c.sqlmeta.table)
            out.append([list(r) for r in cur.fetchall()])
        cur.close()
        conn.releaseConnection(raw)
        return out

    def cached():
        res = []
        for c in cls:
            f = conn.cache.caches.get(c.__name__)
            res.append(sorted(set((list(f.cache.keys()) if f.doCache else []) +
                                  [k for k, r in list(f.expiredCache.items()) if r() is not None])) if f else [])
        return res
    steps = []
    made = []      # (level, id) of the objects created so far
    try:
        for op in case['ops']:
            kind, lvl, kw, fault = op
            target_level = None
            before_t, before_c = dump(), cached()
            state['n'], state['fault'], state['log'] = 0, None, []
            try:
                if kind == 'iset':
                    if not made:
                        steps.append({'out': ['skip'], 'before': before_t, 'after': before_t, 'cached_before': before_c,
                                      'cached_after': before_c, 'log': []})
                        continue
                    tl, tid = made[lvl % len(made)]
                    target_level = tl
                    o = cls[tl].get(tid)
                    names = [c.name for c in o.sqlmeta.columnList] + (['x', 'name'] if tl >= 1 else []) + (['y', 'z'] if tl >= 2 else [])
                    use = {k: ('zz' if v == 'bad' else v) for k, v in kw.items() if k in names}
                    before_t, before_c = dump(), cached()
                    state['n'], state['fault'], state['log'] = 0, fault, []
                    o.set(**use)
                    out = ['ret', tid]
                    target_level = tl
                else:
                    state['fault'] = fault
                    o = cls[lvl](**{k: ('zz' if v == 'bad' else v) for k, v in kw.items()})
                    out = ['ret', o.id]
                    made.append((lvl, o.id))
                del o
            except Exception as e:  # noqa
                out = ['exc', type(e).__name__]
            state['fault'] = None
            import gc
            gc.collect(0)
            steps.append({'out': out, 'before': before_t, 'after': dump(), 'cached_before': before_c, 'cached_after': cached(),
                          'log': list(state['log']), 'target_level': target_level})
    finally:
        conn._executeRetry = orig
        conn.cache.clear()
    return {'isteps': steps}


# ------------------------------------------------------------------ explicit-id stream (creates with a caller-chosen id)
# Judged by the oracle on the implementation only: the ORM model numbers rows itself.
_xconns = {}


def gen_xid(rng):
    ops, used = [], {0: [], 1: [], 2: []}
    nu = [0]
    for _ in range(rng.randint(2, 12)):
        k = rng.choice([0, 1, 2])
        r = rng.random()
        if r < 0.7:
            nu[0] += 1
            if rng.random() < 0.25 and used[k]:
                i = rng.choice(used[k])                     # an id that is taken: the create must fail cleanly
            else:
                i = rng.choice([0, 0, -1, -2, 5, 7, 50, None, None, rng.randint(1, 12)])
            u = rng.randint(1, nu[0]) if rng.random() < 0.15 else 100 + nu[0]
            ops.append(['xcreate', k, i, u, rng.choice([0, 1, 2]) if rng.random() < 0.15 else None])
            if i is not None:
                used[k].append(i)
        else:
            ops.append(['xget', k, rng.choice(used[k]) if used[k] and rng.random() < 0.8 else rng.randint(-2, 12)])
    return {'xid': True, 'cfg': {'cache': rng.random() < 0.7}, 'ops': ops}


def run_xid(case):
    import gc
    from sqlobject.sqlite.sqliteconnection import SQLiteConnection
    from sqlobject import dberrors
    from sqlobject.cache import CacheSet
    cls = L.classes()
    key = bool(case['cfg']['cache'])
    conn = _xconns.get(key)
    if conn is None:
        conn = SQLiteConnection(':memory:', cache=key)
        for c in cls:
            c._connection = conn
            c.createTable()
        _xconns[key] = conn
    else:
        raw = conn.getConnection()
        cur = raw.cursor()
        for t in L.TABLES:
            cur.execute('DELETE FROM %s' % t)
        cur.execute('DELETE FROM sqlite_sequence')
        cur.close()
        conn.releaseConnection(raw)
    conn.cache = CacheSet(cache=conn.doCache)
    for c in cls:
        c._connection = conn
    state = {'n': 0, 'fault': None}
    orig = conn._executeRetry

    def wrapped(rc, cur, q):
        i = state['n']
        state['n'] += 1
        if state['fault'] is not None and state['fault'] == i:
            raise dberrors.OperationalError('injected fault')
        return orig(rc, cur, q)
    conn._executeRetry = wrapped

    def dump():
        raw = conn.getConnection()
        cur = raw.cursor()
        out = []
        for t in L.TABLES:
            cur.execute('SELECT id, a_c, u_c, n_c FROM %s ORDER BY id' % t)
            out.append([list(r) for r in cur.fetchall()])
        cur.close()
        conn.releaseConnection(raw)
        return out

    def cached():
        res = []
        for c in cls:
            f = conn.cache.caches.get(c.__name__)
            res.append(sorted(set((list(f.cache.keys()) if f.doCache else []) +
                                  [k for k, r in list(f.expiredCache.items()) if r() is not None])) if f else [])
        return res
    steps, held = [], []
    try:
        for op in case['ops']:
            before_t, before_c = dump(), cached()
            state['n'], state['fault'] = 0, None
            try:
                if op[0] == 'xcreate':
                    kw = {'u': op[3]}
                    if op[2] is not None:
                        kw['id'] = op[2]
                    state['fault'] = op[4]
                    o = cls[op[1]](**kw)
                    out = ['ret', o.id]
                    held.append(o)
                else:
                    o = cls[op[1]].get(op[2])
                    out = ['ret', o.id]
                    held.append(o)
                del o
            except Exception as e:  # noqa
                out = ['exc', type(e).__name__]
            state['fault'] = None
            gc.collect(0)
            steps.append({'out': out, 'before': before_t, 'after': dump(), 'cached_before': before_c, 'cached_after': cached()})
    finally:
        conn._executeRetry = orig
        held[:] = []
        conn.cache.clear()
    return {'xsteps': steps}


def xid_failures(case, obs):
    for n, (op, st) in enumerate(zip(case['ops'], obs['xsteps'])):
        k = op[1]
        base = {'step': n, 'op': op, 'xid': True, 'cache': case['cfg']['cache'], 'fault_index': op[4] if op[0] == 'xcreate' else None}
        ids_after = [r[0] for r in st['after'][k]]
        if op[0] == 'xcreate':
            if st['out'][0] == 'exc':
                base['raised'] = st['out'][1]
                if st['after'] != st['before']:
                    yield dict(base, kind_of_write='xcreate', what='a create with id=%r raised %s but the tables changed: %r -> %r' % (
                        op[2], st['out'][1], st['before'][k], st['after'][k]))
                elif st['cached_after'] != st['cached_before']:
                    yield dict(base, kind_of_write='xcreate', what='a create with id=%r raised %s but an instance was registered: cache ids %r -> %r' % (
                        op[2], st['out'][1], st['cached_before'][k], st['cached_after'][k]))
            else:
                if op[2] is not None and (st['out'][1] != op[2] or op[2] not in ids_after):
                    yield dict(base, kind_of_write='xcreate', what='a create with id=%r returned an object with id %r; the table has ids %r' % (
                        op[2], st['out'][1], ids_after))
                elif st['out'][1] not in ids_after:
                    yield dict(base, kind_of_write='xcreate', what='a create returned id %r, the table has ids %r' % (st['out'][1], ids_after))
        elif st['out'][0] == 'ret' and st['out'][1] not in ids_after:
            yield dict(base, kind_of_write='xget', what='get(%r) handed out an instance although the table has only ids %r' % (op[2], ids_after))


def run_impl(cases):
    res = []
    for c in cases:
        try:
            if c.get('xid'):
                res.append(run_xid(c))
                continue
            res.append(run_inherit(c) if c.get('inherit') else {'steps': L.run_history(c)})
        except Exception as e:  # noqa
            res.append({'crash': '%s: %s' % (type(e).__name__, e)})
    return res


def coq_case(case, obs):
    if case.get('inherit') or case.get('xid'):
        # no model here (C15 models inheritable classes; the ORM model numbers rows itself); an empty history agrees trivially
        return '{| c_cfg := {| doCache := true; cullFreq := 100; cullFrac := 2 |}; c_steps := [] |}'
    return L.coq_case(case, obs)


def inherit_failures(case, obs):
    for n, (op, st) in enumerate(zip(case['ops'], obs['isteps'])):
        if st['out'][0] != 'exc':
            continue
        base = {'step': n, 'op': op, 'raised': st['out'][1], 'kind_of_write': 'inherit-create' if op[0] == 'icreate' else 'inherit-set',
                'fault_index': op[3], 'statements': st['log']}
        if op[0] == 'iset':
            own = {0: ('name', 'x'), 1: ('y', 'z'), 2: ('w',)}.get(st.get('target_level'), ())
            base['own_value_invalid'] = any(k in own and v == 'bad' for k, v in op[2].items())
            if st['after'] != st['before']:
                d = dict(base)
                d['what'] = 'a multi-column set on an inheritance child raised %s but rows changed: %r -> %r' % (
                    st['out'][1], st['before'], st['after'])
                yield d
            continue
        if st['after'] != st['before']:
            d = dict(base)
            d['what'] = 'creating a %s raised %s but rows were left behind: %r -> %r' % (
                ILEVELS[op[1]], st['out'][1], st['before'], st['after'])
            yield d
        elif st['cached_after'] != st['cached_before']:
            d = dict(base)
            d['what'] = 'creating a %s raised %s but instances stayed registered in the cache: %r -> %r' % (
                ILEVELS[op[1]], st['out'][1], st['cached_before'], st['cached_after'])
            yield d


def search_cases(rng, tier):
    return [L.gen_history(rng, PROFILE, rng.randint(3, 60)) for _ in range(1500)] + [gen_xid(rng) for _ in range(300)]


def failures(case, obs):
    if case.get('inherit'):
        for f in inherit_failures(case, obs):
            yield f
        return
    if case.get('xid'):
        for f in xid_failures(case, obs):
            yield f
        return
    for info in L.Walk(case, obs):
        st, prev, core = info['st'], info['prev'], info['core']
        t = core[0]
        if info['ok'] or t not in WRITES:
            continue
        if st['out'][1] == 'EBadHandle':
            continue
        base = {'step': info['n'], 'op': info['op'], 'raised': st['out'][1],
                'fault_index': info['op'][1] if info['op'][0] == 'fault' else None, 'kind_of_write': t}
        if st['tables'] != prev['tables']:
            d = dict(base)
            d['what'] = '%s raised %s but the tables changed: %r -> %r' % (t, st['out'][1], prev['tables'], st['tables'])
            yield d
        # in-memory state of every instance held before the call
        before = prev['slots']
        after = st['slots'][:len(before)]
        for i, (a, b) in enumerate(zip(before, after)):
            if a != b:
                d = dict(base)
                d['what'] = '%s raised %s but held instance in slot %d changed: %r -> %r' % (t, st['out'][1], i, a, b)
                yield d
        # no instance registered for a row that does not exist / cache registration changed
        for k in range(3):
            ids_before = set(prev['cached'][k][0]) | set(prev['cached'][k][1])
            ids_after = set(st['cached'][k][0]) | set(st['cached'][k][1])
            rows = {r[0] for r in st['tables'][k]}
            extra = sorted(ids_after - ids_before)
            if extra:
                d = dict(base)
                d['what'] = '%s raised %s but instances got registered in the cache for ids %s of %s (rows present: %s)' % (
                    t, st['out'][1], extra, L.KINDS[k], sorted(rows & set(extra)))
                yield d
            lost = sorted(i for i in (ids_before - ids_after)
                          if any(v is not None and v[0] == k and v[1] == i for v in st['slots']))
            if lost:
                d = dict(base)
                d['what'] = '%s raised %s but the identity map forgot the held instances of %s ids %s (rows still present: %s)' % (
                    t, st['out'][1], L.KINDS[k], lost, sorted(rows & set(lost)))
                yield d


def oracle(case, obs):
    known = None
    for f in failures(case, obs):
        if classify(case, obs, f) is None:
            return f
        known = known or f
    return known


def classify(case, obs, f):
    # the INSERT of a create succeeded and the database error hit the re-read (_init) that follows it: sqlite has
    # autocommitted the row, the new instance is already registered
    if f['kind_of_write'] == 'create' and f['raised'] == 'EOperational' and f['fault_index'] == 1:
        return 'create_fails_after_insert'
    if f['kind_of_write'] == 'xcreate' and f.get('raised') == 'OperationalError' and f['fault_index'] == 1:
        return 'create_fails_after_insert'
    # the same defect one level up or down an inheritance chain: the injected error hit the re-read (SELECT) that
    # follows the INSERT of one of the levels
    if f['kind_of_write'] == 'inherit-create' and f['raised'] == 'OperationalError' and f['fault_index'] is not None:
        log = f.get('statements') or []
        k = f['fault_index']
        if k < len(log) and log[k] == 'SELECT' and k >= 1 and log[k - 1] == 'INSERT':
            return 'create_fails_after_insert'
        # the injected error hit the clean-up DELETE of the parent row after a level's insert had failed
        if k < len(log) and log[k] == 'DELETE':
            return 'inherit_cleanup_fault_leaves_parent'
    # a multi-column set on an inheritance child hands the inherited columns to the ancestors one by one (each its own
    # UPDATE) before its own UPDATE: when an inherited value is invalid or the database refuses a later statement, the
    # earlier columns are already written.  An invalid value for one of the child's OWN columns is still caught first.
    if f['kind_of_write'] == 'inherit-set' and not f.get('own_value_invalid'):
        return 'inherit_set_not_atomic'
    return None


def distribution(cases, obs):
    plain = [(c, o) for c, o in zip(cases, obs) if not c.get('inherit') and not c.get('xid')]
    d = _c04.distribution([c for c, _ in plain], [o for _, o in plain])
    inh = {'cases': 0, 'creates': 0, 'raised': {}}
    for c, o in zip(cases, obs):
        if c.get('inherit') and 'isteps' in o:
            inh['cases'] += 1
            for st in o['isteps']:
                inh['creates'] += 1
                if st['out'][0] == 'exc':
                    inh['raised'][st['out'][1]] = inh['raised'].get(st['out'][1], 0) + 1
    d['inheritance_stream'] = inh
    d['explicit_id_stream'] = {'cases': sum(1 for c in cases if c.get('xid')),
                               'creates_raised': sum(1 for c, o in zip(cases, obs) if c.get('xid') and 'xsteps' in o
                                                     for op, st in zip(c['ops'], o['xsteps']) if op[0] == 'xcreate' and st['out'][0] == 'exc')}
    return d


def nontrivial(case, obs):
    if case.get('inherit'):
        return any(st['out'][0] == 'exc' for st in obs['isteps'])
    if case.get('xid'):
        return any(st['out'][0] == 'exc' for st in obs['xsteps'])
    for info in L.Walk(case, obs):
        if not info['ok'] and info['core'][0] in WRITES and info['st']['out'][1] != 'EBadHandle':
            return True
    return False


def shrink(case, run):
    import sys
    return L.shrink(sys.modules[__name__], case, run)
