"""C06 -- a write that raises changes nothing: row and in-memory values stay as before."""
from tools.props import ormlib as L
from tools.props.ormlib import run_impl, coq_case, COQ_HEADER, CORR_VO, SOURCES  # noqa (plugin interface)
from tools.props.c04 import distribution, key, explain  # noqa

PROP = 'C06'
PROPS_VO = 'Props/C06.vo'
GENERATORS = {}
COQ_CASE_TYPE = 'case'
COQ_AGREE = 'agree'
COQ_SHARD = 40
REPLAY_KIND = 'history'
EXHAUSTIVE = {'quick': False, 'thorough': False}
WRITES = ('create', 'setattr', 'set', 'destroy', 'syncupdate')
RULE = ('seeded random histories (3..40 operations) in which write operations fail in every modelled way: an invalid value in any position of '
        'a multi-column set or create, NULL into NOT NULL, a duplicate unique key, a missing required column, and an injected database error at '
        'statement k in {0,1,2} of the operation (OperationalError raised from the connection\'s _executeRetry). After every raising write the tables, '
        'the passive state of every held instance and the set of cached ids are compared with the state before. Non-trivial = at least one write '
        'raised; distinct = distinct operation list.')
EXPLANATION = ('Theorems over Model/Orm.v (every write operation, every failure position, every fault index) + correspondence with the real '
               'SQLObject after every operation + atomicity oracle on the implementation.')
TRUSTED_BASE = L.TRUSTED_COMMON + [
    'restricting references / cascades are the subject of C12 and subclass inserts of C15; this fixture has no foreign keys or inheritance',
]
PROFILE = L.profile(without=['clear', 'pickle', 'unpickle', 'rawupdate', 'rawdelete'],
                    weights={'create': 12, 'setattr': 14, 'set': 16, 'destroy': 6, 'syncupdate': 5, 'read': 6, 'expire': 1, 'expireall': 1},
                    p_fault=0.25, p_bad=0.2, p_dup=0.25)


def corpus():
    return [
        {'cfg': {'cache': True, 'freq': 100, 'frac': 2}, 'ops': [['create', 0, [[1, 100], [0, 1]]], ['set', 0, [[0, 3], [2, 'bad']]]]},
        {'cfg': {'cache': True, 'freq': 100, 'frac': 2},
         'ops': [['create', 0, [[1, 100]]], ['create', 0, [[1, 101]]], ['set', 1, [[0, 3], [1, 100]]]]},
        {'cfg': {'cache': True, 'freq': 100, 'frac': 2}, 'ops': [['create', 1, [[1, 100], [0, 1]]], ['set', 0, [[0, 3], [2, 'bad']]]]},
        # fixed: a failing DELETE used to leave the instance obsolete
        {'cfg': {'cache': True, 'freq': 100, 'frac': 2}, 'ops': [['create', 2, [[1, 100]]], ['fault', 0, ['destroy', 0]], ['read', 0, 0]]},
        # open finding: a database error at the re-read after the INSERT
        {'cfg': {'cache': True, 'freq': 100, 'frac': 2}, 'ops': [['fault', 1, ['create', 0, [[1, 100]]]], ['get', 0, 1]]},
    ]


def generate(rng, tier):
    n = 800 if tier == 'quick' else 20000
    return [L.gen_history(rng, PROFILE, rng.randint(3, 40)) for _ in range(n)]


def search_cases(rng, tier):
    return [L.gen_history(rng, PROFILE, rng.randint(3, 60)) for _ in range(6000)]


def failures(case, obs):
    for info in L.Walk(case, obs):
        st, prev, core = info['st'], info['prev'], info['core']
        t = core[0]
        if info['ok'] or t not in WRITES:
            continue
        if st['out'][1] == 'EBadHandle':
            continue
        base = {'step': info['n'], 'op': info['op'], 'raised': st['out'][1],
                'fault_index': info['op'][1] if info['op'][0] == 'fault' else None, 'kind_of_write': t}
        if st['tables'] != prev['tables']:
            d = dict(base)
            d['what'] = '%s raised %s but the tables changed: %r -> %r' % (t, st['out'][1], prev['tables'], st['tables'])
            yield d
        # in-memory state of every instance held before the call
        before = prev['slots']
        after = st['slots'][:len(before)]
        for i, (a, b) in enumerate(zip(before, after)):
            if a != b:
                d = dict(base)
                d['what'] = '%s raised %s but held instance in slot %d changed: %r -> %r' % (t, st['out'][1], i, a, b)
                yield d
        # no instance registered for a row that does not exist / cache registration changed
        for k in range(3):
            ids_before = set(prev['cached'][k][0]) | set(prev['cached'][k][1])
            ids_after = set(st['cached'][k][0]) | set(st['cached'][k][1])
            rows = {r[0] for r in st['tables'][k]}
            extra = sorted(i for i in (ids_after - ids_before) if True)
            if extra:
                d = dict(base)
                d['what'] = '%s raised %s but instances got registered in the cache for ids %s of %s (rows present: %s)' % (
                    t, st['out'][1], extra, L.KINDS[k], sorted(rows & set(extra)))
                yield d


def oracle(case, obs):
    known = None
    for f in failures(case, obs):
        if classify(case, obs, f) is None:
            return f
        known = known or f
    return known


def classify(case, obs, f):
    # the INSERT of a create succeeded and the database error hit the re-read (_init) that follows it: sqlite has
    # autocommitted the row, the new instance is already registered
    if f['kind_of_write'] == 'create' and f['raised'] == 'EOperational' and f['fault_index'] == 1:
        return 'create_fails_after_insert'
    return None


def nontrivial(case, obs):
    for info in L.Walk(case, obs):
        if not info['ok'] and info['core'][0] in WRITES and info['st']['out'][1] != 'EBadHandle':
            return True
    return False
