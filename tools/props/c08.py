"""C08 -- doInTransaction is all-or-nothing and always restores the hub connection."""
import os
import queue
import shutil
import threading

PROP = 'C08'
PROPS_VO = 'Props/C08.vo'
CORR_VO = 'Corr/C08.vo'
GENERATORS = {}
SOURCES = ['sqlobject/dbconnection.py', 'sqlobject/sqlite/sqliteconnection.py', 'sqlobject/main.py', 'sqlobject/cache.py']
COQ_HEADER = '''From Coq Require Import List ZArith Bool. Import ListNotations. Open Scope Z_scope.
From Lib Require Import CorrLib. From Model Require Import Txn Hub. From Corr Require Import C08.'''
COQ_CASE_TYPE = 'anycase'
COQ_AGREE = 'agree_any'
COQ_SHARD = 200
REPLAY_KIND = 'input'
EXHAUSTIVE = {'quick': False, 'thorough': False}
IMPL_TIMEOUT = 1500
RULE = ('programs: 1..3 threads, each with a HISTORY on a FILE-backed sqlite database (timeout 0): one hub.doInTransaction(body), or (40% of the '
        'random cases, plus seeded families) up to four items -- doInTransaction calls and ORDINARY writes through the hub outside any call '
        '(create / assignment to / destroySelf of an instance loaded at the start / deleteMany), often "failing call, ordinary write, failing call"; body = 0..5 steps '
        'create / update a column of row id / delete row id (fetched inside the body; ids inside and outside the table) / assignment to and '
        'destroySelf of instances loaded BEFORE the call / class-level deleteMany, mixed or with nothing created or fetched inside the body, '
        'steps on a third, UNIQUE column u (create with u / assignment to u through a fetched or a pre-loaded instance) that the database '
        'refuses when another row carries the value -- guarded (the body catches DuplicateEntryError and carries on) or not --, '
        'and optionally a raise; for every seeded body '
        'also the variants raising after every prefix (including none and all); hub configurations: thread-level binding (every thread its own '
        'thread connection, real threading.Thread objects released one body step at a time by the controller, random interleavings), '
        'process-level binding (one caller, other threads only asked what the hub holds), BOTH (thread connections and a different process '
        'connection) and mixed (some threads without a connection of their own fall back to the process one; at most one of them calls).  After every scheduling step: committed table via an independent '
        'DB-API connection, in every thread its raw thread-local slot, the raw process slot and hub.getConnection() (identity of the objects), '
        'phase/result/transaction state of every thread, the outcome of its last ordinary write.  '
        'Non-trivial = a body with at least one write that ran to its raise or to its commit, or an ordinary write carried out; distinct = distinct (binding, table, histories, schedule).  '
        'SECOND STREAM (kind "nest", one caller, run in the main thread): the function is a TREE -- statements as above, nested try: hub.doInTransaction(inner) '
        'except <nothing | Exception | BaseException>: pass up to depth 4, raise of a BaseException that is not an Exception (subclasses of KeyboardInterrupt / '
        'SystemExit / GeneratorExit / BaseException, fresh objects held only weakly), hub.threadConnection = one of three DBConnections / del hub.threadConnection, '
        'tx.commit() / tx.commit(close=True) / tx.rollback() on tx = hub.getConnection() taken when the function starts; bindings thread / process / both; random trees '
        '(30% with hub steps -- those use only the statements that do not depend on a DBConnection\'s instance cache; del hub.threadConnection only where a process '
        'connection remains) plus families: a nested call after EVERY prefix of the outer body x inner end (return / Exception / BaseException) x except clause x outer '
        'end, and a BaseException after every prefix of a body.  Observed: result + exception identity, table, both slots and hub.getConnection() before / after, a log '
        '(before every step what the hub resolves to; at every exit of a doInTransaction: is its transaction obsolete and released, does anybody hold the write lock, the '
        'table), write lock while the caller still holds the exception, and again after it dropped it.')
EXPLANATION = ('Theorems C08_* (Coq, all bodies / all raise points / all schedules) over Model/Hub.v, a hand model of ConnectionHub.getConnection/'
               'doInTransaction with sqlite locking between the threads\' transactions; correspondence: the model evaluated by vm_compute against '
               'the real SQLObject driven by real threads after EVERY scheduling step; the oracle judges all-or-nothing, exception identity, hub '
               'restoration and release of the transaction directly on the observations, and for histories: an ordinary write is in the '
               'committed table at once, the table changes in no other step than a returning call or a successful ordinary write (so a later '
               'failing call leaves it exactly as it was before that call).  Nested calls / BaseExceptions / functions touching the hub or their transaction: '
               'theorems C08_nest_* by induction on the function tree over the one-caller big-step model (second half of Model/Hub.v; ncall s body with s arbitrary = '
               'every nesting depth): both hub slots after every exit path, nothing committed by a raising call without nested calls, every transaction of the nest '
               'closed on every exit path, BaseException included (e6ce2b8), and the refuted full all-or-nothing statement for nests (finding '
               'nested_commit_survives_outer_rollback); correspondence nagree: result, table, slots, the whole log, lock before and after the exception is dropped.')
TRUSTED_BASE = [
    'Coq 8.16.1 kernel + vm_compute (examples, correspondence); no native_compute',
    'Model/Hub.v is hand-written after ConnectionHub.getConnection/doInTransaction/threadConnection, Transaction.__init__/commit/rollback/'
    '_makeObsolete, DBAPI/SQLiteConnection.getConnection/releaseConnection; tied to the code by the correspondence run only',
    'modelled, not verified: sqlite locking between connections (a transaction\'s first write takes the write lock until commit/rollback; a write '
    'by another connection meanwhile raises OperationalError at once with timeout 0; reads never block in rollback-journal mode); '
    'threading.local; CPython reference counting',
    'sqlite: a statement refused by the UNIQUE constraint has taken the write lock and consumes no id (validated by execution); the '
    'UNIQUE column is written only by the u-steps (the other steps leave it NULL / alone)',
    'the body steps go through an eager class (columns a, b, UNIQUE u) bound to the hub (Cls(...), Cls.get(id).col = v, Cls.get(id).destroySelf()); '
    'the instance caches of the connections are not part of this model (C07 has them) except that get() of an id the transaction already '
    'holds sends no SELECT',
    'ordinary writes between the calls (histories) are create / assignment to or destroySelf of an instance loaded at the start / '
    'deleteMany by a thread that is outside any call; in mixed bindings only one thread without a connection of its own has a history '
    '(an ordinary write of another one would go into the caller\'s transaction: not modelled, plain_step answers XNested); reads outside '
    'the calls are not part of the histories (the parent connection\'s instance cache is not in this model)',
    'scheduling granularity is one body step: a step that raises is followed in the same scheduling step by rollback and the finally clause '
    '(no other thread runs in between); finer interleavings inside a step are not explored',
    '"released" is observed as: Transaction._connection is None and the DB-API connection it held is closed or back in the parent\'s pool',
    'commit(close=True) raising after the database commit: no cause is known any more inside the modelled programs since expire() was '
    'repaired in 1aded16 (the harness still prepares that environment -- "poison" -- in a tenth of the cases and the oracle reports it)',
    'nested calls / BaseExceptions / hub and transaction steps are modelled for ONE caller (no other thread runs meanwhile), big-step; '
    'nested transactions are independent DB-API connections of the same sqlite file (validated by execution: inner commit durable at once, '
    'inner write after an outer write refused with "database is locked", destroySelf() inside a nested call raises RecursionError because '
    'Transaction._SO_delete re-binds itself); since e6ce2b8 a BaseException is rolled back like an Exception, so nothing depends on '
    'Transaction.__del__ any more -- the harness still holds transactions and exception objects only weakly once a call is left and '
    'observes lock and open transactions again after the caller dropped the exception (the model says: no change)',
    'outside the model: a function that leaves the hub WITHOUT any connection for its thread (del hub.threadConnection with no process '
    'connection) while transactions are open -- commit / rollback then raise AttributeError out of SQLObject.expire(), which reaches for '
    'the connection through the hub (finding rollback_raises_when_hub_left_empty, witness script); the generator never produces it.  With '
    'hub steps only cache-independent statements are generated (a fetch through a DBConnection answers XNested in the model); expire() '
    'going to the cache of whatever connection the hub resolves to at that moment has no effect on those',
    'the correspondence harness tools/props/c08.py and the cases.v evaluation',
]

TABLE = 'verif_c08_row'
COLS = ['a', 'b', 'u']
UVALS = [None, 10, 11, 12, 13]            # values of the UNIQUE column: few, so that statements collide
_state = {'cls': None, 'hub': None, 'n': 0}


class UserErr(Exception):
    pass


class Abort(Exception):
    pass


def setup_class():
    if _state['cls'] is None:
        from sqlobject import SQLObject, IntCol
        from sqlobject.dbconnection import ConnectionHub
        hub = ConnectionHub()

        class VerifC08Row(SQLObject):
            _connection = hub
            a = IntCol(default=None)
            b = IntCol(default=None)
            u = IntCol(default=None, unique=True)
        _state['cls'], _state['hub'] = VerifC08Row, hub
    return _state['cls'], _state['hub']


# ------------------------------------------------------------------ histories
def progs(case):
    """per thread its history: items ['call', body] (one hub.doInTransaction(body)) and ['plain', step] (an ordinary write through
    the hub outside any doInTransaction).  Cases written before histories existed give one call per thread ('bodies')"""
    if 'progs' in case:
        return case['progs']
    return [[['call', b]] for b in case['bodies']]


def calls_of(prog):
    return [it[1] for it in prog if it[0] == 'call']


def plains_of(prog):
    return [it[1] for it in prog if it[0] == 'plain']


def ticks_of(prog):
    return sum((len(it[1]) + 2) if it[0] == 'call' else 1 for it in prog)


# ------------------------------------------------------------------ hub configurations
def hubcfg(case):
    """(slots, proc, nconn): per thread the index of the DBConnection bound as its threadConnection (or None), the index of the
    one bound as processConnection (or None), how many DBConnection objects there are.  Labels: 'thread' = every thread its own,
    no process connection; 'process' = only a process connection; 'both' = every thread its own AND a different process
    connection; 'mixed' = explicit 'slots'/'proc' (some threads without a connection of their own fall back to the process one)"""
    n = len(progs(case))
    if 'slots' in case:
        slots, proc = list(case['slots']), case.get('proc')
    elif case['mode'] == 'thread':
        slots, proc = list(range(n)), None
    elif case['mode'] == 'process':
        slots, proc = [None] * n, 0
    else:                       # 'both'
        slots, proc = list(range(n)), n
    used = [x for x in slots if x is not None] + ([proc] if proc is not None else [])
    return slots, proc, (max(used) + 1 if used else 0)


# ------------------------------------------------------------------ generation
VALS = [None, 0, 1, 2, 3, 4, 5]


def gen_body(rng, nrows, maxlen=5, allow_fail=True, held_only=None):
    """held_only: the body works only on instances loaded before the call and with class-level deletes -- nothing is created
    or fetched through the transaction (its cache stays empty); None = decide here"""
    n = rng.randint(0, maxlen)
    body = []
    if held_only is None:
        held_only = nrows > 0 and rng.random() < 0.2
    p_held = 1.0 if held_only else (0.3 if nrows > 0 else 0.0)
    for _ in range(n):
        r = rng.random()
        if rng.random() < p_held:
            i = rng.randint(1, nrows) if nrows > 0 else 1
            if r < 0.55 and nrows > 0:
                body.append(['hupdate', i, rng.randint(0, 1), rng.choice(VALS)])
            elif r < 0.8 and nrows > 0:
                body.append(['hdestroy', i])
            else:
                body.append(['deletemany', rng.randint(1, nrows + 1)])
        elif rng.random() < 0.22:
            body.append(gen_ustep(rng, nrows, inside=True))
        elif r < 0.35:
            body.append(['create', rng.choice(VALS), rng.choice(VALS)])
        elif r < 0.75:
            body.append(['update', rng.randint(1, max(1, nrows + 1)) if rng.random() < 0.85 else rng.randint(nrows + 2, nrows + 6),
                         rng.randint(0, 1), rng.choice(VALS)])
        else:
            body.append(['delete', rng.randint(1, max(1, nrows + 1))])
    if allow_fail and rng.random() < 0.35:
        body.insert(rng.randint(0, len(body)), ['fail', rng.randint(0, 3)])
    return body


def gen_ustep(rng, nrows, inside):
    """a step on the UNIQUE column u: ['ucreate', guard, a, b, u] / ['uupdate', guard, id, u] (row fetched inside the body) /
    ['uwrite', guard, id, u] (instance loaded at the start); guard = the program catches DuplicateEntryError and carries on"""
    guard = rng.random() < 0.7
    r = rng.random()
    if nrows == 0 or r < 0.5:
        return ['ucreate', guard, rng.choice(VALS), rng.choice(VALS), rng.choice(UVALS)]
    if inside and r < 0.75:
        return ['uupdate', guard, rng.randint(1, nrows + 1), rng.choice(UVALS)]
    return ['uwrite', guard, rng.randint(1, nrows), rng.choice(UVALS)]


def gen_rows(rng):
    n = rng.choice([0, 1, 2, 3, 3, 4, 4, 5])
    us = [10, 11, 12, 13, None, None]
    rng.shuffle(us)
    return [[rng.choice(VALS), rng.choice(VALS), us[i] if rng.random() < 0.7 else None] for i in range(n)]


def prefix_variants(rows, body):
    """the same body raising after every prefix (single caller)"""
    out = []
    plain = [s for s in body if s[0] != 'fail']
    for mode in ('thread', 'process', 'both'):
        for k in range(len(plain) + 1):
            b = plain[:k] + [['fail', k % 4]] + plain[k:]
            out.append({'mode': mode, 'rows': rows, 'bodies': [b] if mode == 'thread' else [b, []],
                        'sched': [0] * (len(b) + 3)})
        out.append({'mode': mode, 'rows': rows, 'bodies': [plain] if mode == 'thread' else [plain, []],
                    'sched': [0] * (len(plain) + 3)})
    for c in out:
        if c['mode'] == 'both':
            # the caller has its own connection, the second thread only the process connection
            c['mode'], c['slots'], c['proc'] = 'mixed', [0, None], 1
    for k, c in enumerate(out):
        c['cache'] = k % 2 == 0
        c['poison'] = [None] * len(c['bodies'])
    return out


def gen_plain(rng, nrows):
    """an ordinary write outside any doInTransaction: a new row, an assignment to / destroySelf of an instance loaded at the
    start, a class-level delete"""
    r = rng.random()
    if rng.random() < 0.2:
        return gen_ustep(rng, nrows, inside=False)
    if nrows == 0 or r < 0.45:
        return ['create', rng.choice(VALS), rng.choice(VALS)]
    if r < 0.75:
        return ['hupdate', rng.randint(1, nrows), rng.randint(0, 1), rng.choice(VALS)]
    if r < 0.88:
        return ['hdestroy', rng.randint(1, nrows)]
    return ['deletemany', rng.randint(1, nrows + 1)]


def failing(rng, body):
    if not any(s[0] == 'fail' for s in body):
        body = list(body)
        body.insert(rng.randint(0, len(body)), ['fail', rng.randint(0, 3)])
    return body


def historize(rng, c):
    """turn the one-call-per-thread case into histories: every calling thread goes on after its first doInTransaction with
    ordinary writes and further calls (often: failing call, ordinary write, failing call)"""
    slots, proc, _ = hubcfg(c)
    nrows = len(c['rows'])
    out = []
    sched = list(c['sched'])
    for t, body in enumerate(c['bodies']):
        watcher = (c['mode'] == 'process' and t > 0) or (c['mode'] == 'mixed' and slots[t] is None and not body)
        if watcher:
            out.append([])
            continue
        r = rng.random()
        if r < 0.4:
            prog = [['call', failing(rng, body)], ['plain', gen_plain(rng, nrows)],
                    ['call', failing(rng, gen_body(rng, nrows, maxlen=3))]]
            if rng.random() < 0.4:
                prog.append(['plain', gen_plain(rng, nrows)])
        else:
            prog = [['call', body]]
            if rng.random() < 0.3:
                prog.insert(0, ['plain', gen_plain(rng, nrows)])
            for _ in range(rng.randint(1, 3)):
                if rng.random() < 0.55:
                    prog.append(['plain', gen_plain(rng, nrows)])
                else:
                    b = gen_body(rng, nrows, maxlen=3)
                    prog.append(['call', failing(rng, b) if rng.random() < 0.4 else b])
        out.append(prog)
        for _ in range(ticks_of(prog) - (len(body) + 2)):
            sched.insert(rng.randint(0, len(sched)), t)
    c['progs'] = out
    c['sched'] = sched
    del c['bodies']
    return c


def history_variants(rows, body, w):
    """failing call / ordinary write w / failing call, the calls raising after every prefix of the body, by one caller under each
    kind of binding"""
    out = []
    plain = [s for s in body if s[0] != 'fail']
    for mode in ('thread', 'process', 'mixed'):
        for k in range(len(plain) + 1):
            b = plain[:k] + [['fail', k % 4]] + plain[k:]
            prog = [['call', b], ['plain', w], ['call', b], ['plain', w]]
            c = {'mode': mode, 'rows': rows, 'progs': [prog] if mode == 'thread' else [prog, []], 'sched': [0] * (ticks_of(prog) + 1)}
            if mode == 'mixed':
                c['slots'], c['proc'] = [0, None], 1
            out.append(c)
    for k, c in enumerate(out):
        c['cache'] = k % 2 == 0
        c['poison'] = [None] * len(c['progs'])
    return out


def refusal_variants(rows, body, refused):
    """the body with a statement the UNIQUE column refuses (and the body catches) put after every prefix, returning and raising
    at the end, by one caller under each kind of binding: what the body did before the refused statement must be committed /
    undone with the rest"""
    out = []
    plain = [s for s in body if s[0] != 'fail']
    for mode in ('thread', 'process', 'mixed'):
        for k in range(len(plain) + 1):
            for tail in ([], [['fail', k % 4]]):
                b = plain[:k] + [refused] + plain[k:] + tail
                c = {'mode': mode, 'rows': rows, 'bodies': [b] if mode == 'thread' else [b, []], 'sched': [0] * (len(b) + 3)}
                if mode == 'mixed':
                    c['slots'], c['proc'] = [0, None], 1
                out.append(c)
    for k, c in enumerate(out):
        c['cache'] = k % 2 == 0
        c['poison'] = [None] * len(c['bodies'])
    return out


def gen_case(rng):
    c = gen_case1(rng)
    if rng.random() < 0.4:
        historize(rng, c)
    return c


def gen_case1(rng):
    c = gen_case0(rng)
    c['cache'] = rng.random() < 0.5
    c['poison'] = [None] * len(c['bodies'])
    if rng.random() < 0.12 and c['rows']:
        # the fault: a parent-side instance on which expire() raises (needs a weak-only cache to stay findable)
        c['cache'] = False
        t = rng.randrange(len(c['bodies'])) if c['mode'] in ('thread', 'both') else 0
        pid = rng.randint(1, len(c['rows']))
        c['poison'][t] = pid
        if rng.random() < 0.7:
            # make the body touch that row (an extra step: the schedule gets one more turn for this thread)
            b = c['bodies'][t]
            b.insert(rng.randint(0, len(b)), rng.choice([['update', pid, rng.randint(0, 1), rng.choice(VALS)], ['delete', pid]]))
            c['sched'].append(t)
    return c


def gen_case0(rng):
    rows = gen_rows(rng)
    r = rng.random()
    if r < 0.2:
        body = gen_body(rng, len(rows))
        return {'mode': 'process', 'rows': rows, 'bodies': [body, []], 'sched': [0] * (len(body) + 2 + rng.randint(0, 1))}
    nthreads = 1 if r < 0.35 else (2 if r < 0.8 else 3)
    bodies = [gen_body(rng, len(rows)) for _ in range(nthreads)]
    sched = []
    for t, b in enumerate(bodies):
        sched += [t] * (len(b) + 2)
    rng.shuffle(sched)
    if rng.random() < 0.3:
        # let one thread run far ahead, so that lock conflicts are hit from both sides
        first = sched[0]
        sched = sorted(sched, key=lambda t: (t != first, rng.random()))
    sched += [rng.randrange(nthreads) for _ in range(rng.randint(0, 2))]
    c = {'mode': 'thread', 'rows': rows, 'bodies': bodies, 'sched': sched}
    r = rng.random()
    if r < 0.3:
        c['mode'] = 'both'                       # thread connections AND a (different) process connection
    elif r < 0.55:
        # some threads have no connection of their own and fall back to the process one; at most one of those calls
        # doInTransaction (a second one would find the first one's transaction in the process slot), the others only watch
        c['mode'] = 'mixed'
        k = rng.randint(1, 2)
        caller = rng.random() < 0.6
        c['bodies'] = bodies + [gen_body(rng, len(rows)) if (caller and j == 0) else [] for j in range(k)]
        c['slots'] = list(range(nthreads)) + [None] * k
        c['proc'] = nthreads if rng.random() < 0.8 else rng.randrange(nthreads)    # usually its own, sometimes a thread's connection
        if caller:
            t = nthreads
            extra = [t] * (len(c['bodies'][t]) + 2)
            for x in extra:
                sched.insert(rng.randint(0, len(sched)), x)
    return c



# ------------------------------------------------------------------ generation: nested programs
def gen_nstmt(rng, nrows, plain_only):
    if plain_only:
        return gen_plain(rng, nrows)
    b = []
    while not b:
        b = gen_body(rng, nrows, maxlen=1, allow_fail=False)
    return b[0]


def gen_nbody(rng, nrows, depth, plain_only, hubops, maxdepth=2, allow_del=True):
    body = []
    for _ in range(rng.randint(0, 4 if depth == 0 else 3)):
        r = rng.random()
        if depth < maxdepth and r < 0.27:
            body.append(['call', rng.choice(['none', 'none', 'exc', 'all']), gen_nbody(rng, nrows, depth + 1, plain_only, hubops, maxdepth, allow_del)])
        elif hubops and r < 0.45:
            # del hub.threadConnection only when the hub has a process connection to fall back to (see TRUSTED_BASE: with the hub
            # left EMPTY, commit / rollback raise out of SQLObject.expire() -- finding rollback_raises_when_hub_left_empty)
            body.append(['setthread', rng.randint(0, 2)] if rng.random() < 0.5 or not allow_del else ['delthread'])
        elif r < 0.51:
            body.append(['commit', rng.random() < 0.5])
        elif r < 0.55:
            body.append(['rollback'])
        else:
            body.append(gen_nstmt(rng, nrows, plain_only))
    r = rng.random()
    if r < 0.25:
        body.insert(rng.randint(0, len(body)), ['fail', rng.randint(0, 3)])
    elif r < 0.42:
        body.insert(rng.randint(0, len(body)), ['base', rng.randint(0, 3)])
    return body


def gen_nest(rng):
    rows = gen_rows(rng)
    hubops = rng.random() < 0.3
    bind = rng.choice(['thread', 'thread', 'process', 'both'])
    return {'kind': 'nest', 'bind': bind, 'rows': rows, 'cache': rng.random() < 0.5,
            'body': gen_nbody(rng, len(rows), 0, hubops, hubops, maxdepth=rng.choice([1, 2, 2, 3]), allow_del=bind != 'thread')}


def nest_variants(rows, outer, inner, binds=('thread', 'process', 'both')):
    """a nested call put after every prefix of the outer body; the inner function returns / raises an Exception / raises a
    BaseException at its end; the outer body lets it through / catches Exception / catches everything; the outer body returns /
    raises / raises a BaseException at its end"""
    out = []
    ends = ([], [['fail', 1]], [['base', 2]])
    n = 0
    for k in range(len(outer) + 1):
        for iend in ends:
            for catch in ('none', 'exc', 'all'):
                for oend in ends:
                    b = outer[:k] + [['call', catch, inner + iend]] + outer[k:] + oend
                    out.append({'kind': 'nest', 'bind': binds[n % len(binds)], 'rows': rows, 'cache': n % 2 == 0, 'body': b})
                    n += 1
    return out


def base_variants(rows, body):
    """the body raising a BaseException that is not an Exception after every prefix, under each binding"""
    out = []
    for bind in ('thread', 'process', 'both'):
        for k in range(len(body) + 1):
            out.append({'kind': 'nest', 'bind': bind, 'rows': rows, 'cache': k % 2 == 0, 'body': body[:k] + [['base', k % 4]] + body[k:]})
    return out


def nest_corpus():
    rows = [[1, 1, 10], [2, 2, None]]
    out = [
        # witness of nested_commit_survives_outer_rollback: the inner call returns, the outer function raises
        {'kind': 'nest', 'bind': 'thread', 'rows': rows, 'cache': True,
         'body': [['call', 'none', [['create', 7, 7]]], ['create', 8, 8], ['fail', 0]]},
        # witness of the FIXED finding base_exception_skips_rollback (e6ce2b8): rolled back, released, lock free -- regression case
        {'kind': 'nest', 'bind': 'process', 'rows': rows, 'cache': True, 'body': [['create', 8, 8], ['base', 1]]},
        {'kind': 'nest', 'bind': 'thread', 'rows': rows, 'cache': True, 'body': [['base', 0]]},
        # the outer function wrote: every write of the inner one meets its lock
        {'kind': 'nest', 'bind': 'thread', 'rows': rows, 'cache': True,
         'body': [['create', 8, 8], ['call', 'exc', [['create', 7, 7]]], ['hupdate', 1, 0, 5]]},
        {'kind': 'nest', 'bind': 'thread', 'rows': rows, 'cache': False,
         'body': [['call', 'all', [['create', 8, 8], ['base', 2]]], ['create', 9, 9]]},
        {'kind': 'nest', 'bind': 'both', 'rows': rows, 'cache': True, 'body': [['create', 8, 8], ['delthread'], ['create', 9, 9]]},
        {'kind': 'nest', 'bind': 'thread', 'rows': rows, 'cache': True,
         'body': [['call', 'exc', [['hdestroy', 1]]], ['call', 'none', [['call', 'none', [['create', 3, 3], ['base', 0]]]]]]},
        {'kind': 'nest', 'bind': 'thread', 'rows': rows, 'cache': True,
         'body': [['create', 8, 8], ['rollback'], ['call', 'exc', [['create', 1, 1]]], ['commit', True]]},
        {'kind': 'nest', 'bind': 'thread', 'rows': rows, 'cache': True,
         'body': [['create', 8, 8], ['commit', False], ['create', 9, 9], ['fail', 2]]},
        {'kind': 'nest', 'bind': 'process', 'rows': rows, 'cache': True,
         'body': [['setthread', 2], ['create', 8, 8], ['call', 'none', [['delthread'], ['create', 9, 9]]], ['fail', 3]]},
        {'kind': 'nest', 'bind': 'both', 'rows': rows, 'cache': True,
         'body': [['delthread'], ['call', 'none', [['create', 9, 9], ['setthread', 2]]], ['create', 4, 4]]},
        {'kind': 'nest', 'bind': 'thread', 'rows': rows, 'cache': True,
         'body': [['call', 'none', [['update', 1, 0, 5], ['call', 'none', [['delete', 2]]]]]]},
    ]
    # found by the first thorough run (faults of model / harness, see docs/notes/C08.md): destroySelf() through an obsolete nested
    # transaction; a swallowed exception object must not keep an outer transaction alive
    out += [
        {'kind': 'nest', 'bind': 'process', 'rows': [[None, 1, None]], 'cache': True,
         'body': [['call', 'none', [['rollback'], ['hdestroy', 1], ['commit', False], ['base', 1]]], ['fail', 0]]},
        {'kind': 'nest', 'bind': 'thread', 'rows': [[None, 1, None]], 'cache': True,
         'body': [['call', 'exc', [['update', 1, 0, 4], ['rollback'], ['delete', 1]]], ['call', 'exc', [['rollback'], ['delete', 1]]],
                  ['rollback'], ['hdestroy', 1]]},
        {'kind': 'nest', 'bind': 'process', 'rows': [[5, None, None]], 'cache': False,
         'body': [['call', 'all', [['hupdate', 1, 0, 5], ['call', 'exc', [['fail', 2], ['commit', True], ['hdestroy', 1]]], ['base', 3],
                                   ['call', 'exc', []]]], ['fail', 0]]},
    ]
    out += nest_variants(rows, [['create', 3, 3], ['update', 1, 0, 9]], [['create', 5, 5], ['hupdate', 2, 1, 6]])
    out += base_variants(rows, [['create', 3, 3], ['update', 1, 0, 9], ['delete', 2]])
    return out


def gen_nest_all(rng, tier):
    n = 500 if tier == 'quick' else 5000
    out = [gen_nest(rng) for _ in range(n)]
    for k in range(5 if tier == 'quick' else 50):
        rows = gen_rows(rng)
        po = k % 4 == 3
        outer = [gen_nstmt(rng, len(rows), po) for _ in range(rng.randint(0, 2))]
        inner = [gen_nstmt(rng, len(rows), po) for _ in range(rng.randint(0, 2))]
        if k % 4 == 1:
            inner = [['call', rng.choice(['none', 'exc', 'all']), inner]]
        binds = ('thread', 'process', 'both')
        if po:
            h = rng.choice([['setthread', rng.randint(0, 2)], ['delthread']])
            outer.insert(rng.randint(0, len(outer)), h)
            if h[0] == 'delthread':
                binds = ('both', 'process')
        out += nest_variants(rows, outer, inner, binds)
    for k in range(6 if tier == 'quick' else 60):
        rows = gen_rows(rng)
        out += base_variants(rows, gen_body(rng, len(rows), maxlen=3, allow_fail=False))
    return out


def corpus():
    return old_corpus() + nest_corpus()


def old_corpus():
    rows = [[1, 1], [2, 2]]
    out = [
        # two writers: the second is refused at its first write, the first commits
        {'mode': 'thread', 'rows': rows, 'bodies': [[['update', 1, 0, 5], ['create', 3, 3]], [['update', 2, 0, 7], ['create', 4, 4]]],
         'sched': [0, 1, 0, 1, 1, 0, 0, 1]},
        # reader first, then the other commits, then the reader writes on top
        {'mode': 'thread', 'rows': rows, 'bodies': [[['update', 1, 0, 5]], [['delete', 1], ['create', 9, 9]]],
         'sched': [0, 1, 1, 1, 1, 0, 0]},
        # a cached instance of a row the other thread deleted meanwhile
        {'mode': 'thread', 'rows': rows, 'bodies': [[['update', 2, 1, 0], ['fail', 1]], [['create', 1, 1], ['fail', 2]]],
         'sched': [0, 1, 1, 0, 0, 1]},
        {'mode': 'process', 'rows': rows, 'bodies': [[['create', 5, 5], ['update', 1, 1, 4], ['delete', 2]], []], 'sched': [0, 0, 0, 0, 0]},
        {'mode': 'process', 'rows': rows, 'bodies': [[['create', 5, 5], ['update', 7, 1, 4]], []], 'sched': [0, 0, 0, 0]},
        {'mode': 'thread', 'rows': [], 'bodies': [[]], 'sched': [0, 0, 0]},
    ]
    # thread connection WHILE the hub has a process connection (seeded defect c08_thread_binding_derived_from_process_binding):
    # the body must run inside the transaction (a raise undoes it), the process slot must be left alone
    out.append({'mode': 'mixed', 'slots': [0, None], 'proc': 1, 'rows': rows,
                'bodies': [[['update', 1, 0, 5], ['create', 3, 3], ['fail', 1]], []], 'sched': [0, 0, 0, 0]})
    out.append({'mode': 'mixed', 'slots': [0, None], 'proc': 1, 'rows': rows,
                'bodies': [[['update', 1, 0, 5], ['create', 3, 3]], []], 'sched': [0, 0, 0, 0]})
    out.append({'mode': 'both', 'rows': rows, 'bodies': [[['delete', 1], ['fail', 0]], [['create', 4, 4]]], 'sched': [0, 1, 0, 1, 0, 1]})
    # a thread without a connection of its own calls, two others have theirs; the process slot holds thread 0's connection
    out.append({'mode': 'mixed', 'slots': [0, 1, None], 'proc': 0, 'rows': rows,
                'bodies': [[['update', 1, 0, 5]], [], [['update', 2, 0, 6], ['fail', 3]]], 'sched': [2, 0, 2, 0, 2, 0]})
    for c in out:
        c['cache'] = True
        c['poison'] = [None] * len(c['bodies'])
    # witnesses of the FIXED finding commit_raises_after_commit (1aded16): the body touches the row whose parent-side instance
    # has its flag clear and no attributes; doInTransaction must simply return
    out.append({'mode': 'process', 'rows': rows, 'cache': False, 'poison': [1, None],
                'bodies': [[['update', 1, 0, 5], ['create', 3, 3]], []], 'sched': [0, 0, 0, 0]})
    out.append({'mode': 'thread', 'rows': rows, 'cache': False, 'poison': [None, 2],
                'bodies': [[['update', 1, 0, 5]], [['delete', 2]]], 'sched': [1, 1, 0, 0, 1, 0]})
    # the same environment, but the body does not touch that row: nothing happens
    out.append({'mode': 'thread', 'rows': rows, 'cache': False, 'poison': [2],
                'bodies': [[['update', 1, 0, 5], ['create', 3, 3]]], 'sched': [0, 0, 0, 0]})
    out += prefix_variants(rows, [['create', 3, 3], ['update', 1, 0, 9], ['delete', 2], ['update', 3, 1, None]])
    # bodies that create and fetch NOTHING through the transaction: assignments to / destroySelf of instances loaded before the
    # call, class-level deletes (seeded defect c08_rollback_skipped_without_subcaches: the transaction's cache stays empty)
    out += prefix_variants(rows, [['hupdate', 1, 0, 60], ['hdestroy', 2], ['deletemany', 1]])
    out.append({'mode': 'thread', 'rows': rows, 'cache': True, 'poison': [None, None],
                'bodies': [[['hupdate', 1, 0, 7], ['fail', 0]], [['deletemany', 2], ['hupdate', 1, 1, 3]]], 'sched': [0, 1, 0, 1, 0, 1, 1]})
    out.append({'mode': 'process', 'rows': rows, 'cache': True, 'poison': [None, None],
                'bodies': [[['update', 1, 0, 5], ['hdestroy', 1], ['update', 1, 1, 2], ['hupdate', 2, 0, 8], ['fail', 2]], []],
                'sched': [0] * 7})
    # histories (seeded defect c08_autocommit_restored_only_on_commit): a failing call, an ordinary write outside any call, a
    # failing call again -- the ordinary write is durable at once and the second failure leaves the table as it was before it
    out += history_variants(rows, [['create', 3, 3], ['update', 1, 0, 9]], ['create', 8, 8])
    out += history_variants(rows, [['hupdate', 1, 0, 60], ['deletemany', 2]], ['hupdate', 2, 1, 70])
    out.append({'mode': 'thread', 'rows': rows, 'cache': True, 'poison': [None, None],
                'progs': [[['call', [['create', 3, 3], ['fail', 0]]], ['plain', ['create', 4, 4]], ['call', [['delete', 1], ['fail', 1]]]],
                          [['plain', ['hupdate', 1, 0, 9]], ['call', [['update', 2, 1, 6]]], ['plain', ['hdestroy', 1]]]],
                'sched': [0, 1, 0, 0, 1, 0, 1, 0, 1, 0, 0, 1, 0, 1]})
    # a statement refused by the UNIQUE column in the middle of the body, caught by the body (seeded defect
    # c08_integrityerror_rolls_back_connection: the refusal threw away what the transaction had done before it)
    urows = [[1, 1, 10], [2, 2, None]]
    out += refusal_variants(urows, [['create', 3, 3], ['update', 1, 0, 9], ['hupdate', 2, 1, 7]], ['ucreate', True, 5, 5, 10])
    out += refusal_variants(urows, [['create', 3, 3], ['update', 1, 0, 9]], ['uupdate', True, 2, 10])
    out += refusal_variants(urows, [['hupdate', 1, 0, 9], ['deletemany', 1]], ['uwrite', True, 2, 10])
    out.append({'mode': 'thread', 'rows': urows, 'cache': True, 'poison': [None],
                'bodies': [[['update', 2, 0, 7], ['ucreate', False, 5, 5, 10], ['create', 6, 6]]], 'sched': [0] * 5})
    out.append({'mode': 'thread', 'rows': urows, 'cache': True, 'poison': [None, None],
                'progs': [[['plain', ['ucreate', True, 4, 4, 10]], ['plain', ['ucreate', False, 4, 4, 10]], ['plain', ['ucreate', False, 4, 4, 11]],
                           ['call', [['ucreate', True, 5, 5, 11], ['uwrite', True, 2, 12], ['uupdate', True, 1, 12], ['uupdate', False, 3, 10]]]],
                          [['call', [['ucreate', True, 7, 7, 10], ['create', 8, 8]]]]],
                'sched': [0, 0, 0, 1, 0, 0, 1, 0, 1, 0, 1, 0, 0, 1]})
    # an ordinary write while another thread's transaction holds the write lock is refused at once, nothing is written
    out.append({'mode': 'thread', 'rows': rows, 'cache': True, 'poison': [None, None],
                'progs': [[['call', [['update', 1, 0, 5], ['create', 3, 3]]]], [['plain', ['create', 4, 4]], ['plain', ['create', 5, 5]]]],
                'sched': [0, 0, 1, 0, 0, 1]})
    return out


def generate(rng, tier):
    return generate_old(rng, tier) + gen_nest_all(rng, tier)


def generate_old(rng, tier):
    n = 1200 if tier == 'quick' else 12000
    out = [gen_case(rng) for _ in range(n)]
    for k in range(40 if tier == 'quick' else 400):
        rows = gen_rows(rng)
        out += prefix_variants(rows, gen_body(rng, len(rows), allow_fail=False, held_only=(k % 3 == 0 and len(rows) > 0)))
    for k in range(10 if tier == 'quick' else 100):
        rows = gen_rows(rng)
        if not any(r[2] is not None for r in rows):
            rows = rows + [[0, 0, 10]]
        u = [r[2] for r in rows if r[2] is not None][0]
        kind = k % 3
        refused = (['ucreate', True, rng.choice(VALS), rng.choice(VALS), u] if kind == 0 else
                   ['uwrite', True, [i for i, r in enumerate(rows, 1) if r[2] != u][0], u] if kind == 1 and any(r[2] != u for r in rows) else
                   ['ucreate', True, None, None, u])
        out += refusal_variants(rows, gen_body(rng, len(rows), maxlen=3, allow_fail=False), refused)
    for k in range(8 if tier == 'quick' else 80):
        rows = gen_rows(rng)
        out += history_variants(rows, gen_body(rng, len(rows), maxlen=3, allow_fail=False, held_only=(k % 3 == 0 and len(rows) > 0)),
                                gen_plain(rng, len(rows)))
    return out


def search_cases(rng, tier):
    out = [gen_case(rng) for _ in range(1500)] + [gen_nest(rng) for _ in range(800)]
    for _ in range(60):
        out += prefix_variants(gen_rows(rng), gen_body(rng, 3, allow_fail=False))
    for _ in range(20):
        rows = gen_rows(rng)
        out += history_variants(rows, gen_body(rng, len(rows), maxlen=3, allow_fail=False), gen_plain(rng, len(rows)))
    return out


# ------------------------------------------------------------------ implementation side
EXC = {'UserErr': 'XUser', 'SQLObjectNotFound': 'XNotFound', 'OperationalError': 'XLocked', 'AttributeError': 'XAttribute',
       'DuplicateEntryError': 'XDuplicate'}


class Worker(threading.Thread):
    """works through its history when told to -- one 'step' command = entering a doInTransaction, one body step, its commit, or
    one ordinary write outside; answers 'probe' at any time"""

    def poison(self):
        """make the parent connection hold an instance of row `pid` on which expire() raises: its reload raised not-found
        (the row was away for a moment), so sqlmeta.expired is clear and the attributes are gone; the row is put back"""
        pid = self.sh['poison'][self.idx]
        if pid is None:
            return
        import sqlite3
        from sqlobject import SQLObjectNotFound
        cls = self.sh['cls']
        own = self.sh['slots'][self.idx]
        parent = self.sh['conns'][own if own is not None else self.sh['proc']]
        raw = sqlite3.connect(self.sh['fn'], timeout=0, isolation_level=None)
        row = raw.execute('SELECT id, a, b, u FROM %s WHERE id = ?' % TABLE, (pid,)).fetchone()
        p = cls.get(pid, connection=parent)
        raw.execute('DELETE FROM %s WHERE id = ?' % TABLE, (pid,))
        p.expire()
        try:
            p.a
        except SQLObjectNotFound:
            pass
        raw.execute('INSERT INTO %s (id, a, b, u) VALUES (?, ?, ?, ?)' % TABLE, row)
        raw.close()
        self.broken = p          # the application still holds it

    def __init__(self, idx, shared):
        threading.Thread.__init__(self)
        self.daemon = True
        self.idx, self.sh = idx, shared
        self.cmd, self.rep = queue.Queue(), queue.Queue()
        self.phase = 'idle'
        self.result = None
        self.tx = None
        self.low = None
        self.same = None
        self.keep = []
        self.todo = [list(it) for it in shared['progs'][idx]]
        self.cur_body = []
        self.ncalls, self.nplain, self.last_plain = 0, 0, None

    def token(self, c):
        """which object is it: one of the DBConnections, or the Transaction captured by a worker"""
        if c is None:
            return None
        for i, d in enumerate(self.sh['conns']):
            if c is d:
                return ['db', i]
        for w in self.sh['workers']:
            if w.tx is not None and c is w.tx:
                return ['tx', w.idx]
        if type(c).__name__ == 'Transaction':
            # a transaction nobody captured yet (the caller is still entering): whose is it?
            return ['tx?']
        return ['other']

    def probe(self):
        cls, hub = self.sh['cls'], self.sh['hub']
        try:
            tok = self.token(hub.getConnection())
        except AttributeError:
            tok = None
        raw_slot = self.token(getattr(hub.threadingLocal, 'connection', None))
        info = None
        if self.phase == 'done' and self.tx is not None:
            try:
                parent = self.tx._dbConnection
                released = self.tx._connection is None and self.low is not None and (
                    closed(self.low) or self.low in list(parent._threadPool.values()) or self.low in list(parent._pool or []))
                info = [bool(self.tx._obsolete), bool(released)]
            except AttributeError:
                info = [False, False]          # what the body saw as "the hub's connection" was no Transaction at all
        return {'resolve': tok, 'slot': raw_slot, 'proc': self.token(getattr(hub, 'processConnection', None)),
                'phase': self.phase, 'result': self.result, 'tx': info, 'same': self.same,
                'ncalls': self.ncalls, 'nplain': self.nplain, 'last_plain': self.last_plain}

    def wait(self):
        """inside the body: serve probes until the controller releases the next step"""
        while True:
            c = self.cmd.get()
            if c == 'probe':
                self.rep.put(self.probe())
            else:
                return c

    def body(self):
        cls, hub = self.sh['cls'], self.sh['hub']
        self.tx = hub.getConnection()
        self.low = getattr(self.tx, '_connection', None)
        self.phase = 'run'
        created = []
        for k, st in enumerate(self.cur_body):
            self.rep.put('tick')
            if self.wait() != 'step':
                raise Abort()
            self.k = k
            try:
                if st[0] == 'create':
                    o = cls(a=st[1], b=st[2])
                    created.append(o.id)
                    self.keep.append(o)       # the program keeps what it made (matters for weak-only caches)
                    del o
                elif st[0] == 'update':
                    o = cls.get(st[1])
                    self.keep.append(o)
                    setattr(o, COLS[st[2]], st[3])
                    del o
                elif st[0] == 'delete':
                    o = cls.get(st[1])
                    self.keep.append(o)
                    o.destroySelf()
                    del o
                elif st[0] == 'hupdate':
                    # an instance loaded before the call: its statement goes through the hub, i.e. through the transaction
                    setattr(self.held[st[1]], COLS[st[2]], st[3])
                elif st[0] == 'hdestroy':
                    self.held[st[1]].destroySelf()
                elif st[0] == 'deletemany':
                    cls.deleteMany(cls.q.id == st[1])
                elif st[0] in ('ucreate', 'uupdate', 'uwrite'):
                    created += self.ustep(st)
                elif st[0] == 'fail':
                    raise self.sh['errors'][st[1]]
            except Exception as e:  # noqa
                self.raised = e
                raise
        self.rep.put('tick')
        if self.wait() != 'step':
            raise Abort()
        self.returned = True
        return created

    def ustep(self, st):
        """a statement on the UNIQUE column; when it is refused and the step is guarded the program catches that and carries on"""
        from sqlobject.dberrors import DuplicateEntryError
        cls = self.sh['cls']
        made = []
        o = None
        if st[0] == 'uupdate':
            o = cls.get(st[2])                  # not-found is not caught
            self.keep.append(o)
        try:
            if st[0] == 'ucreate':
                o = cls(a=st[2], b=st[3], u=st[4])
                made.append(o.id)
                self.keep.append(o)
            elif st[0] == 'uupdate':
                o.u = st[3]
            else:
                self.held[st[2]].u = st[3]
        except DuplicateEntryError:
            if not st[1]:
                raise
        del o
        return made

    def plain(self, st):
        """an ordinary write through the hub, outside any doInTransaction"""
        cls = self.sh['cls']
        try:
            v = []
            if st[0] == 'create':
                o = cls(a=st[1], b=st[2])
                v = [o.id]
                self.keep.append(o)
                del o
            elif st[0] == 'hupdate':
                setattr(self.held[st[1]], COLS[st[2]], st[3])
            elif st[0] == 'hdestroy':
                self.held[st[1]].destroySelf()
            elif st[0] == 'deletemany':
                cls.deleteMany(cls.q.id == st[1])
            elif st[0] in ('ucreate', 'uwrite'):
                v = self.ustep(st)
            else:
                raise RuntimeError('not an ordinary write: %r' % (st,))
            return ['ret', v]
        except Exception as e:  # noqa
            name = type(e).__name__
            code = EXC.get(name, 'OTHER:' + name)
            if code == 'XAttribute':
                code = 'XNoConnection'
            return ['exc', code, 0, 0]

    def run(self):
        cls, hub = self.sh['cls'], self.sh['hub']
        if self.sh['slots'][self.idx] is not None:
            hub.threadConnection = self.sh['conns'][self.sh['slots'][self.idx]]
        self.poison()
        # what the program loaded before it calls doInTransaction: one instance per row, through the hub
        self.held = {}
        for i in range(1, self.sh['nrows'] + 1):
            self.held[i] = cls.get(i)
        self.rep.put('ready')
        while True:
            c = self.cmd.get()
            if c == 'probe':
                self.rep.put(self.probe())
            elif c == 'quit':
                break
            elif c == 'step':
                if not self.todo:
                    self.rep.put('tick')
                    continue
                kind, what = self.todo.pop(0)
                if kind == 'plain':
                    self.last_plain = self.plain(what)
                    self.nplain += 1
                    self.rep.put('tick')
                    continue
                self.cur_body = what
                self.tx, self.low, self.same, self.result = None, None, None, None
                self.raised, self.k, self.returned = None, 0, False
                try:
                    v = hub.doInTransaction(self.body)
                    self.result = ['ret', v]
                except Exception as e:  # noqa
                    name = type(e).__name__
                    code = EXC.get(name, 'OTHER:' + name)
                    if code == 'XAttribute':
                        # raised by the body? no: before the body was entered, or after it returned
                        code = 'XNoConnection' if self.tx is None else ('XCommit' if self.returned else 'OTHER:AttributeError')
                    self.result = ['exc', code, (self.sh['errors'].index(e) if code == 'XUser' and e in self.sh['errors'] else 0),
                                   (len(self.cur_body) if code == 'XCommit' else self.k)]
                    self.same = (self.raised is e) if self.raised is not None else None
                self.phase = 'done'
                self.ncalls += 1
                self.rep.put('tick')
        # hand the DB-API connections of this thread back
        if self.sh['slots'][self.idx] is not None:
            try:
                self.sh['conns'][self.sh['slots'][self.idx]].close()
            except Exception:  # noqa
                pass
        self.rep.put('bye')


def closed(low):
    import sqlite3
    try:
        low.execute('SELECT 1')
        return False
    except sqlite3.ProgrammingError as e:
        return 'closed' in str(e).lower()


def run_case(case, workdir):
    import sqlite3
    from sqlobject.sqlite.sqliteconnection import SQLiteConnection
    cls, hub = setup_class()
    fn = os.path.join(workdir, 't.db')
    n = len(progs(case))
    setupc = SQLiteConnection(fn, timeout=0)
    cls.createTable(connection=setupc)
    raw = sqlite3.connect(fn, timeout=0, isolation_level=None)
    for r in case['rows']:
        raw.execute('INSERT INTO %s (a, b, u) VALUES (?, ?, ?)' % TABLE, tuple(list(r) + [None] * (3 - len(r))))
    setupc.close()
    cache = bool(case.get('cache', True))
    slots, proc, nconn = hubcfg(case)
    conns = [SQLiteConnection(fn, timeout=0, cache=cache) for _ in range(nconn)]
    if proc is not None:
        hub.processConnection = conns[proc]
    shared = {'cls': cls, 'hub': hub, 'conns': conns, 'progs': progs(case), 'mode': case['mode'], 'fn': fn,
              'slots': slots, 'proc': proc, 'nrows': len(case['rows']),
              'poison': case.get('poison') or [None] * n,
              'errors': [UserErr('e%d' % i) for i in range(4)], 'workers': []}
    workers = [Worker(i, shared) for i in range(n)]
    shared['workers'] = workers
    for w in workers:
        w.start()
        if w.rep.get(timeout=60) != 'ready':
            raise RuntimeError('worker did not start')

    def table():
        rows = [[r[0], [r[1], r[2], r[3]]] for r in raw.execute('SELECT id, a, b, u FROM %s ORDER BY id' % TABLE).fetchall()]
        seq = raw.execute("SELECT seq FROM sqlite_sequence WHERE name = '%s'" % TABLE).fetchall()
        return [rows, (seq[0][0] if seq else 0) + 1]

    def ask(w, c):
        w.cmd.put(c)
        return w.rep.get(timeout=60)

    steps = []
    try:
        initial = {'table': table(), 'threads': [ask(w, 'probe') for w in workers]}
        for t in case['sched']:
            ask(workers[t], 'step')
            steps.append({'table': table(), 'threads': [ask(w, 'probe') for w in workers]})
    finally:
        for w in workers:
            if w.phase == 'run':
                # unblock a body that is still waiting: it raises SystemExit-like and is rolled back
                w.cmd.put('abort')
        for w in workers:
            w.cmd.put('quit')
        for w in workers:
            w.join(timeout=60)
        raw.close()
        try:
            del hub.processConnection
        except AttributeError:
            pass
        for c in conns:
            try:
                c.close()
            except Exception:  # noqa
                pass
    return {'initial': initial, 'steps': steps}



# ------------------------------------------------------------------ one caller: nested calls, BaseExceptions, bodies touching the hub
# case: {'kind': 'nest', 'bind': 'thread' | 'process' | 'both', 'rows', 'cache', 'body'}; a body is a list of the steps above and
#   ['call', 'none' | 'exc' | 'all', inner body]   try: hub.doInTransaction(inner) except <nothing / Exception / BaseException>: pass
#   ['base', n]                                     raise a BaseException that is not an Exception (a new object)
#   ['setthread', c] / ['delthread']                hub.threadConnection = DBConnection c / del hub.threadConnection
#   ['commit', close] / ['rollback']                on tx = hub.getConnection() taken when the body starts
NEST_OPS = ('call', 'base', 'setthread', 'delthread', 'commit', 'rollback')
PLAIN_OPS = ('create', 'hupdate', 'hdestroy', 'deletemany', 'ucreate', 'uwrite', 'fail')
_last_base = {'ref': None}


def is_nest(case):
    return case.get('kind') == 'nest'


class _Tagged(object):
    def _tag(self, n):
        import weakref
        self.tag = n
        _last_base['ref'] = weakref.ref(self)


class BaseKI(KeyboardInterrupt, _Tagged):
    def __init__(self, n):
        KeyboardInterrupt.__init__(self, n)
        self._tag(n)


class BaseSE(SystemExit, _Tagged):
    def __init__(self, n):
        SystemExit.__init__(self, n)
        self._tag(n)


class BaseGE(GeneratorExit, _Tagged):
    def __init__(self, n):
        GeneratorExit.__init__(self, n)
        self._tag(n)


class BaseBE(BaseException, _Tagged):
    def __init__(self, n):
        BaseException.__init__(self, n)
        self._tag(n)


class NestUserErr(UserErr, _Tagged):
    """the n-th exception of the program's own -- a NEW object at every raise, which the harness holds only weakly: an object
    kept somewhere would keep, through its traceback and the frames' f_back chain, every transaction of the nest alive"""
    def __init__(self, n):
        UserErr.__init__(self, 'e%d' % n)
        self._tag(n)


BASES = [BaseKI, BaseSE, BaseGE, BaseBE]


def walk(body):
    """every step of the body, at any depth"""
    for st in body:
        yield st
        if st[0] == 'call':
            for x in walk(st[2]):
                yield x


def nest_depth(body):
    return 1 + max([nest_depth(st[2]) for st in body if st[0] == 'call'] or [0])


class NestRunner(object):
    def __init__(self, cls, hub, conns, raw, errors, held):
        self.cls, self.hub, self.conns, self.raw, self.errors, self.held = cls, hub, conns, raw, errors, held
        self.table = None
        self.txs = []            # in the order they were opened: {'obj': strong ref until its call is left, 'ref': weak, 'low'}
        self.log = []
        self.keep = []
        self.k_top = 0
        self.raised = None

    def token(self, c):
        if c is None:
            return None
        for i, d in enumerate(self.conns):
            if c is d:
                return ['db', i]
        for i, t in enumerate(self.txs):
            if t['ref']() is c:
                return ['tx', i]
        return ['other']

    def hubstate(self):
        try:
            r = self.token(self.hub.getConnection())
        except AttributeError:
            r = None
        return [self.token(getattr(self.hub.threadingLocal, 'connection', None)),
                self.token(getattr(self.hub, 'processConnection', None)), r]

    def locked(self):
        import sqlite3
        try:
            self.raw.execute('BEGIN IMMEDIATE')
            self.raw.execute('ROLLBACK')
            return False
        except sqlite3.OperationalError:
            return True

    def snapshot(self, id0, outcome):
        """a doInTransaction has just been left: the state of its transaction (and of those opened inside it) right now"""
        for i in range(id0, len(self.txs)):
            t = self.txs[i]
            tx = t['obj']
            if tx is None:
                continue
            root = tx
            while type(root).__name__ == 'Transaction':
                root = root._dbConnection
            low = t['low']
            released = tx._connection is None and low is not None and (
                closed(low) or low in list(root._threadPool.values()) or low in list(root._pool or []))
            if i == id0:
                self.log.append(['exit', i, not (bool(tx._obsolete) and bool(released)), self.locked(), outcome,
                                 [bool(tx._obsolete), bool(released)], self.table()])
            t['obj'], t['low'] = None, None
            del tx, low, root

    def do_call(self, steps, depth):
        id0 = len(self.txs)
        try:
            v = self.hub.doInTransaction(self.body, steps, depth)
        except BaseException as e:
            self.snapshot(id0, 'exc' if isinstance(e, Exception) else 'base')
            return e
        self.snapshot(id0, 'ret')
        return ('ret', v)

    def call(self, steps, catch, depth):
        out = self.do_call(steps, depth + 1)
        if isinstance(out, tuple):
            return out[1]
        if catch == 'all' or (catch == 'exc' and isinstance(out, Exception)):
            self.raised = None
            out = None           # the program drops the exception: frames and transactions it kept alive go
            return []
        try:
            raise out
        finally:
            del out

    def body(self, steps, depth):
        import weakref
        tx = self.hub.getConnection()
        self.txs.append({'obj': tx, 'ref': weakref.ref(tx), 'low': getattr(tx, '_connection', None)})
        self.log.append(['enter', len(self.txs) - 1, self.hubstate()[2], self.table()])
        created = []
        for k, st in enumerate(steps):
            if depth == 0:
                self.k_top = k
            self.log.append(['step', self.hubstate()[2]])
            try:
                op = st[0]
                if op == 'call':
                    created += self.call(st[2], st[1], depth)
                elif op == 'base':
                    raise BASES[st[1] % 4](st[1])
                elif op == 'setthread':
                    self.hub.threadConnection = self.conns[st[1]]
                elif op == 'delthread':
                    del self.hub.threadConnection
                elif op == 'commit':
                    if st[1]:
                        tx.commit(close=True)
                    else:
                        tx.commit()
                elif op == 'rollback':
                    tx.rollback()
                elif op == 'fail':
                    raise NestUserErr(st[1])
                else:
                    created += nest_stmt(self, st)
            except BaseException as e:
                try:
                    self.raised = weakref.ref(e)
                except TypeError:            # a built-in exception object (AssertionError, AttributeError, RecursionError)
                    self.raised = e
                raise
        return created


def nest_stmt(R, st):
    """one statement through the hub (as Worker.body)"""
    from sqlobject.dberrors import DuplicateEntryError
    cls = R.cls
    made = []
    if st[0] == 'create':
        o = cls(a=st[1], b=st[2])
        made.append(o.id)
        R.keep.append(o)
    elif st[0] == 'update':
        o = cls.get(st[1])
        R.keep.append(o)
        setattr(o, COLS[st[2]], st[3])
    elif st[0] == 'delete':
        o = cls.get(st[1])
        R.keep.append(o)
        o.destroySelf()
    elif st[0] == 'hupdate':
        setattr(R.held[st[1]], COLS[st[2]], st[3])
    elif st[0] == 'hdestroy':
        R.held[st[1]].destroySelf()
    elif st[0] == 'deletemany':
        cls.deleteMany(cls.q.id == st[1])
    elif st[0] in ('ucreate', 'uupdate', 'uwrite'):
        o = None
        if st[0] == 'uupdate':
            o = cls.get(st[2])
            R.keep.append(o)
        try:
            if st[0] == 'ucreate':
                o = cls(a=st[2], b=st[3], u=st[4])
                made.append(o.id)
                R.keep.append(o)
            elif st[0] == 'uupdate':
                o.u = st[3]
            else:
                R.held[st[2]].u = st[3]
        except DuplicateEntryError:
            if not st[1]:
                raise
    else:
        raise RuntimeError('unknown step %r' % (st,))
    return made


NEST_EXC = dict(EXC, AssertionError='XAssert', RecursionError='XRecursion', NestUserErr='XUser')


def run_nest(case, workdir):
    import gc
    import sqlite3
    from sqlobject.sqlite.sqliteconnection import SQLiteConnection
    cls, hub = setup_class()
    fn = os.path.join(workdir, 't.db')
    setupc = SQLiteConnection(fn, timeout=0)
    cls.createTable(connection=setupc)
    raw = sqlite3.connect(fn, timeout=0, isolation_level=None)
    for r in case['rows']:
        raw.execute('INSERT INTO %s (a, b, u) VALUES (?, ?, ?)' % TABLE, tuple(list(r) + [None] * (3 - len(r))))
    setupc.close()
    conns = [SQLiteConnection(fn, timeout=0, cache=bool(case.get('cache', True))) for _ in range(3)]

    def table():
        rows = [[r[0], [r[1], r[2], r[3]]] for r in raw.execute('SELECT id, a, b, u FROM %s ORDER BY id' % TABLE).fetchall()]
        seq = raw.execute("SELECT seq FROM sqlite_sequence WHERE name = '%s'" % TABLE).fetchall()
        return [rows, (seq[0][0] if seq else 0) + 1]

    try:
        if case['bind'] in ('thread', 'both'):
            hub.threadConnection = conns[0]
        if case['bind'] == 'process':
            hub.processConnection = conns[0]
        elif case['bind'] == 'both':
            hub.processConnection = conns[1]
        held = {}
        for i in range(1, len(case['rows']) + 1):
            held[i] = cls.get(i)
        R = NestRunner(cls, hub, conns, raw, [UserErr('e%d' % i) for i in range(4)], held)
        R.table = table
        obs = {'table0': table(), 'hub0': R.hubstate()}
        out = R.do_call(case['body'], 0)
        if isinstance(out, tuple):
            v = out[1]
            obs['result'] = ['ret', v]
            obs['same'] = None
        else:
            name = type(out).__name__
            import weakref
            raised = R.raised() if isinstance(R.raised, weakref.ref) else R.raised
            obs['same'] = (raised is out) if R.raised is not None else None
            del raised
            if isinstance(out, Exception):
                code = NEST_EXC.get(name, 'OTHER:' + name)
                if code == 'XAttribute':
                    code = 'XNoConnection'
                n = getattr(out, 'tag', 0) if code == 'XUser' else 0
            else:
                code, n = 'XBase', getattr(out, 'tag', 99)
            obs['result'] = ['exc', code, n, R.k_top]
        obs['table'] = table()
        obs['hub'] = R.hubstate()
        obs['locked'] = R.locked()
        obs['log'] = R.log
        # the caller drops the exception
        out = None
        R.raised = None
        gc.collect()
        obs['final'] = {'locked': R.locked(),
                        'open': [i for i, t in enumerate(R.txs) if t['ref']() is not None and not t['ref']()._obsolete],
                        'table': table()}
        return obs
    finally:
        raw.close()
        for a in ('threadConnection', 'processConnection'):
            try:
                delattr(hub, a)
            except AttributeError:
                pass
        for c in conns:
            try:
                c.close()
            except Exception:  # noqa
                pass


def run_impl(cases):
    res = []
    for c in cases:
        _state['n'] += 1
        work = os.path.join(os.path.dirname(os.path.dirname(os.path.dirname(os.path.abspath(__file__)))), '.work',
                            'c08_%d_%d' % (os.getpid(), _state['n']))
        os.makedirs(work, exist_ok=True)
        try:
            res.append(run_nest(c, work) if is_nest(c) else run_case(c, work))
        except Exception as e:  # noqa
            res.append({'crash': '%s: %s' % (type(e).__name__, e)})
        finally:
            shutil.rmtree(work, ignore_errors=True)
    return res


# ------------------------------------------------------------------ Coq emission
def z(n):
    return '(%d)' % n if n < 0 else '%d' % n


def cval(v):
    return 'None' if v is None else '(Some %s)' % z(int(v))


def cb(x):
    return 'true' if x else 'false'


def cstep(s):
    if s[0] == 'create':
        return '(BCreate %s %s)' % (cval(s[1]), cval(s[2]))
    if s[0] == 'update':
        return '(BUpdate %s %d%%nat %s)' % (z(s[1]), s[2], cval(s[3]))
    if s[0] == 'delete':
        return '(BDelete %s)' % z(s[1])
    if s[0] == 'hupdate':
        return '(BWrite %s %d%%nat %s)' % (z(s[1]), s[2], cval(s[3]))
    if s[0] == 'hdestroy':
        return '(BErase %s)' % z(s[1])
    if s[0] == 'deletemany':
        return '(BDeleteMany %s)' % z(s[1])
    if s[0] == 'ucreate':
        return '(BCreateU %s %s %s %s)' % (cb(s[1]), cval(s[2]), cval(s[3]), cval(s[4]))
    if s[0] == 'uupdate':
        return '(BUpdateU %s %s %s)' % (cb(s[1]), z(s[2]), cval(s[3]))
    if s[0] == 'uwrite':
        return '(BWriteU %s %s %s)' % (cb(s[1]), z(s[2]), cval(s[3]))
    return '(BFail %d%%nat)' % s[1]


def ctab(t):
    return '([%s], %s)' % ('; '.join('(%s, [%s])' % (z(r[0]), '; '.join(cval(x) for x in r[1])) for r in t[0]), z(t[1]))


def cref(tok):
    if tok is None:
        return 'None'
    if tok[0] == 'db':
        return '(Some (CDb %d%%nat))' % tok[1]
    if tok[0] == 'tx':
        return '(Some (CTx %d%%nat))' % tok[1]
    return '(Some (CDb 999%nat))'


def cresult(r):
    if r[0] == 'ret':
        if not isinstance(r[1], list) or not all(isinstance(i, int) for i in r[1]):
            return '(Return [(-777)])'        # not the value of the body: never what the model computes
        return '(Return [%s])' % '; '.join(z(i) for i in r[1])
    code = r[1]
    # anything else (e.g. XCommit: an exception out of commit(close=True) after the body returned) is nothing the model produces
    e = {'XUser': '(XUser %d%%nat)' % r[2], 'XNotFound': 'XNotFound', 'XLocked': 'XLocked', 'XNoConnection': 'XNoConnection', 'XDuplicate': 'XDuplicate'}.get(code, 'XNested')
    return '(Raised %s %d%%nat)' % (e, r[3])


def cthread(t):
    ph = {'idle': '(VDone (Return []) None)', 'run': 'VRun'}.get(t['phase'])     # idle = no call yet
    if ph is None:
        x = 'None' if t['tx'] is None else '(Some (%s, %s))' % (cb(t['tx'][0]), cb(t['tx'][1]))
        ph = '(VDone %s %s)' % (cresult(t['result']), x)
    lp = t.get('last_plain')
    return '{| b_slot := %s; b_resolve := %s; b_phase := %s; b_plain := %s |}' % (
        cref(t.get('slot')), cref(t['resolve']), ph, 'None' if lp is None else '(Some %s)' % cresult(lp))


def cobs(o):
    proc = o['threads'][0].get('proc') if o['threads'] else None
    return '{| o_table := %s; o_proc := %s; o_threads := [%s] |}' % (ctab(o['table']), cref(proc), '; '.join(cthread(t) for t in o['threads']))


def cnbody(steps):
    if not steps:
        return 'NEnd'
    st, rest = steps[0], steps[1:]
    op = st[0]
    if op == 'call':
        return '(NCall %s %s %s)' % ({'none': 'KNone', 'exc': 'KExc', 'all': 'KAll'}[st[1]], cnbody(st[2]), cnbody(rest))
    if op == 'base':
        return '(NBase %d%%nat)' % st[1]
    if op == 'setthread':
        return '(NSetThread %d%%nat %s)' % (st[1], cnbody(rest))
    if op == 'delthread':
        return '(NDelThread %s)' % cnbody(rest)
    if op == 'commit':
        return '(NCommit %s %s)' % (cb(st[1]), cnbody(rest))
    if op == 'rollback':
        return '(NRollback %s)' % cnbody(rest)
    return '(NStep %s %s)' % (cstep(st), cnbody(rest))


def cnresult(r):
    if r[0] == 'exc' and r[1] in ('XBase', 'XAssert', 'XRecursion'):
        e = '(XBase %d%%nat)' % r[2] if r[1] == 'XBase' else r[1]
        return '(Raised %s %d%%nat)' % (e, r[3])
    return cresult(r)


def nest_binding(case):
    return {'thread': (0, None), 'process': (None, 0), 'both': (0, 1)}[case['bind']]


def coq_nest(case, obs):
    optn = lambda x: 'None' if x is None else '(Some %d%%nat)' % x  # noqa
    evs = []
    for e in obs['log']:
        if e[0] == 'step':
            evs.append('(EStep %s)' % cref(e[1]))
        elif e[0] == 'exit':
            evs.append('(EExit %d%%nat %s %s)' % (e[1], cb(e[2]), cb(e[3])))
    slot, proc = nest_binding(case)
    return ('(CNest {| nc_slot := %s; nc_proc := %s; nc_table := %s; nc_body := %s; nc_result := %s; nc_after := %s; '
            'nc_slot_after := %s; nc_proc_after := %s; nc_log := [%s]; nc_locked := %s; nc_final_locked := %s; nc_final_open := [%s] |})' % (
                optn(slot), optn(proc), ctab(obs['table0']), cnbody(case['body']), cnresult(obs['result']), ctab(obs['table']),
                cref(obs['hub'][0]), cref(obs['hub'][1]), '; '.join(evs), cb(obs['locked']), cb(obs['final']['locked']),
                '; '.join('%d%%nat' % i for i in obs['final']['open'])))


def coq_case(case, obs):
    if is_nest(case):
        return coq_nest(case, obs)
    return '(COld %s)' % coq_old(case, obs)


def coq_old(case, obs):
    sched = '; '.join('(%d%%nat, %s)' % (t, cobs(o)) for t, o in zip(case['sched'], obs['steps']))
    citem = lambda it: ('(ICall [%s])' % '; '.join(cstep(s) for s in it[1])) if it[0] == 'call' else '(IPlain %s)' % cstep(it[1])  # noqa
    bodies = '; '.join('[%s]' % '; '.join(citem(it) for it in p) for p in progs(case))
    poison = '; '.join('None' if x is None else '(Some %s)' % z(x) for x in (case.get('poison') or [None] * len(progs(case))))
    slots, proc, _ = hubcfg(case)
    optn = lambda x: 'None' if x is None else '(Some %d%%nat)' % x  # noqa
    return '{| c_slots := [%s]; c_proc := %s; c_table := %s; c_progs := [%s]; c_broken := [%s]; c_sched := [%s] |}' % (
        '; '.join(optn(x) for x in slots), optn(proc), ctab(obs['initial']['table']), bodies, poison, sched)


# ------------------------------------------------------------------ oracle: the property on the observations alone
def replay_writes(table, body_prefix):
    """the writes of the body applied to the table (what 'commits everything the function did' means)"""
    return replay_all(table, body_prefix)[:2]


def replay_all(table, body_prefix):
    """-> (table, created ids, indices of the steps the UNIQUE column refuses).  A refused statement writes nothing; whatever
    else the body did -- before it and after it -- counts"""
    rows = {r[0]: list(r[1]) for r in table[0]}
    nxt = table[1]
    created = []
    refused = []

    def taken(u, but=None):
        return u is not None and any(r[2] == u for i, r in rows.items() if i != but)

    for k, s in enumerate(body_prefix):
        if s[0] == 'create':
            rows[nxt] = [s[1], s[2], None]
            created.append(nxt)
            nxt += 1
        elif s[0] in ('update', 'hupdate'):
            if s[1] in rows:
                rows[s[1]][s[2]] = s[3]
        elif s[0] in ('delete', 'hdestroy', 'deletemany'):
            rows.pop(s[1], None)
        elif s[0] == 'ucreate':
            if taken(s[4]):
                refused.append(k)
            else:
                rows[nxt] = [s[2], s[3], s[4]]
                created.append(nxt)
                nxt += 1
        elif s[0] in ('uupdate', 'uwrite'):
            if s[2] in rows:
                if taken(s[3], but=s[2]):
                    refused.append(k)
                else:
                    rows[s[2]][2] = s[3]
    return [[[i, rows[i]] for i in sorted(rows)], nxt], created, refused


def fail(k, what, **kw):
    d = {'step': k, 'what': what}
    d.update(kw)
    return d


def oracle(case, obs):
    """the first failure that no finding explains, else the first explained one"""
    known = None
    for f in failures(case, obs):
        if classify(case, obs, f) is None:
            return f
        known = known or f
    return known



OLD_OPS = ('create', 'update', 'delete', 'hupdate', 'hdestroy', 'deletemany', 'ucreate', 'uupdate', 'uwrite', 'fail')


def nest_failures(case, obs):
    body = case['body']
    ops = set(st[0] for st in walk(body))
    r = obs['result']
    log = obs['log']
    hubpure = not ({'setthread', 'delthread'} & ops)
    selfcommit = 'commit' in ops or not hubpure      # the function commits on its own account / writes through autocommit connections
    raised = r[0] == 'exc'
    # all or nothing, for the call the caller made ...
    if raised and obs['table'] != obs['table0'] and not selfcommit:
        yield fail(0, 'doInTransaction raised but the committed table is not the table before the call',
                   kind='nested_commit_survives' if 'call' in ops else 'committed_but_raised', before=obs['table0'], after=obs['table'], result=r)
    # ... and for every call inside it: one that is left with an exception and inside which no further call returned leaves the table alone
    stack = []
    for e in log:
        if e[0] == 'enter':
            stack.append([e[1], e[3], False])
        elif e[0] == 'exit' and stack:
            i, tb, inner_ret = stack.pop()
            if i == e[1] and e[4] != 'ret' and not selfcommit and not inner_ret and e[6] != tb and i > 0:
                yield fail(0, 'a nested doInTransaction raised but the committed table changed while it ran', kind='committed_but_raised', tx=i)
            if stack and (e[4] == 'ret' or inner_ret):
                stack[-1][2] = True
    if not raised and ops <= set(OLD_OPS):
        want, created, refused = replay_all(obs['table0'], body)
        if obs['table'] != want:
            yield fail(0, 'the table after a returning doInTransaction is not the table before plus everything the body did',
                       kind='not_all', expected=want, actual=obs['table'])
        if r[1] != created:
            yield fail(0, 'the value of the body was not handed back', kind='value', expected=created, actual=r[1])
    top = [st[0] for st in body]
    if not raised and ('fail' in top or 'base' in top):
        yield fail(0, 'doInTransaction returned although the body raises', kind='swallowed')
    if obs['same'] is False:
        yield fail(0, 'doInTransaction raised another exception object than the body', kind='other_exception')
    if raised and r[1] in ('XUser', 'XBase'):
        st = body[r[3]] if r[3] < len(body) else None
        want = ['fail' if r[1] == 'XUser' else 'base', r[2]]
        if st is None or not (st == want or (st[0] == 'call' and want in list(walk(st[2])))):
            yield fail(0, 'not an exception the body raises at that step', kind='other_exception', result=r)
    need = {'XAssert': {'rollback', 'commit'}, 'XRecursion': {'call'}, 'XNoConnection': {'setthread', 'delthread'}}.get(r[1] if raised else None)
    if need is not None and not (need & ops):
        yield fail(0, 'doInTransaction raised %s although the function does nothing that could make the transaction obsolete / '
                      'nest calls / unbind the hub' % r[1], kind='unexpected_exception', result=r)
    if raised and r[1].startswith('OTHER'):
        yield fail(0, 'doInTransaction raised %s' % r[1], kind='unexpected_exception', result=r)
    # the hub: a caller with a thread connection gets both slots back whatever the body did to them; a process-level caller the
    # process slot (and its thread slot stays empty unless the body itself bound one)
    if case['bind'] in ('thread', 'both') or hubpure:
        if obs['hub'] != obs['hub0']:
            yield fail(0, 'the hub does not hold / resolve to what it did before the call', kind='hub', expected=obs['hub0'], actual=obs['hub'])
    elif obs['hub'][1] != obs['hub0'][1]:
        yield fail(0, 'the process-level slot does not hold what it held before the call', kind='hub', expected=obs['hub0'], actual=obs['hub'])
    for e in log:
        if e[0] == 'enter' and e[2] != ['tx', e[1]]:
            yield fail(0, 'inside its doInTransaction the hub does not resolve to the transaction of that call', kind='hub', tx=e[1], actual=e[2])
    # released: whenever a doInTransaction is left its transaction is obsolete and the low-level connection handed back; after the
    # outermost one nobody holds the write lock
    for e in log:
        if e[0] == 'exit' and (e[2] or (e[1] == 0 and e[3])):
            yield fail(0, 'the transaction is not obsolete / its low-level connection not released / the write lock still held when doInTransaction is left',
                       kind='not_released', tx=e[1], outcome=e[4], state=e[5], locked=e[3])
    f = obs['final']
    if f['locked'] or f['open']:
        yield fail(0, 'after the caller dropped the exception a transaction is still open or the write lock held', kind='not_released', final=f)
    if f['table'] != obs['table']:
        yield fail(0, 'the committed table changed after doInTransaction was through', kind='partial', before=obs['table'], after=f['table'])


def failures(case, obs):
    if is_nest(case):
        for f in nest_failures(case, obs):
            yield f
        return
    prev = obs['initial']
    slots, proc, _ = hubcfg(case)
    P = progs(case)
    n = len(P)
    db = lambda x: None if x is None else ['db', x]  # noqa
    original = [db(slots[i] if slots[i] is not None else proc) for i in range(n)]
    for i, t in enumerate(prev['threads']):
        if t['resolve'] != original[i] or t.get('slot') != db(slots[i]) or t.get('proc') != db(proc):
            yield fail(-1, 'the hub does not hold / resolve to the connections that were bound', thread=i, actual=[t.get('slot'), t.get('proc'), t['resolve']])
    for k, (t, cur) in enumerate(zip(case['sched'], obs['steps'])):
        before, after = prev['threads'][t], cur['threads'][t]
        finished = after.get('ncalls', 0) > before.get('ncalls', 0) if 'ncalls' in after else (before['phase'] != 'done' and after['phase'] == 'done')
        wrote = after.get('nplain', 0) > before.get('nplain', 0)
        pres = after.get('last_plain') if wrote else None
        # all or nothing: the table changes only in the step in which a doInTransaction returns or an ordinary write outside
        # any doInTransaction is carried out
        if cur['table'] != prev['table'] and not (finished and after['result'][0] == 'ret') and not (wrote and pres[0] == 'ret'):
            yield fail(k, 'the committed table changed although no doInTransaction returned and no ordinary write succeeded in this step',
                       thread=t, kind='committed_but_raised' if finished else 'partial', before=prev['table'], after=cur['table'],
                       result=after['result'], plain=pres)
        if wrote:
            w = plains_of(P[t])[after['nplain'] - 1]
            if pres[0] == 'ret':
                # durable at once: the independent connection sees exactly this write
                want, created, refused = replay_all(prev['table'], [w])
                if refused and not w[1]:
                    yield fail(k, 'an ordinary write the UNIQUE column refuses raised nothing', thread=t, kind='plain_swallowed', write=w)
                if cur['table'] != want:
                    yield fail(k, 'an ordinary write outside any doInTransaction is not in the committed table at once (or more than it is)',
                               thread=t, kind='plain_not_durable', write=w, expected=want, actual=cur['table'])
                if pres[1] != created:
                    yield fail(k, 'an ordinary create did not get the next id', thread=t, kind='plain_value', expected=created, actual=pres[1])
            elif pres[1] == 'XDuplicate':
                if not (w[0] in ('ucreate', 'uwrite') and not w[1] and replay_all(prev['table'], [w])[2]):
                    yield fail(k, 'an ordinary write raised DuplicateEntryError although the UNIQUE column does not refuse it (or the program catches it)',
                               thread=t, kind='plain_refused', write=w, result=pres)
            else:
                busy = [j for j, x in enumerate(prev['threads']) if j != t and x['phase'] == 'run']
                if pres[1] != 'XLocked' or not busy:
                    yield fail(k, 'an ordinary write outside any doInTransaction raised %s%s' % (
                        pres[1], '' if busy else ' although no other thread is inside a doInTransaction'),
                        thread=t, kind='plain_refused', write=w, result=pres)
        if finished:
            body = calls_of(P[t])[after['ncalls'] - 1] if 'ncalls' in after else case['bodies'][t]
            r = after['result']
            if r[0] == 'ret':
                want, created, refused = replay_all(prev['table'], body)
                if any(not body[i][1] for i in refused):
                    yield fail(k, 'doInTransaction returned although a statement of the body was refused and the body does not catch that',
                               thread=t, kind='swallowed')
                if any(s[0] == 'fail' for s in body):
                    yield fail(k, 'doInTransaction returned although the body raises', thread=t, kind='swallowed')
                if cur['table'] != want:
                    yield fail(k, 'the table after a returning doInTransaction is not the table before plus everything the body did',
                                thread=t, kind='not_all', expected=want, actual=cur['table'])
                if r[1] != created:
                    yield fail(k, 'the value of the body was not handed back', thread=t, kind='value', expected=created, actual=r[1])
            else:
                if r[1] == 'XCommit' and cur['table'] == prev['table']:
                    yield fail(k, 'doInTransaction raised out of commit although the body returned', thread=t, kind='committed_but_raised',
                               result=r)
                if after['same'] is False:
                    yield fail(k, 'doInTransaction raised another exception object than the body', thread=t, kind='other_exception')
                fails = [(i, s) for i, s in enumerate(body) if s[0] == 'fail']
                if r[1] == 'XUser' and (not fails or fails[0][1][1] != r[2] or fails[0][0] != r[3]):
                    yield fail(k, 'not the exception the body raised', thread=t, kind='other_exception', result=r)
                if r[1] == 'XDuplicate':
                    # the step that raised is one the UNIQUE column refuses -- given what the body did before it -- and it is not guarded
                    st = body[r[3]] if r[3] < len(body) else None
                    ok = st is not None and st[0] in ('ucreate', 'uupdate', 'uwrite') and not st[1] and \
                        r[3] in replay_all(prev['table'], body[:r[3] + 1])[2]
                    if not ok:
                        yield fail(k, 'doInTransaction raised DuplicateEntryError out of a step the UNIQUE column does not refuse (or the body catches it)',
                                   thread=t, kind='other_exception', result=r)
                if r[1] not in ('XUser', 'XNotFound', 'XLocked', 'XCommit', 'XDuplicate'):
                    yield fail(k, 'doInTransaction raised %s' % r[1], thread=t, kind='unexpected_exception', result=r)
            if after['tx'] is not None and after['tx'] != [True, True]:
                yield fail(k, 'the transaction is not obsolete / its low-level connection not released after doInTransaction',
                            thread=t, kind='not_released', tx=after['tx'], result=after['result'])
        # the hub, slot by slot and thread by thread.  A thread inside its doInTransaction has the transaction in the slot it
        # took the connection from (its own if it has one, else the process slot); every other slot holds what it held at the start
        running = [j for j, x in enumerate(cur['threads']) if x['phase'] == 'run']
        proc_tx = [j for j in running if slots[j] is None]
        want_proc = ['tx', proc_tx[0]] if proc_tx else db(proc)
        for i, th in enumerate(cur['threads']):
            inside = th['phase'] == 'run'
            want_slot = (['tx', i] if inside else db(slots[i])) if slots[i] is not None else None
            want_res = want_slot if want_slot is not None else want_proc
            if th.get('slot') != want_slot:
                yield fail(k, "thread %d's own slot does not hold %s" % (i, 'its transaction' if inside else 'what it held before'),
                           thread=i, kind='hub', expected=want_slot, actual=th.get('slot'))
            if th.get('proc') != want_proc:
                yield fail(k, 'the process-level slot does not hold %s' % ('the transaction of the caller that took its connection from it'
                                                                          if proc_tx else 'what it held before'),
                           thread=i, kind='hub', expected=want_proc, actual=th.get('proc'))
            if th['resolve'] != want_res:
                yield fail(k, 'hub.getConnection() in thread %d is not %s' % (i, 'its transaction' if inside else 'the connection it resolved to before'),
                           thread=i, kind='hub', expected=want_res, actual=th['resolve'])
        prev = cur


def classify(case, obs, f):
    """commit_raises_after_commit (1aded16) and base_exception_skips_rollback (e6ce2b8) are fixed: their witnesses stay in the
    corpus and must pass.  Open: nested_commit_survives_outer_rollback (and the shape of rollback_raises_when_hub_left_empty,
    which no generated case has), both only reachable by cases of kind 'nest'"""
    if not is_nest(case):
        return None
    if case['bind'] == 'thread' and any(st[0] == 'delthread' for st in walk(case['body'])) and \
            any(e[0] == 'step' and e[1] is None for e in obs['log']) and f.get('kind') in ('other_exception', 'not_released', 'unexpected_exception'):
        # the function left the hub empty: commit / rollback raise out of expire() (never generated; the witness of the finding)
        return 'rollback_raises_when_hub_left_empty'
    if f.get('kind') == 'nested_commit_survives':
        # the outermost call raised, its own transaction was rolled back and released, and the difference is there because a
        # nested call had returned before
        log = obs['log']
        top = [e for e in log if e[0] == 'exit' and e[1] == 0]
        inner_ret = [e for e in log if e[0] == 'exit' and e[1] > 0 and e[4] == 'ret']
        if inner_ret and top and top[-1][5] == [True, True] and inner_ret[-1][6] == obs['table']:
            return 'nested_commit_survives_outer_rollback'
    return None


def nontrivial(case, obs):
    if is_nest(case):
        return any(e[0] == 'step' for e in obs.get('log', []))
    last = obs['steps'][-1]['threads'] if obs.get('steps') else []
    for prog, th in zip(progs(case), last):
        done = calls_of(prog)[:th.get('ncalls', 1 if th['phase'] == 'done' else 0)]
        if any(s[0] != 'fail' for body in done for s in body) or th.get('nplain', 0) > 0:
            return True
    return False


def key(case):
    if is_nest(case):
        return ['nest', case['bind'], case['rows'], case['body'], case.get('cache')]
    return [case['mode'], case.get('slots'), case.get('proc'), case['rows'], progs(case), case['sched'], case.get('cache'), case.get('poison')]


def distribution(cases, obs):
    d = {'mode': {}, 'threads': {}, 'results': {}, 'bodies_by_len': {}, 'commits_with_writes': 0, 'unfinished_threads': 0,
         'histories': 0, 'calls_per_thread': {}, 'plain_results': {}, 'fail_write_fail': 0,
         'returning_bodies_with_caught_refusal_after_a_write': 0, 'raising_bodies_with_caught_refusal_after_a_write': 0}
    nd = d['nested'] = {'cases': 0, 'bind': {}, 'depth': {}, 'results': {}, 'exits': {}, 'with_hub_steps': 0, 'with_commit_or_rollback': 0,
                        'inner_returned_outer_raised': 0, 'base_caught_inside': 0, 'inner_refused_by_outer_lock': 0}
    for c, o in zip(cases, obs):
        if is_nest(c):
            if not isinstance(o, dict) or 'log' not in o:
                continue
            nd['cases'] += 1
            nd['bind'][c['bind']] = nd['bind'].get(c['bind'], 0) + 1
            dp = str(nest_depth(c['body']))
            nd['depth'][dp] = nd['depth'].get(dp, 0) + 1
            r = o['result']
            name = 'return' if r[0] == 'ret' else r[1]
            nd['results'][name] = nd['results'].get(name, 0) + 1
            ops = set(st[0] for st in walk(c['body']))
            nd['with_hub_steps'] += bool({'setthread', 'delthread'} & ops)
            nd['with_commit_or_rollback'] += bool({'commit', 'rollback'} & ops)
            exits = [e for e in o['log'] if e[0] == 'exit']
            for e in exits:
                k = ('top_' if e[1] == 0 else 'inner_') + e[4]
                nd['exits'][k] = nd['exits'].get(k, 0) + 1
            nd['inner_returned_outer_raised'] += bool(r[0] == 'exc' and any(e[1] > 0 and e[4] == 'ret' for e in exits))
            nd['base_caught_inside'] += bool(any(e[1] > 0 and e[4] == 'base' for e in exits) and not (r[0] == 'exc' and r[1] == 'XBase'))
            nd['inner_refused_by_outer_lock'] += bool(any(e[1] > 0 and e[4] == 'exc' and e[3] for e in exits))
            continue
        if not isinstance(o, dict) or 'steps' not in o or not o['steps']:
            continue
        d['mode'][c['mode']] = d['mode'].get(c['mode'], 0) + 1
        P = progs(c)
        d['threads'][str(len(P))] = d['threads'].get(str(len(P)), 0) + 1
        if 'progs' in c:
            d['histories'] += 1
        # per thread what it went through, read off the observations step by step
        seen = [[] for _ in P]          # outcomes in order: 'ret' / 'exc' of calls, 'w' for a successful ordinary write
        prev = o['initial']
        for t, cur in zip(c['sched'], o['steps']):
            b, a = prev['threads'][t], cur['threads'][t]
            if a.get('ncalls', 0) > b.get('ncalls', 0):
                r = a['result']
                name = 'return' if r[0] == 'ret' else r[1]
                d['results'][name] = d['results'].get(name, 0) + 1
                body = calls_of(P[t])[a['ncalls'] - 1]
                L = str(len(body))
                d['bodies_by_len'][L] = d['bodies_by_len'].get(L, 0) + 1
                if r[0] == 'ret' and any(s[0] != 'fail' for s in body):
                    d['commits_with_writes'] += 1
                upto = body if r[0] == 'ret' else body[:r[3]]
                ref = [i for i in replay_all(prev['table'], upto)[2] if upto[i][1]]
                if ref and any(s[0] not in ('fail', 'ucreate', 'uupdate', 'uwrite') for s in upto[:ref[0]]):
                    d['returning_bodies_with_caught_refusal_after_a_write' if r[0] == 'ret' else
                      'raising_bodies_with_caught_refusal_after_a_write'] += 1
                seen[t].append(r[0])
            if a.get('nplain', 0) > b.get('nplain', 0):
                r = a['last_plain']
                name = 'written' if r[0] == 'ret' else r[1]
                d['plain_results'][name] = d['plain_results'].get(name, 0) + 1
                if r[0] == 'ret':
                    seen[t].append('w')
            prev = cur
        for prog, th, sn in zip(P, o['steps'][-1]['threads'], seen):
            nc = str(len(calls_of(prog)))
            d['calls_per_thread'][nc] = d['calls_per_thread'].get(nc, 0) + 1
            if th.get('ncalls', 0) < len(calls_of(prog)) and (prog and (any(calls_of(prog)) or c['mode'] in ('thread', 'both'))):
                d['unfinished_threads'] += 1
            if any(sn[i:i + 3] == ['exc', 'w', 'exc'] for i in range(len(sn))):
                d['fail_write_fail'] += 1
    return d


def explain(case, obs):
    if is_nest(case):
        return 'one caller, %s binding, body %r: result %r, table %r -> %r, hub %r -> %r, log %r' % (
            case['bind'], case['body'], obs.get('result'), obs.get('table0'), obs.get('table'), obs.get('hub0'), obs.get('hub'),
            [e[:6] for e in obs.get('log', [])])
    return 'mode %s, %d threads, schedule %r; last observation %r' % (
        case['mode'], len(progs(case)), case['sched'], obs['steps'][-1] if obs.get('steps') else obs)
