"""C02 -- SQL literals are injection-proof: each value renders as exactly one literal."""
import re

from tools.props import _sqlref as R

PROP = 'C02'
PROPS_VO = 'Props/C02.vo'
CORR_VO = 'Corr/C02.vo'
GENERATORS = {'Lit': 'tools.py2coq.gen_lit'}
SOURCES = ['sqlobject/converters.py', 'sqlobject/sqlbuilder.py', 'sqlobject/dbconnection.py', 'sqlobject/col.py']
COQ_HEADER = '''From Coq Require Import List NArith ZArith Bool. Import ListNotations. Open Scope N_scope.
From Lib Require Import Str Lex CorrLib. From Gen Require Import Lit. From Model Require Import Lit.
From Corr Require Import C02.'''
COQ_CASE_TYPE = 'case'
COQ_AGREE = 'agree'
REPLAY_KIND = 'input'
EXHAUSTIVE = {'quick': False, 'thorough': False}
RULE = ('values: every string over the 12-character metacharacter alphabet (quote, backslash, NUL, LF, CR, TAB, backspace, '
        'Ctrl-Z, %, _, -, a) up to length 2 (quick) / 3 (thorough), plus seeded random strings over a 40-character pool '
        '(those, double quote, ;, /, *, digits 0-7, x u U E n r t b Z, non-ASCII, astral) up to length 24, runs of quotes and '
        'backslashes up to 40, ints (0, +-1, 2^63 boundaries, random big), bools, None, dates/datetimes/times at their range ends, '
        'flat and nested sequences (list/tuple/dict/set); each rendered for all seven dialects and SELECTed on sqlite. '
        'sequences of values: every sequence over {1, 1.0, True, \'1\', None, "a\'"} up to length 3 (quick) / 4 (thorough) as a tuple, a '
        'list, an IN list and the arguments of func.vargs(*values), plus seeded random sequences of length 0-8 drawn WITH replacement '
        'from a pool of 1-4 members (confusable scalars 1/1.0/True/\'1\'/0/0.0/False/None/\'NULL\', strings holding quotes, backslashes, '
        'commas and parentheses, 64-bit boundary ints, floats, dates, a nested list/tuple, a column) in the positions sqlrepr(tuple/list/'
        'set/frozenset/dict/dict-keys/generator), IN(col, ...), func.vargs(...); '
        'statements: INSERT/UPDATE/columnClause/==/IN templates with such values for every dialect; real-table runs on sqlite '
        '(create, read back raw, ==, selectBy, IN, update, sentinel row); EnumCol DDL on sqlite; a malformed stream '
        '(lone surrogates, inf/nan, unknown types). Non-trivial = the value contains a character some dialect must escape, or '
        'is not a plain string; distinct = distinct (kind, payload).')
EXPLANATION = ('Theorems C02_* (Coq, all strings / values / lists) over the converters REGENERATED from converters.py, '
               'dbconnection.py and sqlbuilder.py on this run, against reference lexers and a tokenizer for each dialect; '
               'correspondence: exact text equality of sqlrepr and of the statement templates with the model for all seven dialects, '
               'python reference lexers == Coq reference lexers on every text, sqlite decoding SELECT <literal>; oracle: sqlite round '
               'trip and real-table behaviour, reference lexers applied to the implementation text for the other dialects; '
               'sequences of values: sqlite EXECUTES the rendered list as the arguments of a user function registered on the raw '
               'connection and must hand over exactly len(values) members with the values and types given, in order (multiset for '
               'set/dict), for every dialect the reference lexer splits the list and decodes each member; theorems C02_sequence_text, '
               'C02_list_members, C02_sequence_members, C02_call_args say the same for all lists in the model.')
TRUSTED_BASE = [
    'Coq 8.16.1 kernel + vm_compute (examples, correspondence); no native_compute',
    'tools/py2coq/strlang.py + gen_lit.py (transliteration of the string-building subset) and coq/Lib/Str.v (semantics of replace, %, join, slicing, in, startswith/endswith, upper on the two characters the code inspects, repr(int), %0Nd)',
    'assumed: the value handed to StringLikeConverter is a str (array/buffer inputs are outside the model); SQLOp operands are not Subquery',
    'coq/Lib/Lex.v: lexical rules of string literals -- ANSI (validated against the bundled sqlite on every run), MySQL default sql_mode, '
    'PostgreSQL standard_conforming_strings=on incl. E-strings, Transact-SQL line continuation: transcribed from vendor manuals, never executed; '
    'connection character set UTF-8 (no multi-byte charset whose trail byte can be a backslash or quote)',
    'coq/Lib/Lex.v tokens_fuel: a small statement tokenizer (words, integers, literals, comments, punctuation) standing for each dialect\'s scanner',
    'identifiers (table / column names) are developer input satisfying sqlbuilder.sqlIdentifier; a column is not literally named NULL',
    'floats, Decimal, timedelta and third-party date types are not modelled in Coq (oracle on sqlite only)',
    'what firebird/sybase/maxdb/mssql/mysql drivers do with a NUL character inside a statement is unknown; the sqlite driver refuses it (observed on every run)',
    'split_list in tools/props/c02.py (python splitter of a parenthesised list at its top-level commas, built on the reference lexers); its '
    'member count is compared with Model/Lit.v members over the Coq tokenizer on every modelled sequence case; sqlite create_function '
    'hands a user function the decoded SQL values unchanged (int/float/str/None)',
    'sqlbuilder.SQLCall.__sqlrepr__ is modelled by hand (call_sql = name ++ rendering of the argument tuple; Tie B only)',
    'the correspondence harness tools/props/c02.py, tools/props/_sqlref.py and the cases.v evaluation',
]

META = "'\\\x00\n\r\t\b\x1a%_-a"
POOL = list(META) + list('";/*01237xuUEnrtbZ ') + ['\u00e9', '\u4e2d', '\U0001F600', '\u00ff', '\x7f', '(', ')', ',', '=']
TABLE, IDNAME = 'verif_c02_row', 'id'


# ---------------------------------------------------------------- values <-> JSON
def vs(s):
    return {'t': 's', 'v': R.cps(s)}


def vi(z):
    return {'t': 'i', 'v': str(z)}


def py_of(v):
    import datetime
    t = v['t']
    if t == 's':
        return R.from_cps(v['v'])
    if t == 'i':
        return int(v['v'])
    if t == 'b':
        return bool(v['v'])
    if t == 'n':
        return None
    if t == 'd':
        return datetime.date(*v['v'])
    if t == 'dt':
        return datetime.datetime(*v['v'])
    if t == 'tm':
        return datetime.time(*v['v'])
    if t == 'seq':
        items = [py_of(x) for x in v['v']]
        k = v.get('k', 'list')
        if k == 'tuple':
            return tuple(items)
        if k == 'dict':
            return {x: i for i, x in enumerate(items)}
        if k == 'set':
            return set(items)
        if k == 'frozenset':
            return frozenset(items)
        if k == 'keys':
            return {x: i for i, x in enumerate(items)}.keys()
        if k == 'gen':
            return (x for x in items)
        return items
    if t == 'col':
        from sqlobject import sqlbuilder
        return sqlbuilder.Field('t', v['v'])
    if t == 'f':
        return float(v['v'])
    if t == 'dec':
        import decimal
        return decimal.Decimal(v['v'])
    if t == 'obj':
        return object()
    raise ValueError(t)


def coq_value(v):
    t = v['t']
    if t == 's':
        return '(VStr %s)' % R.coq_str(R.from_cps(v['v']))
    if t == 'i':
        return '(VInt %s)' % R.zlit(int(v['v']))
    if t == 'b':
        return '(VBool %s)' % ('true' if v['v'] else 'false')
    if t == 'n':
        return 'VNone'
    if t == 'd':
        return '(VDate %d %d %d)' % tuple(v['v'])
    if t == 'dt':
        return '(VDateTime %d %d %d %d %d %d %d)' % tuple(v['v'])
    if t == 'tm':
        return '(VTime %d %d %d %d)' % tuple(v['v'])
    if t == 'seq':
        return '(VSeq %s)' % R.coq_list([coq_value(x) for x in v['v']])
    return None


def modelled(v):
    if v['t'] == 'seq':
        return all(modelled(x) for x in v['v'])
    return v['t'] in ('s', 'i', 'b', 'n', 'd', 'dt', 'tm')


# ---------------------------------------------------------------- generation
def rand_string(rng, maxlen=24):
    r = rng.random()
    if r < 0.08:
        return rng.choice(["'", '\\']) * rng.randint(1, 40)
    if r < 0.14:
        return ''.join(rng.choice("'\\") for _ in range(rng.randint(1, 40)))
    if r < 0.45:
        return ''.join(rng.choice(META) for _ in range(rng.randint(0, 8)))
    if r < 0.55:   # NUL / backslash followed by digits and escape letters
        return ''.join(rng.choice(['\x00', '\\', '0', '1', '7', '8', 'x', 'u', 'n', "'", '4']) for _ in range(rng.randint(1, 8)))
    if r < 0.62:   # backslash + line breaks
        return ''.join(rng.choice(['\\', '\n', '\r', 'a', "'"]) for _ in range(rng.randint(1, 7)))
    if r < 0.7:
        return rng.choice(["x'); DROP TABLE %s; --" % TABLE, "' OR '1'='1", "a'/*", "*/ --", "\\'; DELETE FROM %s; --" % TABLE,
                           "';--", "E'\\", "\\' OR 1=1 -- ", "NULL", "(1)", "0", "-1", "''", "'", "\\", "1e5", "a\\\nb"])
    return ''.join(rng.choice(POOL) for _ in range(rng.randint(0, maxlen)))


def rand_int(rng):
    r = rng.random()
    if r < 0.4:
        return rng.choice([0, 1, -1, 9, 10, -10, 2 ** 31 - 1, -2 ** 31, 2 ** 63 - 1, -2 ** 63, 99, 100, 1000000])
    if r < 0.8:
        return rng.randint(-10 ** 6, 10 ** 6)
    return rng.randint(-10 ** 30, 10 ** 30)


FLOAT_EDGES = [0.0, -0.0, 0.5, -2.25, 123456.75, 1024.0, 5e-324, -5e-324, 2.2250738585072009e-308, 2.2250738585072014e-308,
               1e-300, 1.5e-07, 2.5e-06, 7.5e-08, 1e-07, 1e-05, 9.999e-05, 9.999999999999999e-05, 0.0001, 0.00010000000000000002,
               0.001, 0.1, 0.1 + 0.2, 1 / 3.0, 2 / 3.0, 1e15, 9007199254740993.0, 9999999999999998.0, 1e16, 1.0000000000000002e16,
               1e17, 1.2345678901234568e+17, 1e22, 1e23, 1e100, 1.7976931348623157e308, -1.7976931348623157e308, 4.9e-322,
               -2.2606631148481385e-299, 3.141592653589793, -1e-05, -1.5e-10, 6.02214076e23, 1.6e-19]


def rand_float(rng):
    import struct
    r = rng.random()
    if r < 0.25:
        return rng.choice(FLOAT_EDGES)
    if r < 0.5:        # any double: random bit pattern
        while True:
            x = struct.unpack('<d', struct.pack('<Q', rng.getrandbits(64)))[0]
            if x == x and x not in (float('inf'), float('-inf')):
                return x
    if r < 0.75:       # small magnitudes with many significant digits: 1e-300 .. 1e-4
        return rng.choice([1, -1]) * rng.uniform(1, 10) * 10.0 ** rng.randint(-300, -5)
    if r < 0.85:       # around the two places where repr switches to exponent notation
        return rng.choice([1, -1]) * rng.uniform(0.5, 2) * rng.choice([1e-4, 1e16])
    if r < 0.93:       # short decimals
        return rng.choice([1, -1]) * rng.randint(0, 99999) / 10.0 ** rng.randint(0, 9)
    return rng.choice([1, -1]) * rng.uniform(1, 10) * 10.0 ** rng.randint(17, 307)


def vf(x):
    return {'t': 'f', 'v': repr(x)}


def rand_scalar(rng):
    r = rng.random()
    if r < 0.55:
        return vs(rand_string(rng, 10))
    if r < 0.75:
        return vi(rand_int(rng))
    if r < 0.82:
        return {'t': 'b', 'v': rng.random() < 0.5}
    if r < 0.9:
        return {'t': 'n'}
    return rand_date(rng)


def rand_date(rng):
    r = rng.random()
    y = rng.choice([1, 9, 99, 999, 1000, 1999, 2024, 9999])
    mo, d = rng.choice([1, 9, 10, 12]), rng.choice([1, 9, 10, 28])
    hh, mi, ss, us = rng.choice([0, 9, 23]), rng.choice([0, 9, 59]), rng.choice([0, 59]), rng.choice([0, 1, 99999, 999999])
    if r < 0.4:
        return {'t': 'd', 'v': [y, mo, d]}
    if r < 0.8:
        return {'t': 'dt', 'v': [y, mo, d, hh, mi, ss, us]}
    return {'t': 'tm', 'v': [hh, mi, ss, us]}


def rand_seq(rng, depth=0):
    n = rng.choice([0, 1, 1, 2, 3, 4])
    items = []
    for _ in range(n):
        if depth == 0 and rng.random() < 0.12:
            items.append(rand_seq(rng, 1))
        else:
            items.append(rand_scalar(rng))
    k = rng.choice(['list', 'tuple', 'list', 'tuple', 'dict', 'set', 'frozenset'])
    if k in ('dict', 'set', 'frozenset'):
        # hashable, distinct, and at most one element so that iteration order is not an issue
        items = [x for x in items if x['t'] != 'seq'][:1]
    return {'t': 'seq', 'k': k, 'v': items}


# ---------------------------------------------------------------- sequences of values (comma-separated literal lists)
# members that render alike / compare equal in Python / look like list syntax
SEQ_FLOATS = [1.0, 0.0, -0.0, 0.5, -2.25, 1e-07, 1e16, 0.1, 3.0]
SEQ_STR_ALPHA = ["'", '\\', ',', '(', ')', ' ', '%', 'a', '1', 'E', 'N', '"', ';', '-', 'é', ', ']
SEQ_CONFUSABLE = [vi(1), vf(1.0), {'t': 'b', 'v': True}, vs('1'), vi(0), vf(0.0), {'t': 'b', 'v': False}, vs('0'), {'t': 'n'},
                  vs(''), vs('NULL'), vs("it's"), vs('a, b'), vs(')'), vs('(1, 2)'), vs("'"), vs('\\'), vs("', '"), vs('1.0'),
                  vs("a'b"), vs('E'), vi(-1), vi(3), vi(2 ** 63 - 1), vi(-2 ** 63), vf(-0.0), vs('t'), vs('%s'), vs("\\', 1"), vs('a')]
SEQ_SMALL = [vi(1), vf(1.0), {'t': 'b', 'v': True}, vs('1'), {'t': 'n'}, vs("a'")]
SEQ_POS_KINDS = {'value': ['tuple', 'list', 'set', 'frozenset', 'dict', 'keys', 'gen'],
                 'in': ['list', 'tuple', 'set', 'frozenset', 'dict', 'keys', 'gen'],
                 'call': ['args']}
UNORDERED = ('set', 'frozenset', 'dict', 'keys')


def seq_scalar(rng):
    r = rng.random()
    if r < 0.45:
        return rng.choice(SEQ_CONFUSABLE)
    if r < 0.7:
        return vs(''.join(rng.choice(SEQ_STR_ALPHA) for _ in range(rng.randint(0, 6))))
    if r < 0.8:
        return vi(rng.choice([0, 1, -1, 7, 10, 2 ** 31, -2 ** 63, 2 ** 63 - 1, rng.randint(-10 ** 6, 10 ** 6)]))
    if r < 0.88:
        return vf(rng.choice(SEQ_FLOATS))
    if r < 0.94:
        return rand_date(rng)
    return rng.choice([{'t': 'n'}, {'t': 'b', 'v': True}, {'t': 'b', 'v': False}])


def vseq_case(rng, pos=None):
    """a sequence of values in one of the positions where the library writes a comma-separated literal list; members are
    drawn WITH replacement from a small pool, so repeated, equal-but-differently-typed and nested members are the rule"""
    pos = pos or rng.choice(['value', 'value', 'in', 'call', 'call'])
    k = rng.choice(SEQ_POS_KINDS[pos])
    hashable = k in UNORDERED
    pool = [seq_scalar(rng) for _ in range(rng.choice([1, 1, 2, 2, 3, 4]))]
    if rng.random() < 0.35:      # a nested sequence (tuple when it has to be hashable), itself with repeats
        inner = [rng.choice(pool) for _ in range(rng.choice([0, 1, 2, 2, 3]))]
        pool.append({'t': 'seq', 'k': 'tuple' if hashable else rng.choice(['tuple', 'list']), 'v': inner})
    if pos == 'call' and rng.random() < 0.15:
        pool.append({'t': 'col', 'v': rng.choice(['c', 'c2'])})
    n = rng.choice([0, 1, 2, 2, 3, 3, 4, 5, 8])
    return {'kind': 'vseq', 'pos': pos, 'k': k, 'v': [rng.choice(pool) for _ in range(n)]}


def vseq_exhaustive(maxlen):
    """every sequence over SEQ_SMALL up to maxlen, as a tuple, a list, an IN list and the arguments of a call"""
    out, layer = [], [[]]
    seqs = [[]]
    for _ in range(maxlen):
        layer = [p + [x] for p in layer for x in SEQ_SMALL]
        seqs += layer
    for v in seqs:
        for pos, k in (('value', 'tuple'), ('value', 'list'), ('in', 'list'), ('call', 'args')):
            out.append({'kind': 'vseq', 'pos': pos, 'k': k, 'v': v})
    return out


def rand_ident(rng):
    return rng.choice(['t', 'my_table', 'T1', 'a.b', 'x_1', 'E', 'e', 'NULLS', 'col2'])


def stmt_case(rng):
    d = rng.choice(R.DIALECTS)
    r = rng.random()
    if r < 0.25:
        n = rng.randint(0, 4)
        return {'kind': 'insert', 'd': d, 'table': rand_ident(rng), 'names': [rand_ident(rng) for _ in range(n)],
                'values': [rand_scalar(rng) for _ in range(n)]}
    if r < 0.45:
        n = rng.randint(1, 3)
        return {'kind': 'update', 'd': d, 'table': rand_ident(rng), 'idname': rng.choice(['id', 'my_id']),
                'id': rng.choice([vi(rand_int(rng)), vs(rand_string(rng, 6))]),
                'sets': [[rand_ident(rng), rand_scalar(rng)] for _ in range(n)]}
    if r < 0.6:
        items = []
        if rng.random() < 0.4:
            items.append(['id', vi(rng.randint(0, 99))])
        for col in ('s', 'n', 's2'):
            if rng.random() < 0.6:
                if col == 'n':
                    items.append([col, rng.choice([vi(rand_int(rng)), {'t': 'n'}])])
                else:
                    items.append([col, rng.choice([vs(rand_string(rng, 8)), vs(rand_string(rng, 8)), {'t': 'n'}])])
        if not items:
            items.append(['s', vs(rand_string(rng, 8))])
        return {'kind': 'clause', 'd': d, 'items': items}
    if r < 0.8:
        col = rng.choice(['s', 'n', 'field'])
        if col == 's':
            v = rng.choice([vs(rand_string(rng, 10)), {'t': 'n'}])
        elif col == 'n':
            v = rng.choice([vi(rand_int(rng)), {'t': 'n'}])
        else:
            v = rng.choice([rand_scalar(rng), rand_seq(rng)])
        return {'kind': 'eq', 'd': d, 'col': col, 'v': v}
    if r < 0.9:
        return {'kind': 'like', 'd': d, 'helper': rng.choice(['startswith', 'endswith', 'contains']),
                'x': R.cps(rand_string(rng, 10))}
    col = rng.choice(['s', 'n', 'field'])
    if col == 'n':
        vals = [vi(rand_int(rng)) for _ in range(rng.randint(0, 4))]
    elif col == 's':
        vals = [vs(rand_string(rng, 8)) for _ in range(rng.randint(0, 4))]
    else:
        vals = [rand_scalar(rng) for _ in range(rng.randint(0, 4))]
    return {'kind': 'in', 'd': d, 'col': col, 'vs': vals}


def db_case(rng):
    xs = [rand_string(rng, 12) for _ in range(rng.randint(1, 3))]
    if rng.random() < 0.3:
        xs.append(xs[0])
    return {'kind': 'db', 'xs': [R.cps(x) for x in xs]}


def enum_case(rng):
    vals = []
    for _ in range(rng.randint(1, 3)):
        s = rand_string(rng, 6) if rng.random() < 0.6 else rng.choice(['two  spaces', ' lead', 'trail  ', 'a   b', "it''s  ok", '  '])
        if s and s not in vals:
            vals.append(s)
    if not vals:
        vals = ["a'b"]
    return {'kind': 'enum', 'values': [R.cps(x) for x in vals], 'other': R.cps(rand_string(rng, 5) + 'Q')}


def malformed(rng):
    r = rng.random()
    if r < 0.3:
        return {'kind': 'value', 'v': vs(rng.choice(['\udc00', 'a\ud800', '\udfff\'']))}
    if r < 0.6:
        return {'kind': 'value', 'v': {'t': 'f', 'v': rng.choice(['inf', '-inf', 'nan'])}}
    if r < 0.8:
        return {'kind': 'value', 'v': {'t': 'obj'}}
    return {'kind': 'value', 'v': {'t': 'dec', 'v': rng.choice(['NaN', 'Infinity', '1E+5', '-0.50', '12345678901234567890.123'])}}


def exhaustive_strings(maxlen):
    out = ['']
    layer = ['']
    for _ in range(maxlen):
        layer = [p + c for p in layer for c in META]
        out += layer
    return out


def corpus():
    return [
        # witness of the open finding pg_nul_octal
        {'kind': 'value', 'v': vs('a\x0012')},
        {'kind': 'value', 'v': vs('\x0041')},
        # witness of the open (model-level) finding tsql_line_continuation
        {'kind': 'value', 'v': vs('a\\\nb')},
        {'kind': 'value', 'v': vs('a\\\r\nb')},
        # witness of the open finding sqlite_int_out_of_range
        {'kind': 'value', 'v': vi(2 ** 63)},
        {'kind': 'value', 'v': vi(-2 ** 63)},
        # NUL alone: rejected by sqlite's driver and by PostgreSQL
        {'kind': 'value', 'v': vs('a\x00b')},
        {'kind': 'value', 'v': vs("x'); DROP TABLE t; --")},
        {'kind': 'value', 'v': vs("\\'")},
        {'kind': 'db', 'xs': [R.cps("x'); DELETE FROM %s; --" % TABLE), R.cps("\\")]},
        {'kind': 'db', 'xs': [R.cps("a\x00b")]},
        # seeded scenario: small floats must keep all their digits; witness of the open finding float_literal_misrounded
        {'kind': 'value', 'v': vf(1.5e-07)}, {'kind': 'value', 'v': vf(2.5e-06)}, {'kind': 'value', 'v': vf(7.5e-08)},
        {'kind': 'value', 'v': vf(-2.2606631148481385e-299)},
        # seeded scenario: a connection with debug on must execute the statement it rendered (UPDATE, DELETE, DDL)
        {'kind': 'db', 'conn': 'debug', 'xs': [R.cps('keep  me'), R.cps('line one\nline two')]},
        {'kind': 'db', 'conn': 'debug_txn', 'xs': [R.cps('a\t\tb'), R.cps(' x ')]},
        {'kind': 'enum', 'conn': 'debug', 'values': [R.cps('plain'), R.cps('two  spaces')], 'other': R.cps('two spaces')},
        # seeded scenario: a LIKE filter rendered more than once (count() then iteration; logging before use)
        {'kind': 'db', 'xs': [R.cps('100%'), R.cps('100 percent'), R.cps('snake_case'), R.cps('C:\\temp')]},
        {'kind': 'like', 'd': 'sqlite', 'helper': 'startswith', 'x': R.cps('50%_\\')},
        {'kind': 'like', 'd': 'mysql', 'helper': 'contains', 'x': R.cps('a\\b')},
        {'kind': 'enum', 'values': [R.cps("a'b"), R.cps('x')], 'other': R.cps("a''b")},
        {'kind': 'enum', 'values': [R.cps('a\\b')], 'other': R.cps('q')},
        # seeded scenario: the arguments of a SQL function call / the members of a list are data -- repeated ones stay
        {'kind': 'vseq', 'pos': 'call', 'k': 'args', 'v': [vs('abcdefgh'), vi(3), vi(3)]},
        {'kind': 'vseq', 'pos': 'call', 'k': 'args', 'v': [vs('%s|%s'), vs("it's"), vs("it's")]},
        {'kind': 'vseq', 'pos': 'call', 'k': 'args', 'v': [{'t': 'col', 'v': 'c'}, {'t': 'col', 'v': 'c'}]},
        {'kind': 'vseq', 'pos': 'in', 'k': 'list', 'v': [vs("it's"), vs("it's"), vs('nope')]},
        {'kind': 'vseq', 'pos': 'value', 'k': 'list', 'v': [vi(1), vf(1.0), {'t': 'b', 'v': True}, vs('1'), {'t': 'n'}, {'t': 'n'}]},
        {'kind': 'vseq', 'pos': 'value', 'k': 'tuple', 'v': [{'t': 'seq', 'k': 'list', 'v': [vi(2), vi(2)]},
                                                              {'t': 'seq', 'k': 'list', 'v': [vi(2), vi(2)]}, vs(', ')]},
        {'kind': 'vseq', 'pos': 'value', 'k': 'set', 'v': [vi(1), vf(1.0), vs('1'), vs("'")]},
    ]


def generate(rng, tier):
    out = []
    L = 2 if tier == 'quick' else 3
    out += [{'kind': 'value', 'v': vs(s)} for s in exhaustive_strings(L)]
    nval, nstmt, ndb = (5000, 3000, 300) if tier == 'quick' else (30000, 20000, 1500)
    for _ in range(nval):
        r = rng.random()
        if r < 0.6:
            v = vs(rand_string(rng))
        elif r < 0.72:
            v = vi(rand_int(rng))
        elif r < 0.76:
            v = {'t': 'b', 'v': rng.random() < 0.5}
        elif r < 0.78:
            v = {'t': 'n'}
        elif r < 0.86:
            v = rand_date(rng)
        else:
            v = rand_seq(rng)
        out.append({'kind': 'value', 'v': v})
    out += [{'kind': 'value', 'v': vf(x)} for x in FLOAT_EDGES]
    out += [{'kind': 'value', 'v': vf(rand_float(rng))} for _ in range(600 if tier == 'quick' else 8000)]
    out += [stmt_case(rng) for _ in range(nstmt)]
    out += vseq_exhaustive(3 if tier == 'quick' else 4)
    out += [vseq_case(rng) for _ in range(1500 if tier == 'quick' else 12000)]
    out += [db_case(rng) for _ in range(ndb)]
    out += [enum_case(rng) for _ in range(ndb // 4)]
    out += [malformed(rng) for _ in range(40)]
    return out


def search_cases(rng, tier):
    out = [{'kind': 'value', 'v': vs(s)} for s in exhaustive_strings(3)]
    out += [{'kind': 'value', 'v': vs(rand_string(rng))} for _ in range(6000)]
    out += [{'kind': 'value', 'v': rand_seq(rng)} for _ in range(1500)]
    out += [{'kind': 'value', 'v': rand_scalar(rng)} for _ in range(1500)]
    out += [{'kind': 'value', 'v': vf(x)} for x in FLOAT_EDGES] + [{'kind': 'value', 'v': vf(rand_float(rng))} for _ in range(1500)]
    out += [stmt_case(rng) for _ in range(4000)]
    out += vseq_exhaustive(3) + [vseq_case(rng) for _ in range(3000)]
    out += [db_case(rng) for _ in range(600)]
    out += [enum_case(rng) for _ in range(150)]
    return out


# ---------------------------------------------------------------- implementation side
_ENV = {}


class _Sink(object):
    """debug writer that swallows the output and remembers the last statements handed to cursor.execute"""
    def __init__(self):
        self.executed = []

    def write(self, msg):
        if '/QueryR  :  ' in msg or '/QueryIns:  ' in msg:
            self.executed.append(msg.split(':  ', 1)[1])
            del self.executed[:-20]


VARIANTS = ['plain', 'debug', 'debug_txn']


def _variant(name):
    """connection options that must not matter: debug / debugOutput on, work done inside a Transaction"""
    from sqlobject import SQLObject, StringCol, IntCol, connectionForURI
    # connectionForURI caches by URI text: the two debug variants must not share one connection object
    uri = 'sqlite:/:memory:' + {'plain': '', 'debug': '?debug=1&debugOutput=1', 'debug_txn': '?debugOutput=1&debug=1'}[name]
    conn = connectionForURI(uri)
    sink = None
    if name != 'plain':
        sink = _Sink()
        conn.debugWriter = sink
    use = conn.transaction() if name == 'debug_txn' else conn
    cls = type('VerifC02Row' + name.title().replace('_', ''), (SQLObject,),
               {'_connection': use, 's': StringCol(default=None), 'n': IntCol(default=None),
                's2': StringCol(default=None), '__module__': __name__})
    cls.createTable()
    raw = use._connection if name == 'debug_txn' else conn.getConnection()
    # the sentinel row goes in through the driver's parameter binding, not through the code under test
    raw.cursor().execute('INSERT INTO %s (s, n, s2) VALUES (?, ?, ?)' % cls.sqlmeta.table, ('sentinel', 424242, "keep'me"))
    if name == 'debug_txn':
        use.commit()
    return dict(conn=use, T=cls, raw=raw, sink=sink, name=name, txn=(name == 'debug_txn'))


def _env():
    if _ENV:
        return _ENV
    v = {n: _variant(n) for n in VARIANTS}
    _ENV.update(v['plain'])
    _ENV.update(variants=v, enum_n=[0])
    return _ENV


def _fake(d):
    from sqlobject.dbconnection import DBAPI
    c = DBAPI.__new__(DBAPI)
    c.dbName = d
    return c


def _exc(e):
    return type(e).__name__


def _engine_select(env, text):
    """SELECT <text> through SQLObject's sqlite connection"""
    try:
        rows = env['conn'].queryAll('SELECT ' + text)
    except Exception as e:
        return ['reject', _exc(e)]
    if len(rows) != 1 or len(rows[0]) != 1:
        return ['shape', repr(rows)[:200]]
    x = rows[0][0]
    if isinstance(x, str):
        return ['text', R.cps(x)]
    if isinstance(x, bool):
        return ['other', repr(x)]
    if isinstance(x, int):
        return ['int', str(x)]
    if x is None:
        return ['null']
    if isinstance(x, float):
        return ['float', repr(x)]
    return ['other', repr(x)[:100]]


def _value(env, c):
    from sqlobject.converters import sqlrepr
    v = c['v']
    o = {}
    try:
        pv = py_of(v)
    except Exception as e:
        return {'texts': None, 'err': 'build:' + _exc(e)}
    texts = []
    for d in R.DIALECTS:
        try:
            texts.append(R.cps(sqlrepr(pv, d)))
        except Exception as e:
            texts.append(['exc', _exc(e)])
    o['texts'] = texts
    if all(isinstance(t, list) and (not t or isinstance(t[0], int)) for t in texts):
        if v['t'] == 's':
            o['dec'] = []
            for d, t in zip(R.DIALECTS, texts):
                r = R.lex_lit(d, R.from_cps(t))
                o['dec'].append([r[0]] + ([R.cps(r[1]), R.cps(r[2])] if r[0] == 'ok' else [r[1]]))
        if v['t'] != 'seq':
            o['engine'] = _engine_select(env, R.from_cps(texts[0]))
        else:
            # each element is IN the list, a fresh value is not
            txt = R.from_cps(texts[0])
            res = []
            flat = [x for x in v['v'] if x['t'] in ('s', 'i')]
            for x in flat:
                try:
                    lit = sqlrepr(py_of(x), 'sqlite')
                    res.append(_engine_select(env, '(%s) IN %s' % (lit, txt)))
                except Exception as e:
                    res.append(['reject', _exc(e)])
            fresh = 'zq' + ''.join(chr(cp) for x in flat if x['t'] == 's' for cp in x['v'] if cp not in (0,) and not 0xD800 <= cp <= 0xDFFF)[:30] + 'qz'
            res.append(_engine_select(env, '(%s) IN %s' % (sqlrepr(fresh, 'sqlite'), txt)))
            o['seq_engine'] = res
    return o


def _stmt(env, c):
    from sqlobject.dbconnection import DBAPI
    from sqlobject import sqlbuilder
    from sqlobject.converters import sqlrepr
    d = c['d']
    f = _fake(d)
    T = env['T']
    k = c['kind']
    if k == 'insert':
        return {'text': R.cps(DBAPI._insertSQL(f, c['table'], list(c['names']), [py_of(v) for v in c['values']]))}
    if k == 'update':
        class _O(object):
            pass
        so = _O()
        so.sqlmeta = _O()
        so.sqlmeta.table, so.sqlmeta.idName, so.id = c['table'], c['idname'], py_of(c['id'])
        got = []
        f.query = got.append
        DBAPI._SO_update(f, so, [(n, py_of(v)) for n, v in c['sets']])
        if len(got) != 1:
            return {'crash': 'expected one query, got %d' % len(got)}
        return {'text': R.cps(got[0])}
    if k == 'clause':
        kw = {n: py_of(v) for n, v in c['items']}
        return {'text': R.cps(DBAPI._SO_columnClause(f, T, kw))}
    if k in ('eq', 'in'):
        if c['col'] == 'field':
            col = sqlbuilder.Field('t', 'c')
            name = 't.c'
        else:
            col = getattr(T.q, c['col'])
            name = '%s.%s' % (T.sqlmeta.table, c['col'])
        if k == 'eq':
            mk = lambda: (col == py_of(c['v']))
        else:
            mk = lambda: sqlbuilder.IN(col, [py_of(v) for v in c['vs']])
        return dict(_rerender(mk, d), col=R.cps(name))
    if k == 'like':
        x = R.from_cps(c['x'])
        mk = lambda: getattr(T.q.s, c['helper'])(x)
        o = _rerender(mk, d)
        pat = _render(mk().string, d)
        r = R.lex_lit(d, pat)
        o['pattern'] = R.cps(pat)
        o['pattern_lex'] = [r[0]] + ([R.cps(r[1]), R.cps(r[2])] if r[0] == 'ok' else [r[1]])
        return o
    raise ValueError(k)


LIMIT = 20000
IMPL_TIMEOUT = 900


class Oversize(Exception):
    pass


def _render(obj, d):
    from sqlobject.converters import sqlrepr
    t = sqlrepr(obj, d)
    if len(t) > LIMIT:
        raise Oversize('%d characters' % len(t))
    return t


def _rerender(mk, d):
    """text = first rendering of a fresh expression object; `again` = what ONE object gives when it is rendered for d,
    for another dialect, and for d again (an expression must not remember anything)"""
    text = _render(mk(), d)
    e = mk()
    other = 'mysql' if d != 'mysql' else 'postgres'
    again = []
    try:
        for dd in (other, d, d):
            again.append([dd, R.cps(_render(e, dd))])
    except Oversize as ex:
        again.append(['oversize', str(ex)])
    return {'text': R.cps(text), 'again': again, 'fresh_other': R.cps(_render(mk(), other))}


def _db(env0, c, ci=0):
    from sqlobject.sqlbuilder import IN
    from sqlobject.dbconnection import DBAPI
    env = env0['variants'][c.get('conn') or VARIANTS[ci % len(VARIANTS)]]
    T, raw, sink = env['T'], env['raw'], env['sink']
    tbl = T.sqlmeta.table
    xs = [R.from_cps(x) for x in c['xs']]
    cur = raw.cursor()

    def dump():
        cur.execute('SELECT id, s, n, s2 FROM %s ORDER BY id' % tbl)
        return [list(r) for r in cur.fetchall()]
    o = {'steps': [], 'variant': env['name']}
    before = dump()
    ids = []
    for i, x in enumerate(xs):
        st = {'x': R.cps(x)}
        try:
            r = T(s=x, n=i)
            ids.append(r.id)
            cur.execute('SELECT s FROM %s WHERE id = ?' % tbl, (r.id,))
            got = cur.fetchone()
            st['stored'] = None if got is None or got[0] is None else R.cps(got[0])
            st['id'] = r.id
        except Exception as e:
            st['create_exc'] = _exc(e)
        o['steps'].append(st)
    rows = dump()
    o['rows_after_create'] = len(rows)
    truth = {r[0]: r[1] for r in rows}
    sel = []
    for x in xs:
        q = {'x': R.cps(x), 'expect': sorted(i for i, s in truth.items() if s == x)}
        def used(clause):
            # a filter object that was already rendered (for logging, for another backend) before it is used
            from sqlobject.converters import sqlrepr
            for dd in ('mysql', 'postgres', 'sqlite'):
                if len(sqlrepr(clause, dd)) > LIMIT:
                    raise Oversize(dd)
            return T.select(clause)
        fx = R.fold_ascii(x)
        for name, fn in (('eq', lambda: used(T.q.s == x)), ('by', lambda: T.selectBy(s=x)),
                         ('in', lambda: used(IN(T.q.s, [x, 'no such value \\ %']))),
                         ('ne', lambda: used(T.q.s != x)),
                         ('starts', lambda: used(T.q.s.startswith(x))), ('ends', lambda: used(T.q.s.endswith(x))),
                         ('contains', lambda: used(T.q.s.contains(x)))):
            try:
                sr = fn()
                n = sr.count()
                first = sorted(r.id for r in sr)
                second = sorted(r.id for r in sr)
                q[name] = first
                if n != len(first) or second != first:
                    q[name] = ['unstable', n, first, second]
            except Exception as e:
                q[name] = ['exc', _exc(e)]
        q['expect_starts'] = sorted(i for i, t in truth.items() if t is not None and R.fold_ascii(t).startswith(fx))
        q['expect_ends'] = sorted(i for i, t in truth.items() if t is not None and R.fold_ascii(t).endswith(fx))
        q['expect_contains'] = sorted(i for i, t in truth.items() if t is not None and fx in R.fold_ascii(t))
        q['expect_ne'] = sorted(i for i, s in truth.items() if s is not None and s != x)
        sel.append(q)
    o['select'] = sel
    # None is a datum too: selectBy(col=None) must find exactly the rows holding NULL
    try:
        o['by_none'] = [sorted(r.id for r in T.selectBy(s2=None)), sorted(r[0] for r in rows if r[3] is None)]
    except Exception as e:
        o['by_none'] = ['exc', _exc(e)]
    # update the first created row to the last string
    if ids:
        try:
            r = T.get(ids[0])
            r.s2 = xs[-1]
            cur.execute('SELECT s2 FROM %s WHERE id = ?' % tbl, (ids[0],))
            got = cur.fetchone()
            o['update'] = ['ok', None if got[0] is None else R.cps(got[0]), R.cps(xs[-1])]
            if sink is not None:
                # the statement handed to the driver must be the statement that was rendered
                class _O(object):
                    pass
                so = _O()
                so.sqlmeta = _O()
                so.sqlmeta.table, so.sqlmeta.idName, so.id = tbl, T.sqlmeta.idName, ids[0]
                want = []
                f = _fake('sqlite')
                f.query = want.append
                DBAPI._SO_update(f, so, [('s2', xs[-1])])
                ex = [t for t in sink.executed if t.startswith('UPDATE')]
                o['update_text'] = [R.cps(want[0]), R.cps(ex[-1]) if ex else None]
        except Exception as e:
            o['update'] = ['exc', _exc(e), R.cps(xs[-1])]
    # deleteBy(s=x): exactly the rows holding x go (a near miss that differs only in its whitespace stays)
    if ids and not any(cp == 0 or 0xD800 <= cp <= 0xDFFF for cp in c['xs'][0]):
        x0 = xs[0]
        near = ' '.join(x0.split()) if ' '.join(x0.split()) != x0 else x0 + ' '
        try:
            cur.execute('INSERT INTO %s (s, n) VALUES (?, ?)' % tbl, (near, -7))
            nid = cur.lastrowid
            pre = dump()
            T.deleteBy(s=x0)
            post = dump()
            o['delete_by'] = [sorted(r[0] for r in pre if r[1] == x0), sorted(set(r[0] for r in pre) - set(r[0] for r in post))]
            if sink is not None:
                ex = [t for t in sink.executed if t.startswith('DELETE')]
                want = 'DELETE FROM %s WHERE %s' % (tbl, DBAPI._SO_columnClause(_fake('sqlite'), T, {'s': x0}))
                o['delete_text'] = [R.cps(want), R.cps(ex[-1]) if ex else None]
            cur.execute('DELETE FROM %s WHERE id = ?' % tbl, (nid,))
            ids = [i for i in ids if i in set(r[0] for r in post)]
        except Exception as e:
            o['delete_by'] = ['exc', _exc(e)]
    mid = dump()
    o['others_untouched'] = [r for r in mid if r[0] not in ids] == before
    o['rows_mid'] = len(mid)
    o['expected_rows'] = len(before) + len(ids)
    for i in ids:
        try:
            T.get(i).destroySelf()
        except Exception as e:
            o.setdefault('destroy_exc', []).append(_exc(e))
            cur.execute('DELETE FROM %s WHERE id = ?' % tbl, (i,))
    if env['txn']:
        env['conn'].commit()
    elif hasattr(raw, 'commit'):
        raw.commit()
    o['restored'] = dump() == before
    o['sentinel'] = [r for r in before if r[2] == 424242] == [[before[0][0], 'sentinel', 424242, "keep'me"]] if before else False
    return o


def _enum(env0, c, ci=0):
    from sqlobject import SQLObject, EnumCol
    env = env0['variants'][c.get('conn') or VARIANTS[ci % len(VARIANTS)]]
    conn, raw = env['conn'], env['raw']
    env0['enum_n'][0] += 1
    env = dict(env, enum_n=env0['enum_n'])
    vals = [R.from_cps(x) for x in c['values']]
    other = R.from_cps(c['other'])
    name = 'VerifC02Enum%d' % env['enum_n'][0]
    cls = type(name, (SQLObject,), {'_connection': conn, 'e': EnumCol(enumValues=vals), '__module__': __name__})
    o = {}
    try:
        cls.createTable()
    except Exception as e:
        o['create'] = ['exc', _exc(e)]
        return o
    o['create'] = ['ok']
    cur = raw.cursor()
    tbl = cls.sqlmeta.table
    res = []
    for x in vals:
        try:
            cur.execute('INSERT INTO %s (e) VALUES (?)' % tbl, (x,))
            res.append('ok')
        except Exception as e:
            res.append(_exc(e))
    o['members'] = res
    if other not in vals:
        try:
            cur.execute('INSERT INTO %s (e) VALUES (?)' % tbl, (other,))
            o['other'] = 'ok'
        except Exception as e:
            o['other'] = _exc(e)
    try:
        cls.dropTable()
    except Exception:
        pass
    return o


# ---------------------------------------------------------------- comma-separated literal lists
def split_list(d, t, i=0):
    """read `(` member `,` member ... `)` at t[i:] with the reference lexer of dialect d: ('ok', members, end) | ('bad', why).
    A member is a string literal (decoded by the lexer), a nested list, or a bare token (number, NULL, identifier)."""
    n = len(t)
    if i >= n or t[i] != '(':
        return ('bad', 'no opening parenthesis at offset %d' % i)
    i += 1
    out = []
    if i < n and t[i] == ')':
        return ('ok', out, i + 1)
    while True:
        if i >= n:
            return ('bad', 'the list is not closed')
        st, c = i, t[i]
        if c == '(':
            r = split_list(d, t, i)
            if r[0] != 'ok':
                return r
            i = r[2]
            out.append({'k': 'seq', 'v': r[1], 'text': t[st:i]})
        elif c in '\'"' or (c in 'Ee' and t[i + 1:i + 2] == "'"):
            r = R.lex_lit(d, t[i:])
            if r[0] != 'ok':
                return ('bad', 'member %d is not a complete string literal (%s)' % (len(out), r[1]))
            i = n - len(r[2])
            out.append({'k': 'lit', 'v': r[1], 'text': t[st:i]})
        else:
            j = i
            while j < n and t[j] not in ',() \'"':
                j += 1
            if j == i:
                return ('bad', 'member %d is empty' % len(out))
            out.append({'k': 'bare', 'v': t[i:j], 'text': t[i:j]})
            i = j
        while i < n and t[i] == ' ':
            i += 1
        if i < n and t[i] == ',':
            i += 1
            while i < n and t[i] == ' ':
                i += 1
            continue
        if i < n and t[i] == ')':
            return ('ok', out, i + 1)
        return ('bad', 'unexpected text after member %d: %r' % (len(out) - 1, t[i:i + 12]))


SEQ_IN_PREFIX, SEQ_CALL = '((t.c) IN ', 'vargs'


def seq_list_text(pos, text):
    """the comma-separated list inside the text rendered for a position (None: the surrounding template is not there)"""
    if pos == 'value':
        return text
    if pos == 'in':
        if text.startswith(SEQ_IN_PREFIX) and text.endswith(')'):
            return text[len(SEQ_IN_PREFIX):-1]
        return None
    if text.startswith(SEQ_CALL):
        return text[len(SEQ_CALL):]
    return None


def _typed(x):
    if isinstance(x, bool):
        return ['other', repr(x)]
    if isinstance(x, int):
        return ['i', str(x)]
    if isinstance(x, float):
        return ['f', x.hex()]
    if isinstance(x, str):
        return ['s', R.cps(x)]
    if x is None:
        return ['n']
    return ['other', repr(x)[:80]]


def _vargs_setup(env):
    """a user function on the raw sqlite connection that remembers the arguments the ENGINE decoded and handed over"""
    if 'vargs_store' not in env:
        store = []

        def vargs(*a):
            store.append(a)
            return len(a)
        env['raw'].create_function('vargs', -1, vargs)
        env['vargs_store'] = store
    return env['vargs_store']


def _vargs_run(env, sql):
    store = _vargs_setup(env)
    del store[:]
    try:
        rows = env['conn'].queryAll(sql)
    except Exception as e:
        return ['reject', _exc(e)]
    if len(store) != 1 or rows != [(len(store[0]),)]:
        return ['shape', len(store), repr(rows)[:80]]
    return ['args', [_typed(x) for x in store[0]]]


def _vargs_list(env, listtext, flat):
    """what sqlite decodes from a rendered list: the whole list as the arguments of one call when it is flat, member by
    member (nested lists recursively) otherwise -- sqlite has no nested row values"""
    if flat:
        return _vargs_run(env, 'SELECT vargs' + listtext)
    r = split_list('sqlite', listtext)
    if r[0] != 'ok' or r[2] != len(listtext):
        return ['unsplit', r[1] if r[0] != 'ok' else 'text after the list']
    out = []
    for m in r[1]:
        if m['k'] == 'seq':
            out.append(_vargs_list(env, m['text'], not any(x['k'] == 'seq' for x in m['v'])))
        else:
            out.append(_vargs_run(env, 'SELECT vargs(%s)' % m['text']))
    return ['members', out]


def _has(v, t):
    return v['t'] == t or (v['t'] == 'seq' and any(_has(x, t) for x in v['v']))


def _vseq(env, c):
    from sqlobject import sqlbuilder
    from sqlobject.converters import sqlrepr
    pos, k = c['pos'], c['k']
    whole = {'t': 'seq', 'k': k, 'v': c['v']}

    def mk():
        if pos == 'call':
            return getattr(sqlbuilder.func, SEQ_CALL)(*[py_of(x) for x in c['v']])
        if pos == 'in':
            return sqlbuilder.IN(sqlbuilder.Field('t', 'c'), py_of(whole))
        return py_of(whole)
    o = {'texts': [], 'again': []}
    for d in R.DIALECTS:
        try:
            o['texts'].append(R.cps(_render(mk(), d)))
        except Exception as e:
            o['texts'].append(['exc', _exc(e)])
    if pos != 'value' and _texts_ok(o):
        e = mk()           # ONE expression object rendered for every dialect, and once more for the first
        try:
            for d in R.DIALECTS + R.DIALECTS[:1]:
                o['again'].append(R.cps(_render(e, d)))
        except Exception as ex:
            o['again'].append(['exc', _exc(ex)])
    if _texts_ok(o) and not _has(whole, 'col'):
        text = R.from_cps(o['texts'][0])
        flat = not any(x['t'] == 'seq' for x in c['v'])
        if pos == 'call' and flat:
            # the statement path: SELECT vargs(...) rendered by the library from a Select object
            sql = env['conn'].sqlrepr(sqlbuilder.Select([mk()]))
            o['select_sql'] = R.cps(sql)
            o['exec'] = _vargs_run(env, sql)
        else:
            lt = seq_list_text(pos, text)
            o['exec'] = ['unsplit', 'template'] if lt is None else _vargs_list(env, lt, flat)
    return o


def run_impl(cases):
    env = _env()
    out = []
    for ci, c in enumerate(cases):
        try:
            k = c['kind']
            if k == 'value':
                o = _value(env, c)
            elif k == 'db':
                o = _db(env, c, ci)
            elif k == 'enum':
                o = _enum(env, c, ci)
            elif k == 'vseq':
                o = _vseq(env, c)
            else:
                try:
                    o = _stmt(env, c)
                except Exception as e:
                    o = {'exc': _exc(e)}
        except Exception as e:
            o = {'crash': '%s: %s' % (type(e).__name__, e)}
        out.append(o)
    return out


# ---------------------------------------------------------------- Coq side
def _texts_ok(o):
    return o.get('texts') and all(isinstance(t, list) and (not t or isinstance(t[0], int)) for t in o['texts'])


def coq_engine(e):
    if e is None:
        return 'ENotRun'
    if e[0] == 'reject':
        return 'EReject'
    if e[0] == 'text':
        return '(EText %s)' % R.coq_str(R.from_cps(e[1]))
    if e[0] == 'int':
        return '(EInt %s)' % R.zlit(int(e[1]))
    return 'ENotRun'


def coq_pairs(items):
    return R.coq_list(['(%s, %s)' % (R.coq_str(n), coq_value(v)) for n, v in items])


def coq_vseq(c, o):
    """modelled members only (no floats / columns), in a container whose order is defined"""
    items = c['v']
    if not _texts_ok(o) or not all(modelled(x) for x in items):
        return 'COracleOnly'
    if c['k'] in UNORDERED:
        items = _seq_expected(c['k'], items)
        if len(items) > 1:
            return 'COracleOnly'
    counts = []
    for d, t in zip(R.DIALECTS, o['texts']):
        lt = seq_list_text(c['pos'], R.from_cps(t))
        r = split_list(d, lt) if lt is not None else ('bad', '')
        counts.append(str(len(r[1])) if r[0] == 'ok' and r[2] == len(lt) else '99')
    pos = {'value': 'SPlain', 'in': '(SIn %s)' % R.coq_str('t.c'), 'call': '(SCall %s)' % R.coq_str(SEQ_CALL)}[c['pos']]
    return 'CSeqAll %s %s %s %s' % (pos, R.coq_list([coq_value(x) for x in items]),
                                    R.coq_list([R.coq_str(R.from_cps(t)) for t in o['texts']]), '[%s]' % '; '.join('%s%%nat' % n for n in counts))


def coq_case(c, o):
    k = c['kind']
    if k == 'value':
        v = c['v']
        if not modelled(v) or not _texts_ok(o) or (v['t'] == 's' and any(0xD800 <= cp <= 0xDFFF for cp in v['v'])):
            return 'COracleOnly'
        texts = R.coq_list([R.coq_str(R.from_cps(t)) for t in o['texts']])
        dec = '[]'
        if v['t'] == 's':
            dec = R.coq_list([R.coq_lexres((['ok', R.from_cps(x[1]), R.from_cps(x[2])] if x[0] == 'ok' else x)) for x in o['dec']])
        eng = o.get('engine')
        if v['t'] in ('n', 'seq'):
            eng = None
        if eng is not None and eng[0] == 'float' and v['t'] == 'i' and not -2 ** 63 <= int(v['v']) < 2 ** 63:
            eng = None      # sqlite's integer range is outside the lexical model (finding sqlite_int_out_of_range)
        if eng is not None and eng[0] not in ('reject', 'text', 'int'):
            return 'CValue %s %s %s (EText [0; 0; 0])' % (coq_value(v), texts, dec)   # unexpected engine answer: disagree
        return 'CValue %s %s %s %s' % (coq_value(v), texts, dec, coq_engine(eng))
    if k in ('db', 'enum', 'like'):
        return 'COracleOnly'
    if k == 'vseq':
        return coq_vseq(c, o)
    if 'text' not in o:
        # the implementation raised where the model renders: encode as an impossible text
        bad = '[0]'
    else:
        bad = None
    text = bad or R.coq_str(R.from_cps(o['text']))
    D = R.COQ_DIALECT[c['d']]
    if k == 'insert':
        return 'CInsert %s %s %s %s %s' % (D, R.coq_str(c['table']), R.coq_list([R.coq_str(n) for n in c['names']]),
                                           R.coq_list([coq_value(v) for v in c['values']]), text)
    if k == 'update':
        return 'CUpdate %s %s %s %s %s %s' % (D, R.coq_str(c['table']), R.coq_str(c['idname']), coq_value(c['id']),
                                              coq_pairs(c['sets']), text)
    if k == 'clause':
        return 'CClause %s %s %s' % (D, coq_pairs(c['items']), text)
    col = R.coq_str(R.from_cps(o['col'])) if 'col' in o else '[]'
    if k == 'eq':
        if not modelled(c['v']):
            return 'COracleOnly'
        return 'CEq %s %s %s %s' % (D, col, coq_value(c['v']), text)
    return 'CIn %s %s %s %s' % (D, col, R.coq_list([coq_value(v) for v in c['vs']]), text)


# ---------------------------------------------------------------- oracle: the property itself, on the implementation
_NUM = re.compile(r'-?\d+$')
_FLOATTOK = re.compile(r'-?\d+(\.\d+)?([eE][+-]?\d+)?$')


def _expect_scalar_text(v):
    """what sqlite must hand back for SELECT <literal>"""
    t = v['t']
    if t == 's':
        return ['text', v['v']]
    if t == 'i':
        return ['int', v['v']]
    if t == 'b':
        return ['int', '1' if v['v'] else '0']
    if t == 'n':
        return ['null']
    if t == 'd':
        return ['text', R.cps('%04d-%02d-%02d' % tuple(v['v']))]
    if t == 'dt':
        return ['text', R.cps('%04d-%02d-%02d %02d:%02d:%02d.%06d' % tuple(v['v']))]
    if t == 'tm':
        return ['text', R.cps('%02d:%02d:%02d.%06d' % tuple(v['v']))]
    return None


def _unrepresentable_sqlite(v):
    return v['t'] == 's' and any(cp == 0 or 0xD800 <= cp <= 0xDFFF for cp in v['v'])


# ---------------------------------------------------------------- oracle for sequences of values
def _py_repr(v):
    """the member as the user wrote it (for reports)"""
    if v['t'] == 'col':
        return 'Field(t.%s)' % v['v']
    if v['t'] == 'seq':
        return '%s[%s]' % (v.get('k', 'list'), ', '.join(_py_repr(x) for x in v['v']))
    return repr(py_of(v))


def _seq_expected(k, items):
    """the members the database must see: all of them, in order; a set / dict holds what PYTHON keeps of equal members"""
    if k in UNORDERED:
        keep, seen = [], {}
        for x in items:
            h = py_of(x) if x['t'] != 'seq' else _hashable(x)
            if h not in seen:
                seen[h] = 1
                keep.append(x)
        return keep
    return list(items)


def _hashable(v):
    return tuple(_hashable(x) for x in v['v']) if v['t'] == 'seq' else py_of(v)


def _member_denotes(d, m, v):
    """does member m (as read by the reference lexer of dialect d) denote the Python value v?"""
    t = v['t']
    if t == 'seq':
        return m['k'] == 'seq' and _members_match(d, m['v'], _seq_expected(v.get('k', 'list'), v['v']), v.get('k') in UNORDERED) is None
    if t == 'col':
        return m['k'] == 'bare' and m['v'] == 't.' + v['v']
    if t == 'i':
        return m['k'] == 'bare' and bool(_NUM.match(m['v'])) and int(m['v']) == int(v['v'])
    if t == 'n':
        return m['k'] == 'bare' and m['v'] == 'NULL'
    if t == 'b' and d != 'postgres':
        return m['k'] == 'bare' and m['v'] == ('1' if v['v'] else '0')
    if t == 'b':
        return m['k'] == 'lit' and m['v'] == ('t' if v['v'] else 'f')
    if t == 'f':
        try:
            return m['k'] == 'bare' and bool(_FLOATTOK.match(m['v'])) and float(m['v']).hex() == float(v['v']).hex()
        except ValueError:
            return False
    if t == 's':
        return m['k'] == 'lit' and m['v'] == R.from_cps(v['v'])
    exp = _expect_scalar_text(v)
    return exp is not None and m['k'] == 'lit' and m['v'] == R.from_cps(exp[1])


def _members_match(d, members, expected, unordered):
    """None, or why the members read from the text are not exactly the expected values (one literal each, in order)"""
    if len(members) != len(expected):
        return '%d values are written as %d members' % (len(expected), len(members))
    if not unordered:
        for i, (m, v) in enumerate(zip(members, expected)):
            if not _member_denotes(d, m, v):
                return 'member %d (%s) does not denote value %d (%s)' % (i, m['text'], i, _py_repr(v))
        return None
    left = list(members)
    for v in expected:
        for m in left:
            if _member_denotes(d, m, v):
                left.remove(m)
                break
        else:
            return 'no member denotes the value %s' % _py_repr(v)
    return None


def _exec_expected(v):
    t = v['t']
    if t == 's':
        return ['s', v['v']]
    if t == 'i':
        return ['i', str(int(v['v']))]
    if t == 'b':
        return ['i', '1' if v['v'] else '0']
    if t == 'n':
        return ['n']
    if t == 'f':
        return ['f', float(v['v']).hex()]
    return ['s', _expect_scalar_text(v)[1]]


def _exec_match(ex, expected, unordered, flat):
    """None, or why what sqlite decoded (the arguments its user function received) is not the expected values"""
    if ex[0] == 'args':
        if not flat:
            return 'internal: flat answer for a nested list'
        got, want = ex[1], [_exec_expected(v) for v in expected]
        if unordered:
            got, want = sorted(got, key=repr), sorted(want, key=repr)
        if got != want:
            return 'sqlite decoded %d members %s, the values are %d: %s' % (len(got), _show_typed(got), len(want), _show_typed(want))
        return None
    if ex[0] != 'members':
        return 'sqlite did not take the list: %r' % (ex,)
    if len(ex[1]) != len(expected):
        return '%d values are written as %d members' % (len(expected), len(ex[1]))
    left = list(ex[1])
    for i, v in enumerate(expected):
        cands = left if unordered else [ex[1][i]]
        for m in cands:
            if v['t'] == 'seq':
                inner = _seq_expected(v.get('k', 'list'), v['v'])
                why = _exec_match(m, inner, v.get('k') in UNORDERED, not any(x['t'] == 'seq' for x in inner))
            else:
                why = None if m == ['args', [_exec_expected(v)]] else 'sqlite decoded %r' % (m,)
            if why is None:
                if unordered:
                    left.remove(m)
                break
        else:
            return 'member %d: value %s: %s' % (i, _py_repr(v), why)
    return None


def _show_typed(l):
    out = []
    for x in l:
        if x[0] == 's':
            out.append(repr(R.from_cps(x[1])))
        elif x[0] == 'f':
            out.append(repr(float.fromhex(x[1])))
        elif x[0] == 'n':
            out.append('None')
        else:
            out.append(x[1])
    return '(' + ', '.join(out) + ')'


def _oracle_vseq(c, o):
    pos, k, items = c['pos'], c['k'], c['v']
    where = {'value': 'sqlrepr(%s)' % k, 'in': 'IN(col, %s)' % k, 'call': 'func.%s(*values)' % SEQ_CALL}[pos]
    values = '[%s]' % ', '.join(_py_repr(x) for x in items)
    texts = o.get('texts') or []
    raised = [t for t in texts if isinstance(t, list) and t and t[0] == 'exc']
    if raised:
        # dict views and generators are not registered types: refusing them (for every dialect alike) is allowed
        if k in ('keys', 'gen') and len(raised) == len(texts) and all(t[1] == 'ValueError' for t in raised):
            return None
        return {'what': 'rendering a sequence of supported values raised', 'position': where, 'values': values, 'observed': texts}
    expected = _seq_expected(k, items)
    unordered = k in UNORDERED
    # sqlite: by execution -- the engine itself decodes the list and hands the members to a user function
    if 'exec' in o:
        flat = not any(x['t'] == 'seq' for x in items)
        why = _exec_match(o['exec'], expected, unordered, flat)
        if why:
            return {'dialect': 'sqlite', 'what': 'executed on sqlite, the database does not receive the values given: ' + why,
                    'position': where, 'values': values, 'text': R.from_cps(o.get('select_sql') or texts[0])}
    # every dialect: the reference lexer reads the list; count and decode the members
    for d, t in zip(R.DIALECTS, texts):
        text = R.from_cps(t)
        lt = seq_list_text(pos, text)
        if lt is None:
            return {'dialect': d, 'what': 'the text around the list is not the template of the position', 'position': where, 'text': text}
        r = split_list(d, lt)
        if r[0] != 'ok' or r[2] != len(lt):
            return {'dialect': d, 'what': 'the text is not one parenthesised comma-separated list of literals (%s)'
                    % (r[1] if r[0] != 'ok' else 'text after the closing parenthesis'), 'position': where, 'values': values, 'text': text}
        why = _members_match(d, r[1], expected, unordered)
        if why:
            return {'dialect': d, 'what': 'the list is not the values given, one literal each, in order: ' + why,
                    'position': where, 'values': values, 'text': text}
    if o.get('again'):
        for d, t in zip(R.DIALECTS + R.DIALECTS[:1], o['again']):
            if t != texts[R.DIALECTS.index(d)]:
                return {'dialect': d, 'what': 'the same expression object renders differently after earlier renderings',
                        'position': where, 'values': values, 'fresh_object': R.from_cps(texts[R.DIALECTS.index(d)]),
                        'reused_object': R.from_cps(t) if t and isinstance(t[0], int) else t}
        if len(o['again']) != len(R.DIALECTS) + 1:
            return {'what': 'rendering the same expression object again raised', 'position': where, 'values': values}
    return None


def oracle(c, o):
    k = c['kind']
    if k == 'vseq':
        return _oracle_vseq(c, o)
    if k == 'value':
        v = c['v']
        if v['t'] == 'obj':
            if o.get('texts') and any(not (isinstance(t, list) and t and t[0] == 'exc') for t in o['texts']):
                return {'what': 'an unknown type was rendered instead of rejected', 'observed': o}
            return None
        if not _texts_ok(o):
            return {'what': 'sqlrepr raised for a supported value', 'observed': o}
        if v['t'] == 's':
            s = R.from_cps(v['v'])
            fs = []
            for d, r in zip(R.DIALECTS, o['dec']):
                if r[0] == 'ok':
                    if r[1] != v['v'] or r[2] != []:
                        fs.append({'dialect': d, 'what': 'the literal decodes to another string or ends early',
                                   'text': R.from_cps(o['texts'][R.DIALECTS.index(d)]), 'decoded': R.from_cps(r[1]),
                                   'rest': R.from_cps(r[2]), 'expected': s})
                elif r[0] == 'reject':
                    if not (d == 'postgres' and '\x00' in s):
                        fs.append({'dialect': d, 'what': 'a representable string is rejected (%s)' % r[1],
                                   'text': R.from_cps(o['texts'][R.DIALECTS.index(d)])})
                else:
                    fs.append({'dialect': d, 'what': 'the text is not one complete literal (%s)' % r[1],
                               'text': R.from_cps(o['texts'][R.DIALECTS.index(d)])})
            for f in fs:                  # a failure outside the known trigger classes is reported first
                if classify(c, o, f) is None:
                    return f
            e = o.get('engine')
            exp = _expect_scalar_text(v)
            if _unrepresentable_sqlite(v):
                if not e or e[0] != 'reject':
                    return {'dialect': 'sqlite', 'what': 'a string the backend cannot represent was not rejected', 'observed': e}
            elif e != exp:
                return {'dialect': 'sqlite', 'what': 'SELECT <literal> does not give the value back',
                        'text': R.from_cps(o['texts'][0]), 'observed': e, 'expected': exp}
            return fs[0] if fs else None
        if v['t'] == 'seq':
            for d, t in zip(R.DIALECTS, o['texts']):
                txt = R.from_cps(t)
                if not (txt.startswith('(') and txt.endswith(')')):
                    return {'dialect': d, 'what': 'a sequence is not rendered as a parenthesised list', 'text': txt}
            res = o.get('seq_engine', [])
            if any(x['t'] == 'seq' for x in v['v']) or any(_unrepresentable_sqlite(x) for x in v['v']):
                return None
            for r in res[:-1]:
                if r != ['int', '1']:
                    return {'dialect': 'sqlite', 'what': 'an element is not IN its own list', 'observed': r,
                            'text': R.from_cps(o['texts'][0])}
            absent = [['int', '0'], ['null']] if any(x['t'] == 'n' for x in v['v']) else [['int', '0']]   # x IN (NULL) is NULL
            if res and res[-1] not in absent:
                return {'dialect': 'sqlite', 'what': 'a fresh value is IN the list', 'observed': res[-1],
                        'text': R.from_cps(o['texts'][0])}
            return None
        if v['t'] in ('i', 'b', 'n', 'd', 'dt', 'tm'):
            # every dialect: the text is one token of the right kind denoting the value
            exp = _expect_scalar_text(v)
            for d, t in zip(R.DIALECTS, o['texts']):
                txt = R.from_cps(t)
                if v['t'] == 'i':
                    ok = bool(_NUM.match(txt)) and int(txt) == int(v['v'])
                elif v['t'] == 'n':
                    ok = txt == 'NULL'
                elif v['t'] == 'b' and d != 'postgres':
                    ok = txt == ('1' if v['v'] else '0')
                else:
                    want = ('t' if v['v'] else 'f') if v['t'] == 'b' else R.from_cps(exp[1])
                    r = R.lex_lit(d, txt)
                    ok = r[0] == 'ok' and r[1] == want and r[2] == ''
                if not ok:
                    return {'dialect': d, 'what': 'the text is not one literal token denoting the value', 'text': txt}
        e = o.get('engine')
        if v['t'] == 'f':
            x = float(v['v'])
            if x != x or x in (float('inf'), float('-inf')):
                return None if e and e[0] == 'reject' else {'what': 'inf/nan accepted by sqlite', 'observed': e}
            # every dialect: one numeric token that denotes exactly this double (correctly rounded decimal -> double)
            for d, t in zip(R.DIALECTS, o['texts']):
                txt = R.from_cps(t)
                try:
                    ok = bool(_FLOATTOK.match(txt)) and float(txt).hex() == x.hex()
                except ValueError:
                    ok = False
                if not ok:
                    return {'dialect': d, 'what': 'the float literal is not one numeric token denoting the value', 'text': txt,
                            'value': v['v']}
            # sqlite itself: the same double comes back (float.hex, so the sign of zero and the last bit count)
            if not e or e[0] not in ('float', 'int') or float(e[1]).hex() != x.hex():
                return {'dialect': 'sqlite', 'what': 'SELECT <float literal> gives another number back', 'float_engine': True,
                        'text': R.from_cps(o['texts'][0]), 'observed': e, 'expected': v['v']}
            return None
        if v['t'] == 'dec':
            return None
        exp = _expect_scalar_text(v)
        if _unrepresentable_sqlite(v):
            if not e or e[0] != 'reject':
                return {'dialect': 'sqlite', 'what': 'a string the backend cannot represent was not rejected', 'observed': e}
            return None
        if e != exp:
            return {'dialect': 'sqlite', 'what': 'SELECT <literal> does not give the value back',
                    'text': R.from_cps(o['texts'][0]), 'observed': e, 'expected': exp}
        return None
    if k == 'db':
        for st in o['steps']:
            x = st['x']
            bad = any(cp == 0 or 0xD800 <= cp <= 0xDFFF for cp in x)
            if 'create_exc' in st:
                if not bad:
                    return {'what': 'creating a row with a representable string raised %s' % st['create_exc'], 'x': R.from_cps(x)}
            elif st.get('stored') != x:
                return {'what': 'stored text differs from the value given', 'x': R.from_cps(x),
                        'stored': None if st.get('stored') is None else R.from_cps(st['stored'])}
        for q in o['select']:
            bad = any(cp == 0 or 0xD800 <= cp <= 0xDFFF for cp in q['x'])
            for name, exp in (('eq', 'expect'), ('by', 'expect'), ('in', 'expect'), ('starts', 'expect_starts'),
                              ('ends', 'expect_ends'), ('contains', 'expect_contains')):
                got = q[name]
                if got and got[0] == 'exc':
                    if not bad:
                        return {'what': 'select (%s) raised %s' % (name, got[1]), 'x': R.from_cps(q['x'])}
                elif got and got[0] == 'unstable':
                    return {'what': 'count(), iteration and a second iteration of ONE select (%s) disagree' % name,
                            'x': R.from_cps(q['x']), 'count': got[1], 'rows': got[2], 'rows_again': got[3], 'expected': q[exp]}
                elif got != q[exp]:
                    return {'what': 'select (%s) returned other rows' % name, 'x': R.from_cps(q['x']), 'got': got, 'expected': q[exp]}
            got = q['ne']
            if got and got[0] == 'exc':
                if not bad:
                    return {'what': 'select (!=) raised', 'x': R.from_cps(q['x'])}
            elif got != q['expect_ne']:
                return {'what': 'select (!=) returned other rows', 'x': R.from_cps(q['x']), 'got': got, 'expected': q['expect_ne']}
        bn = o.get('by_none')
        if bn and (bn[0] == 'exc' or bn[0] != bn[1]):
            return {'what': 'selectBy(col=None) does not select the rows holding NULL', 'observed': bn}
        if 'update' in o:
            u = o['update']
            bad = any(cp == 0 or 0xD800 <= cp <= 0xDFFF for cp in u[2])
            if u[0] == 'exc':
                if not bad:
                    return {'what': 'update raised %s' % u[1]}
            elif u[1] != u[2]:
                return {'what': 'update stored another text (connection: %s)' % o.get('variant'),
                        'got': R.from_cps(u[1]) if u[1] is not None else None, 'expected': R.from_cps(u[2])}
        for key, verb in (('update_text', 'UPDATE'), ('delete_text', 'DELETE')):
            t = o.get(key)
            if t and t[0] != t[1]:
                return {'what': 'the %s statement handed to the driver is not the statement that was rendered (connection: %s)' % (verb, o.get('variant')),
                        'rendered': R.from_cps(t[0]), 'executed': None if t[1] is None else R.from_cps(t[1])}
        db_ = o.get('delete_by')
        if db_:
            if db_[0] == 'exc':
                return {'what': 'deleteBy raised %s (connection: %s)' % (db_[1], o.get('variant'))}
            if db_[0] != db_[1]:
                return {'what': 'deleteBy(s=x) deleted other rows than those holding x (connection: %s)' % o.get('variant'),
                        'x': R.from_cps(c['xs'][0]), 'expected_ids': db_[0], 'deleted_ids': db_[1]}
        if not o['others_untouched'] or o['rows_mid'] != o['expected_rows'] or not o['restored'] or not o['sentinel']:
            return {'what': 'other rows were touched (sentinel / row count)', 'observed': {x: o[x] for x in
                    ('others_untouched', 'rows_mid', 'expected_rows', 'restored', 'sentinel')}}
        return None
    if k == 'enum':
        if o['create'][0] == 'exc':
            return None     # rejected with an error: allowed (the postgres rendering is used for sqlite DDL)
        if any(m != 'ok' for m in o['members']):
            return {'what': 'an enum member violates the CHECK built from the enum values', 'observed': o}
        if 'other' in o and o['other'] == 'ok':
            return {'what': 'a non-member passes the CHECK built from the enum values', 'observed': o}
        return None
    # statements: the text must tokenize (python side: every string literal in it is complete) -- judged through the
    # values stream and the model; here only "did not raise"
    if 'exc' in o:
        return {'what': 'the statement template raised %s' % o['exc']}
    if 'again' in o:
        want = {c['d']: o['text']}
        for item in o['again']:
            if item[0] == 'oversize':
                return {'dialect': c['d'], 'what': 'rendering the same expression object again keeps growing the text (%s)' % item[1],
                        'first': R.from_cps(o['text'])}
            w = want.get(item[0], o['fresh_other'])
            if item[1] != w:
                return {'dialect': item[0], 'what': 'the same expression object renders differently after earlier renderings',
                        'order': [x[0] for x in o['again']], 'fresh_object': R.from_cps(w), 'reused_object': R.from_cps(item[1])}
    if k == 'like':
        r = o['pattern_lex']
        x = c['x']
        if r[0] == 'bad' or (r[0] == 'ok' and r[2] != []):
            return {'dialect': c['d'], 'what': 'the LIKE pattern operand is not one complete literal', 'text': R.from_cps(o['pattern'])}
    return None


def classify(c, o, f):
    if c['kind'] == 'value' and c['v']['t'] == 'f' and f.get('float_engine') and f.get('observed') and f['observed'][0] == 'float':
        # only when the literal itself is right (Python reads it back to the very same double) and sqlite answers the neighbouring double
        import math
        x, y = float(c['v']['v']), float(f['observed'][1])
        try:
            literal_ok = float(f['text']).hex() == x.hex()
        except ValueError:
            literal_ok = False
        if literal_ok and y in (math.nextafter(x, math.inf), math.nextafter(x, -math.inf)):
            return 'float_literal_misrounded'
        return None
    if c['kind'] == 'value' and c['v']['t'] == 'i' and f.get('dialect') == 'sqlite' \
            and not -2 ** 63 <= int(c['v']['v']) < 2 ** 63 and f.get('observed') and f['observed'][0] == 'float':
        return 'sqlite_int_out_of_range'
    if c['kind'] != 'value' or c['v']['t'] != 's':
        return None
    s = R.from_cps(c['v']['v'])
    d = f.get('dialect')
    if d == 'postgres' and re.search('\x00[0-7]', s):
        return 'pg_nul_octal'
    if d in ('sybase', 'mssql') and re.search(r'\\(\n|\r\n)', s):
        return 'tsql_line_continuation'
    return None


def _special(s):
    return any(ch in s for ch in "'\\\x00\n\r\t\b\x1a\"%_;-/*")


def nontrivial(c, o):
    if c['kind'] == 'value':
        v = c['v']
        return v['t'] != 's' or _special(R.from_cps(v['v']))
    if c['kind'] == 'db':
        return any(_special(R.from_cps(x)) for x in c['xs'])
    if c['kind'] == 'vseq':
        return len(c['v']) >= 2 or any(x['t'] == 'seq' for x in c['v'])
    return True


def key(c):
    return c


def distribution(cases, obs):
    d = {'by_kind': {}, 'value_by_type': {}, 'strings_with': {}, 'stmt_by_dialect': {}, 'oracle_only': 0,
         'sqlite_rejects': 0, 'pg_lexer_rejects': 0}
    names = {"'": 'quote', '\\': 'backslash', '\x00': 'NUL', '\n': 'LF', '\r': 'CR', '\t': 'TAB', '\b': 'BS', '\x1a': 'CtrlZ',
             '%': 'percent', '_': 'underscore', '--': 'dashdash', '/*': 'slashstar', ';': 'semicolon'}
    for c, o in zip(cases, obs):
        d['by_kind'][c['kind']] = d['by_kind'].get(c['kind'], 0) + 1
        if c['kind'] == 'value':
            t = c['v']['t']
            d['value_by_type'][t] = d['value_by_type'].get(t, 0) + 1
            if t == 's':
                s = R.from_cps(c['v']['v'])
                for ch, n in names.items():
                    if ch in s:
                        d['strings_with'][n] = d['strings_with'].get(n, 0) + 1
                if any(ord(x) > 127 for x in s):
                    d['strings_with']['non_ascii'] = d['strings_with'].get('non_ascii', 0) + 1
                if isinstance(o, dict) and o.get('engine') and o['engine'][0] == 'reject':
                    d['sqlite_rejects'] += 1
                if isinstance(o, dict) and o.get('dec') and o['dec'][2][0] == 'reject':
                    d['pg_lexer_rejects'] += 1
        elif c['kind'] == 'vseq':
            q = d.setdefault('sequences', {'by_position': {}, 'by_container': {}, 'by_length': {}, 'with_repeated_member': 0,
                                           'with_equal_members_of_other_type': 0, 'nested': 0, 'executed_on_sqlite': 0,
                                           'refused_container_type': 0})
            for name, val in (('by_position', c['pos']), ('by_container', c['k']), ('by_length', str(len(c['v'])))):
                q[name][val] = q[name].get(val, 0) + 1
            reprs = [_py_repr(x) for x in c['v']]
            q['with_repeated_member'] += len(set(reprs)) < len(reprs)
            hs = [_hashable(x) for x in c['v'] if x['t'] != 'col']
            try:
                q['with_equal_members_of_other_type'] += len(set(hs)) < len(set(reprs))
            except TypeError:
                pass
            q['nested'] += any(x['t'] == 'seq' for x in c['v'])
            if isinstance(o, dict):
                q['executed_on_sqlite'] += o.get('exec', [None])[0] in ('args', 'members')
                q['refused_container_type'] += bool(o.get('texts')) and not _texts_ok(o)
        elif 'd' in c:
            d['stmt_by_dialect'][c['d']] = d['stmt_by_dialect'].get(c['d'], 0) + 1
        if isinstance(o, dict) and 'crash' not in o and coq_case(c, o) == 'COracleOnly':
            d['oracle_only'] += 1
    return d


def explain(c, o):
    if c['kind'] == 'vseq':
        return '%s %s [%s]: texts %r exec %r' % (c['pos'], c['k'], ', '.join(_py_repr(x) for x in c['v']),
                                                [R.from_cps(t) if t and isinstance(t[0], int) else t for t in o.get('texts', [])][:3],
                                                o.get('exec'))
    if c['kind'] == 'value' and isinstance(o.get('texts'), list):
        return 'texts %r engine %r' % ([R.from_cps(t) if t and isinstance(t[0], int) else t for t in o['texts']], o.get('engine'))
    if 'text' in o:
        return 'text %r' % R.from_cps(o['text'])
    return repr(o)[:300]
