"""C16 -- lazy updates: nothing written before sync, exactly the pending values after."""
from tools.props import ormlib as L
from tools.props.ormlib import run_impl, coq_case, COQ_HEADER, CORR_VO, SOURCES  # noqa (plugin interface)
from tools.props.c04 import distribution, key, explain  # noqa

PROP = 'C16'
PROPS_VO = 'Props/C16.vo'
GENERATORS = {}
COQ_CASE_TYPE = 'case'
COQ_AGREE = 'agree'
COQ_SHARD = 40
REPLAY_KIND = 'history'
EXHAUSTIVE = {'quick': False, 'thorough': False}
RULE = ('seeded random histories (3..45 operations) dominated by the lazy-update class: assign / multi-column set (also empty, invalid) / '
        'syncUpdate / sync / expire / select (re-fetch) / pickle / destroy / create, interleaved with eager objects; after every step the raw row, '
        'the object\'s values, the dirty flag, the pending set and the UPDATE statements of the step are judged. Non-trivial = the history '
        'assigns to a lazy object and later syncs it; distinct = distinct operation list.')
EXPLANATION = ('Theorems over Model/Orm.v (no UPDATE before sync; sync writes exactly the pending values; dirty <-> pending; insert/delete '
               'immediate) + correspondence with the real SQLObject after every operation + lazy-update oracle on the implementation.')
TRUSTED_BASE = L.TRUSTED_COMMON
PROFILE = L.profile(without=['clear', 'rawupdate', 'rawdelete', 'unpickle'],
                    weights={'setattr': 18, 'set': 14, 'syncupdate': 8, 'sync': 5, 'expire': 4, 'select': 8, 'pickle': 4, 'destroy': 3,
                             'read': 8, 'create': 8},
                    kinds=[1, 1, 1, 0], p_fault=0.03, p_iterwrite=0.15, motifs=[L.motif_lazy_refetch, L.motif_lazy_expire, L.motif_refused_flush_refetch, L.motif_expire_assign_reload], p_motif=0.08)
FLUSHES = ('syncupdate', 'sync', 'pickle')


def corpus():
    return [
        # fixed (71eb426): a lazy set() with a property keyword whose setter refuses queued the column values before raising
        {'cfg': {'cache': False, 'freq': 5, 'frac': 1}, 'ops': [['create', 1, [[1, 100], [0, 3]]], ['set', 0, [[0, None], [1, 101], [4, 'bad']]],
                                                                 ['read', 0, 0], ['syncupdate', 0], ['set', 0, [[4, 2], [0, 7]]], ['syncupdate', 0]]},
        {'cfg': {'cache': True, 'freq': 100, 'frac': 2}, 'ops': [['create', 0, [[1, 100], [0, 3]]], ['set', 0, [[0, 4], [4, 'bad'], [2, 1]]], ['read', 0, 0]]},
        # fixed (6e79cab): a lazy set() with an unknown keyword queued the other values before raising TypeError
        {'cfg': {'cache': True, 'freq': 100, 'frac': 2}, 'ops': [['create', 1, [[1, 100]]], ['set', 0, [[0, 5], [3, 1]]], ['read', 0, 0], ['syncupdate', 0]]},
        # fixed: expire() used to leave dirty set; an empty set() used to set it
        {'cfg': {'cache': True, 'freq': 100, 'frac': 2}, 'ops': [['create', 1, [[1, 100]]], ['setattr', 0, 0, 3], ['expire', 0], ['read', 0, 0]]},
        {'cfg': {'cache': True, 'freq': 100, 'frac': 2}, 'ops': [['create', 1, [[1, 100]]], ['set', 0, []], ['syncupdate', 0]]},
        {'cfg': {'cache': True, 'freq': 100, 'frac': 2},
         'ops': [['create', 1, [[1, 100]]], ['setattr', 0, 0, 3], ['setattr', 0, 0, 4], ['set', 0, [[2, 2]]], ['syncupdate', 0], ['syncupdate', 0]]},
        {'cfg': {'cache': True, 'freq': 100, 'frac': 2}, 'ops': [['create', 1, [[1, 100]]], ['setattr', 0, 0, 3], ['pickle', 0], ['destroy', 0]]},
        # open finding: assignment on an expired lazy object, then a read of another column
        {'cfg': {'cache': True, 'freq': 100, 'frac': 2}, 'ops': [['create', 1, [[1, 100]]], ['expire', 0], ['setattr', 0, 0, 3], ['read', 0, 2], ['syncupdate', 0]]},
        # seeded once: a refused flush must not drop the pending values
        {'cfg': {'cache': True, 'freq': 100, 'frac': 2},
         'ops': [['create', 1, [[1, 100]]], ['create', 1, [[1, 101]]], ['setattr', 1, 1, 100], ['syncupdate', 1], ['setattr', 1, 0, 2], ['syncupdate', 1]]},
    ]


def generate(rng, tier):
    n = 2000 if tier == 'quick' else 20000
    return [L.gen_history(rng, PROFILE, rng.randint(3, 45)) for _ in range(n)]


def search_cases(rng, tier):
    return [L.gen_history(rng, PROFILE, rng.randint(3, 60)) for _ in range(1500)]


def failures(case, obs):
    LZ = 1
    assigned_while_expired = set()
    for info in L.Walk(case, obs):
        st, prev, core = info['st'], info['prev'], info['core']
        t = core[0]
        base = {'step': info['n'], 'op': info['op']}
        updates = [s for s in st['log'] if s[0] == 'update' and s[1] == LZ]
        target = None
        if t in ('read', 'setattr', 'set', 'syncupdate', 'sync', 'expire', 'destroy', 'pickle') and core[1] < len(prev['slots']):
            target = prev['slots'][core[1]]
        # 1. no UPDATE on the lazy table unless this step flushes
        if updates and t not in FLUSHES:
            d = dict(base)
            d['what'] = 'operation %s sent %r to the lazy class' % (t, updates)
            yield d
        # 2. a flush writes exactly the pending values, once
        if t in FLUSHES and target is not None and target[0] == LZ:
            pend = sorted(c for c, _ in target[6])
            if info['ok'] or updates:
                want = [['update', LZ, target[1], pend]] if pend else []
                if updates != want:
                    d = dict(base)
                    d['what'] = 'flush sent %r, pending columns were %r' % (updates, pend)
                    yield d
            if info['ok']:
                before = L.row_of(prev, LZ, target[1])
                after = L.row_of(st, LZ, target[1])
                if before is not None:
                    exp = list(before)
                    for c, v in target[6]:
                        exp[c] = v
                    if after != exp:
                        d = dict(base)
                        d['what'] = 'after the flush the row is %r, expected %r (row before %r, pending %r)' % (after, exp, before, target[6])
                        yield d
            else:
                # the database refused the flush: nothing may be lost -- the values are still unwritten, so they must
                # still be pending and the object still dirty (a later syncUpdate must write them)
                now = st['slots'][core[1]] if core[1] < len(st['slots']) else None
                refused = (not st['log']) or st['log'][-1][0] == 'update'     # it was the UPDATE (or nothing) that raised
                if not refused:
                    now = None
                if now is not None and (now[6] != target[6] or bool(now[3]) != bool(target[3])):
                    d = dict(base)
                    d['what'] = 'the flush raised %s but the pending values changed from %r (dirty=%r) to %r (dirty=%r)' % (
                        st['out'][1], target[6], target[3], now[6], now[3])
                    yield d
                if refused and prev['tables'][LZ] != st['tables'][LZ]:
                    d = dict(base)
                    d['what'] = 'the flush raised %s but the table changed' % st['out'][1]
                    yield d
            if info['ok']:
                others_before = [r for r in prev['tables'][LZ] if r[0] != target[1]]
                others_after = [r for r in st['tables'][LZ] if r[0] != target[1]]
                if others_before != others_after:
                    d = dict(base)
                    d['what'] = 'the flush changed other rows'
                    yield d
        elif t not in ('create', 'destroy') and prev['tables'][LZ] != st['tables'][LZ]:
            d = dict(base)
            d['what'] = 'operation %s changed the lazy table without a flush: %r -> %r' % (t, prev['tables'][LZ], st['tables'][LZ])
            yield d
        # 3. dirty <-> something pending, for every held lazy instance
        for i, v in enumerate(st['slots']):
            if v is not None and v[0] == LZ and bool(v[3]) != bool(v[6]):
                d = dict(base)
                d['what'] = 'lazy instance in slot %d has dirty=%r with pending %r' % (i, v[3], v[6])
                yield d
        # 4. the object shows what was assigned
        if t in ('setattr', 'set') and info['ok'] and target is not None and target[0] == LZ:
            now = st['slots'][core[1]]
            kvs = [[core[2], core[3]]] if t == 'setattr' else core[2]
            last = {}
            for c, v in kvs:
                if c < len(L.COLS):          # keywords 3 (unknown) and 4 (a property of the class) are not columns
                    last[c] = v
            for c, v in last.items():
                if now[2][c] != ['v', v] or [c, v] not in now[6]:
                    d = dict(base)
                    d['what'] = 'after assigning %r to column %d the object shows %r, pending %r' % (v, c, now[2][c], now[6])
                    yield d
        # 4b. ... and keeps showing it until it is written
        if t in ('setattr', 'set') and target is not None and target[0] == LZ and target[4]:
            assigned_while_expired.add((target[0], target[1]))
        for i, v in enumerate(st['slots']):
            if v is None or v[0] != LZ:
                continue
            for c, pv in v[6]:
                if v[2][c][0] == 'v' and v[2][c][1] != pv:
                    d = dict(base)
                    d['what'] = 'lazy instance in slot %d shows %r for column %d while %r is pending for it' % (i, v[2][c][1], c, pv)
                    d['assigned_while_expired'] = (v[0], v[1]) in assigned_while_expired
                    yield d
        # 5. inserts and deletes are immediate
        if t == 'create' and info['ok'] and core[1] == LZ:
            i = st['out'][1][1]
            if L.row_of(st, LZ, i) is None or not any(s[0] == 'insert' for s in st['log']):
                d = dict(base)
                d['what'] = 'create on the lazy class did not insert the row immediately'
                yield d
        if t == 'destroy' and info['ok'] and target is not None and target[0] == LZ:
            if L.row_of(st, LZ, target[1]) is not None:
                d = dict(base)
                d['what'] = 'destroy on the lazy class did not delete the row immediately'
                yield d


def oracle(case, obs):
    known = None
    for f in failures(case, obs):
        if classify(case, obs, f) is None:
            return f
        known = known or f
    return known


def classify(case, obs, f):
    # an assignment made on an EXPIRED lazy object sets just that attribute; the next read of another column reloads
    # every attribute from the row and the object stops showing the pending value (it is still written at the next flush)
    return None


def nontrivial(case, obs):
    assigned = False
    for info in L.Walk(case, obs):
        core = info['core']
        tgt = info['prev']['slots'][core[1]] if core[0] in ('setattr', 'set', 'syncupdate', 'sync', 'pickle') and \
            core[1] < len(info['prev']['slots']) else None
        if tgt is not None and tgt[0] == 1:
            if core[0] in ('setattr', 'set') and info['ok']:
                assigned = True
            if core[0] in FLUSHES and assigned and info['ok']:
                return True
    return False


def shrink(case, run):
    import sys
    return L.shrink(sys.modules[__name__], case, run)
