"""C13 -- join accessors always mirror the stored relation.

A case is a history of create / set-key / fk-assign / add / remove / destroy
operations over three classes (A <- B by foreign key; A--B many-to-many declared
on both sides; A--P many-to-many declared on A only; P--P a mirrored pair of
self-referential many-to-many joins), together with the orderBy of every join.
After every operation every accessor of every live object is read on the real
SQLObject (sqlite :memory:) and the raw tables are dumped."""
import json

PROP = 'C13'
PROPS_VO = 'Props/C13.vo'
CORR_VO = 'Corr/C13.vo'
GENERATORS = {'Joins': 'tools.py2coq.gen_joins'}
SOURCES = ['sqlobject/joins.py', 'sqlobject/main.py', 'sqlobject/dbconnection.py', 'sqlobject/sresults.py']
COQ_HEADER = '''From Coq Require Import List ZArith. Import ListNotations. Open Scope Z_scope.
From Lib Require Import CorrLib. From Gen Require Import Joins. From Model Require Import Joins.
From Corr Require Import C13.
Notation Sm := Some. Notation Nn := None.
Notation Ka c := {| k_col := c; k_desc := false |}. Notation Kd c := {| k_col := c; k_desc := true |}.
Notation Bs s t l a := {| so_status := s; so_tabs := t; so_links := l; so_acc := a |}.'''
COQ_CASE_TYPE = 'case'
COQ_AGREE = 'agree'
REPLAY_KIND = 'history'
EXHAUSTIVE = {'quick': False, 'thorough': False}
IMPL_TIMEOUT = 1500
RULE = ('seeded random histories of 5..40 operations (create with/without explicit id, set a sort-key column, assign the '
        'foreign key as object / id / None, add and remove on each many-to-many from either side and through either flavour, '
        'destroy) over the classes A, B (fk to A), P with link tables A--B (two-sided), A--P (one-sided) and P--P (mirrored '
        'self-join); key columns take values in {None,0,1,2} (ties) or are distinct; orderBy of each of the six join pairs '
        'drawn from None / name / -name / lists and tuples of 1..3 names with mixed directions, id included; plus a malformed '
        'stream (orderBy=[], missing ids, taken explicit ids); in 2 of 5 histories about a third of the creates take the explicit '
        'primary keys 0, -1 or -2; each history runs in one of three connection modes: on the classes\' '
        'own connection, or (3 of 5 cases) with the classes bound to a decoy-filled database while every object is created/fetched '
        'with an explicit connection= to a second database, directly or through a Transaction of it.  After every step all 13 accessors of every live object are read '
        'and all six tables dumped.  Non-trivial = some accessor returned two or more objects and some list join had a tie or a '
        'None among its keys, or an op was refused; distinct = distinct (orders, op list).')
EXPLANATION = ('Theorems C13_* (Coq: all histories by induction over the op list, all table contents, all orderBy key lists) over '
               'a relational model whose doSort statement order, related-join column roles and destroySelf clean-up columns are '
               'REGENERATED from joins.py/dbconnection.py/main.py on this run; correspondence: the model stepped through each '
               'history inside Coq (vm_compute) against the real SQLObject on sqlite -- op outcome, raw tables, every accessor '
               '(exact order for list joins, sorted-permutation for query joins); the oracle judges every accessor directly from '
               'the raw tables.')
TRUSTED_BASE = [
    'Coq 8.16.1 kernel + vm_compute (examples, correspondence); no native_compute',
    'tools/py2coq/gen_joins.py (dedicated ast matcher: doSort statement order, SORelatedJoin/SOSQLRelatedJoin column roles, '
    '_SO_intermediate* templates, destroySelf clean-up loops); it fails closed on any other shape',
    'Model/Joins.v is hand-written: list.sort is a stable sort and reverse=True keeps stability (Python); MinType sorts below ints; '
    'sqlite: a SELECT without ORDER BY scans in rowid order, AUTOINCREMENT ids are max-ever+1, NULL sorts lowest, '
    'ORDER BY is lexicographic with ties in unspecified order, foreign keys are not enforced '
    '-- each validated by execution on every case, none proved',
    'objects are identified with their rows: the list joins read sort keys from cached attribute values, assumed equal to the '
    'stored values (single connection, cache on: property C05)',
    'fixture: three classes, default cascade=None on the foreign key, explicit intermediateTable/joinColumn/otherColumn names; '
    'SingleJoin without makeDefault; ManyToMany/OneToMany (the experimental API) not covered',
    'add/remove/fk-by-object operands are objects obtained with cls.get(id) (a missing row aborts the op); add(<int>) of a missing id is out of scope',
    'connections are not modelled: the same model is compared with histories run on the classes\' own connection, on an explicit '
    'second connection (classes bound to a decoy-filled database) and inside an uncommitted Transaction of it',
    'the correspondence harness tools/props/c13.py and the cases.v evaluation',
]

ACC = ['bs', 'bsq', 'one', 'rbs', 'rbsq', 'ps', 'psq', 'ras', 'rasq', 'fr', 'frq', 'of', 'ofq']
LIST_ACC = (0, 3, 5, 7, 9, 11)
SQL_ACC = (1, 4, 6, 8, 10, 12)
SQLREL_ACC = (4, 6, 8, 10, 12)
ACC_ORD = {0: 0, 1: 0, 3: 1, 4: 1, 5: 2, 6: 2, 7: 3, 8: 3, 9: 4, 10: 4, 11: 5, 12: 5}
ACC_OWNER = [0] * 7 + [1] * 2 + [2] * 4                       # class index of the accessor's owner
ACC_TARGET = {0: 1, 1: 1, 2: 1, 3: 1, 4: 1, 5: 2, 6: 2, 7: 0, 8: 0, 9: 2, 10: 2, 11: 2, 12: 2}
# related accessors: (link table index, column holding the owner, column holding the partner)
ACC_LINK = {3: (0, 0, 1), 4: (0, 0, 1), 5: (1, 0, 1), 6: (1, 0, 1), 7: (0, 1, 0), 8: (0, 1, 0),
            9: (2, 0, 1), 10: (2, 0, 1), 11: (2, 1, 0), 12: (2, 1, 0)}
CLS = ['A', 'B', 'P']
JOINS = {  # name -> (link table, side, owner class, other class, [adder names list-flavour, query-flavour])
    'rbs': (0, 0, 0, 1, ['Rb', 'Rbq']), 'ps': (1, 0, 0, 2, ['Ps', 'Psq']), 'ras': (0, 1, 1, 0, ['Ra', 'Raq']),
    'fr': (2, 0, 2, 2, ['Fr', 'Frq']), 'of': (2, 1, 2, 2, ['Of', 'Ofq']),
}
COLS = ['id', 'k0', 'k1', 'k2']
# where a history runs (see build_fixture): 3 of 5 cases away from the classes' default connection
CONN_MODES = ['default', 'other', 'txn', 'other', 'default']


# ---------------------------------------------------------------- generation
def rand_key(rng, with_id):
    cols = COLS if with_id else COLS[1:]
    c = rng.choice(cols) if rng.random() > 0.5 else rng.choice(['k0', 'k1'])
    return ('-' if rng.random() < 0.4 else '') + c


def rand_order(rng, with_id=True):
    """JSON form of an orderBy: None | 'name' | ['list', names...] | ['tuple', names...]"""
    r = rng.random()
    if r < 0.12:
        return None
    if r < 0.30:
        return rand_key(rng, with_id)
    n = 1 if r < 0.36 else (2 if r < 0.78 else 3)
    keys = []
    while len(keys) < n:
        k = rand_key(rng, with_id)
        if k.lstrip('-') not in [x.lstrip('-') for x in keys]:
            keys.append(k)
    return [rng.choice(['list', 'tuple'])] + keys


def rand_history(rng, nops, malformed=False, with_id=True, maxobj=5):
    orders = [rand_order(rng, with_id) for _ in range(6)]
    if malformed and rng.random() < 0.5:
        orders[rng.randrange(6)] = ['list']
    distinct = rng.random() < 0.25          # distinct key values: the ordering is total
    lowids = rng.random() < 0.4             # some objects get the explicit ids 0, -1, -2

    live = [[], [], []]
    seq = [0, 0, 0]
    dead = [[], [], []]
    counter = [0]

    def kv():
        if distinct:
            counter[0] += 1
            return None if rng.random() < 0.1 else (counter[0] * 7) % 23
        return rng.choice([None, None, 0, 0, 1, 1, 2])

    def pick(c, bad=0.04):
        if rng.random() < bad or not live[c]:
            if dead[c] and rng.random() < 0.6:
                return rng.choice(dead[c])
            return seq[c] + 3
        return rng.choice(live[c])

    def fkval():
        r = rng.random()
        if r < 0.15:
            return ['none']
        if r < 0.25:
            return ['id', rng.choice(dead[0] + [seq[0] + 2, 77])]       # dangling on purpose
        if r < 0.6:
            return ['id', pick(0, 0)]
        return ['obj', pick(0, 0.05 if malformed else 0.02)]

    ops = []
    while len(ops) < nops:
        r = rng.random()
        few = sum(len(x) for x in live) < 4
        if r < (0.6 if few else 0.16):
            c = rng.choice([0, 1, 1, 2]) if live[0] else rng.choice([0, 0, 1, 2])
            if len(live[c]) >= maxobj:
                continue
            ex = None
            rr = rng.random()
            if lowids and rng.random() < 0.35:
                ex = rng.choice([0, 0, 0, -1, -2])       # primary keys that are falsy / negative
            elif rr < 0.12 and dead[c]:
                ex = rng.choice(dead[c])                 # take a destroyed object's id again
            elif rr < 0.18:
                ex = seq[c] + rng.randint(1, 3)
            elif rr < (0.26 if malformed else 0.20) and live[c]:
                ex = rng.choice(live[c])                 # taken: refused
            fk = fkval() if c == 1 else ['none']
            ops.append({'op': 'create', 'c': c, 'id': ex, 'k': [kv(), kv(), kv()], 'fk': fk})
            if fk[0] == 'obj' and fk[1] not in live[0]:
                continue
            i = ex if ex is not None else seq[c] + 1
            if i in live[c]:
                continue
            live[c].append(i)
            if i in dead[c]:
                dead[c].remove(i)
            seq[c] = max(seq[c], i)
        elif r < 0.28:
            c = rng.randrange(3)
            ops.append({'op': 'setkey', 'c': c, 'id': pick(c), 'col': rng.randrange(3), 'v': kv()})
        elif r < 0.44:
            ops.append({'op': 'setfk', 'id': pick(1), 'fk': fkval()})
        elif r < 0.72:
            name = rng.choice(['rbs', 'ras', 'ps', 'fr', 'fr', 'of', 'of'])
            j = JOINS[name]
            x, y = pick(j[2]), pick(j[3])
            ops.append({'op': 'add', 'j': name, 'via': rng.randrange(2), 'x': x, 'y': y})
            if rng.random() < 0.15:                      # a duplicate link, perhaps from the other side
                ops.append({'op': 'add', 'j': name, 'via': rng.randrange(2), 'x': x, 'y': y})
        elif r < 0.84:
            name = rng.choice(['rbs', 'ras', 'ps', 'fr', 'of'])
            j = JOINS[name]
            ops.append({'op': 'remove', 'j': name, 'via': rng.randrange(2), 'x': pick(j[2]), 'y': pick(j[3])})
        else:
            c = rng.randrange(3)
            i = pick(c)
            ops.append({'op': 'destroy', 'c': c, 'id': i})
            if i in live[c]:
                live[c].remove(i)
                dead[c].append(i)
    return {'orders': orders, 'ops': ops[:nops]}


def corpus():
    mk = lambda orders, ops: {'orders': orders, 'ops': ops}
    cr = lambda c, k, fk=None, i=None: {'op': 'create', 'c': c, 'id': i, 'k': k, 'fk': fk or ['none']}
    none6 = [None] * 6
    base = [
        # fixed finding 14: multi-key orderBy on list joins (ties on the first key, None among the second)
        mk([['list', 'k0', '-k1']] * 6,
           [cr(0, [1, None, None]), cr(1, [2, 1, None], ['obj', 1]), cr(1, [2, 3, None], ['id', 1]),
            cr(1, [None, 5, None], ['obj', 1]), cr(1, [1, None, None], ['obj', 1]), cr(1, [1, 7, None], ['obj', 1]),
            {'op': 'add', 'j': 'rbs', 'via': 0, 'x': 1, 'y': 3}, {'op': 'add', 'j': 'ras', 'via': 1, 'x': 1, 'y': 1},
            {'op': 'add', 'j': 'rbs', 'via': 1, 'x': 1, 'y': 5}, {'op': 'add', 'j': 'rbs', 'via': 0, 'x': 1, 'y': 2}]),
        # fixed finding (16e77ff): orderBy 'id' on a query-flavoured related join
        mk([None, 'id', None, None, None, None],
           [cr(0, [None, None, None]), cr(1, [None, None, None]), {'op': 'add', 'j': 'rbs', 'via': 0, 'x': 1, 'y': 1}]),
        mk([None, None, None, None, ['tuple', '-k0', 'id'], '-id'],
           [cr(2, [1, None, None]), cr(2, [1, None, None]), {'op': 'add', 'j': 'fr', 'via': 0, 'x': 1, 'y': 2},
            {'op': 'add', 'j': 'of', 'via': 0, 'x': 1, 'y': 1}]),
        # duplicate links, removal from the other side, destroy on the one-sided table, id taken again
        mk(none6,
           [cr(0, [0, 0, 0]), cr(2, [0, 0, 0]), cr(1, [0, 0, 0], ['obj', 1]),
            {'op': 'add', 'j': 'ps', 'via': 0, 'x': 1, 'y': 1}, {'op': 'add', 'j': 'ps', 'via': 1, 'x': 1, 'y': 1},
            {'op': 'add', 'j': 'rbs', 'via': 0, 'x': 1, 'y': 1}, {'op': 'add', 'j': 'ras', 'via': 0, 'x': 1, 'y': 1},
            {'op': 'remove', 'j': 'ras', 'via': 1, 'x': 1, 'y': 1},
            {'op': 'destroy', 'c': 2, 'id': 1}, {'op': 'destroy', 'c': 0, 'id': 1},
            cr(0, [1, 1, 1], None, 1), cr(2, [1, 1, 1], None, 1)]),
        # degenerate orderBy=[]
        mk([['list'], None, None, None, None, ['list']],
           [cr(0, [0, 0, 0]), cr(1, [0, 0, 0], ['obj', 1]), cr(2, [0, 0, 0])]),
    ]
    # seeded change c13_singlejoin_wrong_connection: the owner lives on an explicit connection / in a transaction
    single = [cr(0, [0, 0, 0]), cr(1, [0, 0, 0], ['obj', 1]), cr(1, [1, 1, 1], ['id', 1]),
              {'op': 'setfk', 'id': 1, 'fk': ['none']}, {'op': 'destroy', 'c': 1, 'id': 2}]
    # seeded change c13_relatedjoin_drops_id_zero: objects whose primary key is 0 (falsy) or negative, as owners and
    # as targets of every kind of join
    def low(a, b, p):
        return mk([['list', 'k0', '-k1'], 'id', '-k0', None, ['tuple', '-id'], 'k1'],
                  [cr(0, [0, 0, 0], None, a), cr(1, [1, 0, 0], ['obj', a], b), cr(1, [0, 1, 0], ['id', a]),
                   cr(2, [0, 0, 0], None, p), cr(2, [1, 1, 1]), cr(0, [1, 1, 1]),
                   {'op': 'add', 'j': 'rbs', 'via': 0, 'x': a, 'y': b}, {'op': 'add', 'j': 'ras', 'via': 1, 'x': b, 'y': 1},
                   {'op': 'add', 'j': 'ps', 'via': 0, 'x': a, 'y': p}, {'op': 'add', 'j': 'fr', 'via': 0, 'x': p, 'y': p},
                   {'op': 'add', 'j': 'of', 'via': 0, 'x': p, 'y': 1}, {'op': 'add', 'j': 'fr', 'via': 1, 'x': 1, 'y': p},
                   {'op': 'setkey', 'c': 1, 'id': b, 'col': 0, 'v': None}, {'op': 'setfk', 'id': b, 'fk': ['none']},
                   {'op': 'setfk', 'id': b, 'fk': ['id', a]}, {'op': 'remove', 'j': 'ras', 'via': 0, 'x': b, 'y': a},
                   {'op': 'destroy', 'c': 2, 'id': p}, {'op': 'destroy', 'c': 0, 'id': a}, cr(0, [2, 2, 2], None, a)])
    base += [low(0, 0, 0), low(-1, -2, -1)]
    out = list(base)
    out.append(dict(low(0, 0, 0), conn='other'))
    out.append(dict(low(-1, 0, 0), conn='txn'))
    for mode in ('other', 'txn'):
        out.append(dict(mk(none6, single), conn=mode))
        out.append(dict(base[0], conn=mode))
        out.append(dict(base[3], conn=mode))
    return out


def generate(rng, tier):
    out = []
    n = 640 if tier == 'quick' else 6000
    for k in range(n):
        c = rand_history(rng, rng.randint(5, 40), malformed=(k % 8 == 7), with_id=(k % 3 != 0))
        c['conn'] = CONN_MODES[(k // 3) % 5]        # independent of the k % 3 / k % 8 cycles
        out.append(c)
    return out


def search_cases(rng, tier):
    out = []
    for k in range(1500 if tier == 'quick' else 6000):
        c = rand_history(rng, rng.randint(5, 40), malformed=(k % 8 == 7), with_id=(k % 3 != 0), maxobj=6)
        c['conn'] = CONN_MODES[(k // 3) % 5]
        out.append(c)
    return out


# ---------------------------------------------------------------- implementation side
def py_order(o):
    if o is None or isinstance(o, str):
        return o
    return list(o[1:]) if o[0] == 'list' else tuple(o[1:])


_counter = [0]


DECOY = [
    "INSERT INTO va (id, k0, k1, k2) VALUES (1, 0, 0, 0), (2, 1, 1, 1), (3, 2, 2, 2), (4, 0, 1, 2)",
    "INSERT INTO vb (id, k0, k1, k2, a_id) VALUES (101, 0, 0, 0, 1), (102, 1, 1, 1, 2), (103, 2, 2, 2, 3), "
    "(104, 0, 1, 2, 4), (105, 2, 1, 0, 1)",
    "INSERT INTO vp (id, k0, k1, k2) VALUES (101, 0, 0, 0), (102, 1, 1, 1), (1, 2, 2, 2), (2, 0, 1, 2)",
    "INSERT INTO lab (a_id, b_id) VALUES (1, 101), (2, 102), (3, 103), (4, 104), (1, 105), (101, 1), (102, 2)",
    "INSERT INTO lap (a_id, p_id) VALUES (1, 101), (2, 102), (3, 1), (4, 2)",
    "INSERT INTO lpp (from_id, to_id) VALUES (1, 101), (2, 102), (101, 1), (102, 2), (3, 101), (101, 3)",
]


class Ctx(object):
    """where a history runs: the classes, the connection the work goes through, and whether that
    connection is handed over explicitly (connection=...) or is the classes' own"""
    def __init__(self, K, work, explicit, closers):
        self.K, self.work, self.explicit, self.closers = K, work, explicit, closers

    def get(self, cls, i):
        return cls.get(i, connection=self.work) if self.explicit else cls.get(i)

    def new(self, cls, **kw):
        if self.explicit:
            kw['connection'] = self.work
        return cls(**kw)


def build_fixture(orders, mode='default'):
    """Three fresh classes in a private registry on a private in-memory database.
    mode 'default': the classes' own connection does the work.
    mode 'other':   the classes are bound to a database filled with decoy rows; the history runs on a second
                    database through an explicit connection=conn2.
    mode 'txn':     as 'other', through a Transaction of conn2 (nothing is committed)."""
    from sqlobject import SQLObject, IntCol, ForeignKey, MultipleJoin, SQLMultipleJoin, RelatedJoin, \
        SQLRelatedJoin, SingleJoin
    from sqlobject.sqlite.sqliteconnection import SQLiteConnection
    _counter[0] += 1
    reg = 'verif_c13_%d' % _counter[0]
    conn = SQLiteConnection(':memory:')
    o = [py_order(x) for x in orders]

    def rel(cls, other, order, name, table, jc, oc, create):
        kw = dict(orderBy=order, intermediateTable=table, joinColumn=jc, otherColumn=oc)
        return (RelatedJoin(other, addRemoveName=name, createRelatedTable=create, **kw),
                SQLRelatedJoin(other, addRemoveName=name + 'q', createRelatedTable=False, **kw))

    class VA(SQLObject):
        class sqlmeta:
            registry = reg
        _connection = conn
        k0 = IntCol(default=None)
        k1 = IntCol(default=None)
        k2 = IntCol(default=None)
        bs = MultipleJoin('VB', joinColumn='a_id', orderBy=o[0])
        bsq = SQLMultipleJoin('VB', joinColumn='a_id', orderBy=o[0])
        one = SingleJoin('VB', joinColumn='a_id')
        rbs, rbsq = rel('VA', 'VB', o[1], 'Rb', 'lab', 'a_id', 'b_id', True)
        ps, psq = rel('VA', 'VP', o[2], 'Ps', 'lap', 'a_id', 'p_id', True)

    class VB(SQLObject):
        class sqlmeta:
            registry = reg
        _connection = conn
        k0 = IntCol(default=None)
        k1 = IntCol(default=None)
        k2 = IntCol(default=None)
        a = ForeignKey('VA', default=None, dbName='a_id')
        ras, rasq = rel('VB', 'VA', o[3], 'Ra', 'lab', 'b_id', 'a_id', False)

    class VP(SQLObject):
        class sqlmeta:
            registry = reg
        _connection = conn
        k0 = IntCol(default=None)
        k1 = IntCol(default=None)
        k2 = IntCol(default=None)
        fr, frq = rel('VP', 'VP', o[4], 'Fr', 'lpp', 'from_id', 'to_id', True)
        of, ofq = rel('VP', 'VP', o[5], 'Of', 'lpp', 'to_id', 'from_id', False)

    K = [VA, VB, VP]
    for c in K:
        c.createTable()
    if mode == 'default':
        return Ctx(K, conn, False, [conn])
    for q in DECOY:
        conn.query(q)
    conn2 = SQLiteConnection(':memory:')
    for c in K:
        c.createTable(connection=conn2)
    if mode == 'other':
        return Ctx(K, conn2, True, [conn2, conn])
    trans = conn2.transaction()

    class _Rollback(object):
        def close(self):
            trans.rollback()
    return Ctx(K, trans, True, [_Rollback(), conn2, conn])


def err_code(e):
    n = type(e).__name__
    if n == 'SQLObjectNotFound':
        return 1
    if n == 'RecursionError':
        return 2
    if n in ('OperationalError', 'ProgrammingError', 'DatabaseError'):
        return 3
    return 0


def do_op(X, op):
    K = X.K
    VA, VB, VP = K
    kind = op['op']

    def fk_kw(fk):
        if fk[0] == 'none':
            return {'a': None}
        if fk[0] == 'id':
            return {'aID': fk[1]}
        return {'a': X.get(VA, fk[1])}
    if kind == 'create':
        c = K[op['c']]
        kw = dict(zip(('k0', 'k1', 'k2'), op['k']))
        if op['c'] == 1:
            kw.update(fk_kw(op['fk']))
        if op['id'] is not None:
            kw['id'] = op['id']
        X.new(c, **kw)
    elif kind == 'setkey':
        setattr(X.get(K[op['c']], op['id']), 'k%d' % op['col'], op['v'])
    elif kind == 'setfk':
        b = X.get(VB, op['id'])
        for k, v in fk_kw(op['fk']).items():
            setattr(b, k, v)
    elif kind in ('add', 'remove'):
        j = JOINS[op['j']]
        x = X.get(K[j[2]], op['x'])
        y = X.get(K[j[3]], op['y'])
        getattr(x, kind + j[4][op['via']])(y)
    elif kind == 'destroy':
        X.get(K[op['c']], op['id']).destroySelf()
    else:
        raise ValueError(kind)


def observe(X):
    conn, K = X.work, X.K
    VA, VB, VP = K
    wrong = []      # objects handed out that are not bound to the connection the history runs on
    tabs = [
        [[r[0], [r[1], r[2], r[3], None]] for r in conn.queryAll('SELECT id, k0, k1, k2 FROM va ORDER BY id')],
        [[r[0], [r[1], r[2], r[3], r[4]]] for r in conn.queryAll('SELECT id, k0, k1, k2, a_id FROM vb ORDER BY id')],
        [[r[0], [r[1], r[2], r[3], None]] for r in conn.queryAll('SELECT id, k0, k1, k2 FROM vp ORDER BY id')],
    ]
    links = [
        [list(r) for r in conn.queryAll('SELECT a_id, b_id FROM lab ORDER BY rowid')],
        [list(r) for r in conn.queryAll('SELECT a_id, p_id FROM lap ORDER BY rowid')],
        [list(r) for r in conn.queryAll('SELECT from_id, to_id FROM lpp ORDER BY rowid')],
    ]
    acc = []
    keys = {}       # attribute values of the objects as Python sees them: (class, id) -> [id, k0, k1, k2]
    for ci, (cls, rng_) in enumerate(((VA, range(0, 7)), (VB, range(7, 9)), (VP, range(9, 13)))):
        for row in tabs[ci]:
            obj = X.get(cls, row[0])
            keys['%d:%d' % (ci, row[0])] = [obj.id, obj.k0, obj.k1, obj.k2]
            for n in rng_:
                try:
                    v = getattr(obj, ACC[n])
                    if n == 2:
                        res = ['none'] if v is None else ['one', v.id]
                        got = [] if v is None else [v]
                    else:
                        got = list(v)
                        res = ['ids', [x.id for x in got]]
                    if X.explicit and any(x._connection is not conn for x in got):
                        wrong.append([n, row[0]])
                except RecursionError as e:
                    res = ['err', 2, 'RecursionError']
                except Exception as e:
                    res = ['err', err_code(e), type(e).__name__]
                acc.append([n, row[0], res])
    return {'tabs': tabs, 'links': links, 'acc': acc, 'attrs': keys, 'wrongconn': wrong}


def run_case(case):
    X = build_fixture(case['orders'], case.get('conn', 'default'))
    steps = []
    try:
        for op in case['ops']:
            st, exn = 0, None
            try:
                do_op(X, op)
            except Exception as e:
                n = type(e).__name__
                st = 1 if n == 'SQLObjectNotFound' else (2 if n == 'DuplicateEntryError' else 9)
                exn = n
            o = observe(X)
            o['status'] = st
            if exn:
                o['exn'] = exn
            steps.append(o)
    finally:
        for c in X.closers:
            try:
                c.close()
            except Exception:
                pass
    return {'steps': steps}


def run_impl(cases):
    import sys
    sys.setrecursionlimit(400)          # orderBy=[] recurses until the limit: keep that cheap
    out = []
    for c in cases:
        try:
            out.append(run_case(c))
        except Exception as e:
            out.append({'crash': '%s: %s' % (type(e).__name__, e)})
    return out


# ---------------------------------------------------------------- Coq side
def z(n):
    return '(%d)' % n if n < 0 else '%d' % n


def oz(v):
    return 'Nn' if v is None else '(Sm %s)' % z(v)


def coq_key(k):
    desc = k.startswith('-')
    name = k[1:] if desc else k
    col = 'CId' if name == 'id' else '(CK K%s)' % name[1]
    return '(%s %s)' % ('Kd' if desc else 'Ka', col)


def coq_order(o):
    if o is None:
        return 'ONone'
    if isinstance(o, str):
        return '(OOne %s)' % coq_key(o)
    return '(OList [%s])' % '; '.join(coq_key(k) for k in o[1:])


def coq_fk(fk):
    return {'none': 'FkNone', 'id': '(FkId %s)', 'obj': '(FkObj %s)'}[fk[0]] % (() if fk[0] == 'none' else (z(fk[1]),))


def coq_join(name):
    j = JOINS[name]
    return '{| j_link := %s; j_side := %s |}' % (['LAB', 'LAP', 'LPP'][j[0]], ['First', 'Second'][j[1]])


def coq_op(op):
    k = op['op']
    C = lambda c: ['CA', 'CB', 'CP'][c]
    if k == 'create':
        return '(Create %s %s %s %s %s %s)' % (C(op['c']), oz(op['id']), oz(op['k'][0]), oz(op['k'][1]), oz(op['k'][2]),
                                               coq_fk(op['fk'] if op['c'] == 1 else ['none']))
    if k == 'setkey':
        return '(SetKey %s %s K%d %s)' % (C(op['c']), z(op['id']), op['col'], oz(op['v']))
    if k == 'setfk':
        return '(SetFk %s %s)' % (z(op['id']), coq_fk(op['fk']))
    if k == 'add':
        return '(Add %s %s %s)' % (coq_join(op['j']), z(op['x']), z(op['y']))
    if k == 'remove':
        return '(Remove %s %s %s)' % (coq_join(op['j']), z(op['x']), z(op['y']))
    return '(Destroy %s %s)' % (C(op['c']), z(op['id']))


def coq_acc(a):
    n, i, r = a
    if r[0] == 'ids':
        t = '(OIds [%s])' % ';'.join(z(x) for x in r[1])
    elif r[0] == 'none':
        t = 'ONoneV'
    elif r[0] == 'one':
        t = '(OOneV %s)' % z(r[1])
    else:
        t = '(OErr %d)' % r[1]
    return '(%d,%s,%s)' % (n, z(i), t)


def coq_tab(t):
    return '[%s]' % ';'.join('(%s,[%s])' % (z(r[0]), ';'.join(oz(v) for v in r[1])) for r in t)


def coq_link(t):
    return '[%s]' % ';'.join('(%s,%s)' % (z(a), z(b)) for a, b in t)


def coq_step(s, prev):
    """difference encoding: unchanged tables are Nn, unchanged accessor reads are left out"""
    ptabs = prev['tabs'] if prev else [[], [], []]
    plinks = prev['links'] if prev else [[], [], []]
    pacc = {(n, i): r for n, i, r in prev['acc']} if prev else {}
    tabs = '[%s]' % ';'.join('Nn' if t == p else '(Sm %s)' % coq_tab(t) for t, p in zip(s['tabs'], ptabs))
    links = '[%s]' % ';'.join('Nn' if t == p else '(Sm %s)' % coq_link(t) for t, p in zip(s['links'], plinks))
    acc = ';'.join(coq_acc(a) for a in s['acc'] if pacc.get((a[0], a[1])) != a[2])
    return '(Bs %d %s %s [%s])' % (s['status'], tabs, links, acc)


def coq_case(c, o):
    steps = o['steps']
    return '{| c_ord := [%s]; c_ops := [%s]; c_obs := [%s] |}' % (
        '; '.join(coq_order(x) for x in c['orders']),
        '; '.join(coq_op(x) for x in c['ops']),
        ';\n '.join(coq_step(s, steps[k - 1] if k else None) for k, s in enumerate(steps)))


# ---------------------------------------------------------------- oracle (the property itself, on the implementation)
def key_tuple(keys, attrs):
    """sort position of an object under the declared keys; None lowest; '-' reverses"""
    out = []
    for k in keys:
        desc = k.startswith('-')
        v = attrs[COLS.index(k.lstrip('-'))]
        t = (0, 0) if v is None else (1, v)
        out.append((desc, t))
    return out


def le_keys(ka, kb):
    for (d, a), (_, b) in zip(ka, kb):
        if a == b:
            continue
        return (a > b) if d else (a < b)
    return True


def order_names(o):
    if o is None:
        return []
    if isinstance(o, str):
        return [o]
    return list(o[1:])


def failures(case, obs):
    """every way in which the observation contradicts the property, in step order"""
    # what the history says the relation is: a link is there once per add since the last remove of that
    # pair, until one of its ends is destroyed; a foreign key is what was last assigned
    LCLS = ((0, 1), (0, 2), (2, 2))
    want_links = [[], [], []]
    want_fk = {}
    prev_b = set()
    for si, s in enumerate(obs['steps']):
        if s['status'] == 9:
            yield {'step': si, 'what': 'operation raised %s' % s.get('exn'), 'kind': 'op-error'}
        tabs, links = s['tabs'], s['links']
        live = [set(r[0] for r in t) for t in tabs]
        fk = {r[0]: r[1][3] for r in tabs[1]}
        op = case['ops'][si]
        if s['status'] == 0:
            if op['op'] == 'create' and op['c'] == 1:
                for i in live[1] - prev_b:
                    want_fk[i] = None if op['fk'][0] == 'none' else op['fk'][1]
            elif op['op'] == 'setfk':
                want_fk[op['id']] = None if op['fk'][0] == 'none' else op['fk'][1]
            elif op['op'] in ('add', 'remove'):
                j = JOINS[op['j']]
                pair = [op['x'], op['y']] if j[1] == 0 else [op['y'], op['x']]
                if op['op'] == 'add':
                    want_links[j[0]].append(pair)
                else:
                    want_links[j[0]] = [p for p in want_links[j[0]] if p != pair]
            elif op['op'] == 'destroy':
                for li in range(3):
                    want_links[li] = [p for p in want_links[li]
                                      if not any(LCLS[li][k] == op['c'] and p[k] == op['id'] for k in (0, 1))]
                if op['c'] == 1:
                    want_fk.pop(op['id'], None)
        prev_b = live[1]
        for li in range(3):
            if sorted(links[li]) != sorted(want_links[li]):
                yield {'step': si, 'kind': 'relation', 'what': 'after %s link table %d holds %r; the adds and removes so far '
                       'leave %r' % (json.dumps(op), li, links[li], want_links[li])}
                want_links[li] = [list(p) for p in links[li]]      # report each divergence once
        if fk != want_fk:
            yield {'step': si, 'kind': 'relation', 'what': 'after %s the foreign keys are %r; assigned were %r' % (
                json.dumps(op), fk, want_fk)}
            want_fk = dict(fk)
        # link rows only mention existing objects
        for li, (c1, c2) in enumerate(((0, 1), (0, 2), (2, 2))):
            for a, b in links[li]:
                if a not in live[c1] or b not in live[c2]:
                    yield {'step': si, 'kind': 'dangling-link', 'what': 'link table %d row %r mentions a missing object' % (li, [a, b])}
        res = {(n, i): r for n, i, r in s['acc']}
        for n, i in s.get('wrongconn', []):
            yield {'step': si, 'kind': 'connection', 'accessor': ACC[n], 'owner': i,
                   'what': 'accessor %s of %d handed out an object that is not bound to the owner\'s connection' % (ACC[n], i)}
        for ci in range(3):
            for i in live[ci]:
                for n in range(13):
                    if ACC_OWNER[n] == ci and (n, i) not in res:
                        yield {'step': si, 'kind': 'harness', 'what': 'accessor %s of %s %d not read' % (ACC[n], CLS[ci], i)}
        for (n, i), r in sorted(res.items()):
            names = order_names(case['orders'][ACC_ORD[n]]) if n != 2 else []
            valid_order = not (n != 2 and isinstance(case['orders'][ACC_ORD[n]], list) and not names)
            where = {'step': si, 'accessor': ACC[n], 'owner': i, 'orderBy': case['orders'][ACC_ORD[n]] if n != 2 else None}
            if n == 2:
                refs = sorted(b for b, f in fk.items() if f == i)
                if r[0] == 'err':
                    yield dict(where, kind='error', what='SingleJoin raised %s' % r[2])
                    continue
                if (r[0] == 'none') != (not refs):
                    yield dict(where, kind='single', what='SingleJoin gave %r, referencing rows %r' % (r, refs))
                if r[0] == 'one' and r[1] not in refs:
                    yield dict(where, kind='single', what='SingleJoin gave %r, referencing rows %r' % (r, refs))
                continue
            if r[0] == 'err':
                if not valid_order:
                    continue            # orderBy=[] is not an ordering; nothing is promised
                yield dict(where, kind='error', error=r[2], what='accessor raised %s' % r[2])
                continue
            got = r[1]
            if n in (0, 1):
                want = sorted(b for b, f in fk.items() if f == i)
            else:
                li, mine, theirs = ACC_LINK[n]
                want = sorted(row[theirs] for row in links[li] if row[mine] == i)
            if sorted(got) != want:
                yield dict(where, kind='mirror', what='accessor returned ids %r, the stored relation has %r' % (got, want))
                continue
            # ordering, judged on the attribute values the program sees
            t = ACC_TARGET[n]
            ks = [key_tuple(names, s['attrs']['%d:%d' % (t, x)]) for x in got]
            for a in range(len(ks) - 1):
                if not le_keys(ks[a], ks[a + 1]):
                    yield dict(where, kind='order', what='result %r is not ordered by %r (keys %r)' % (
                        got, names, [s['attrs']['%d:%d' % (t, x)] for x in got]))
        # symmetry of the many-to-many joins declared on both sides
        for na, nb in ((3, 7), (9, 11)):
            for (n, i), r in res.items():
                if n != na or r[0] != 'ids':
                    continue
                for (m, j), q in res.items():
                    if m != nb or q[0] != 'ids':
                        continue
                    if r[1].count(j) != q[1].count(i):
                        yield {'step': si, 'kind': 'symmetry',
                                'what': '%s of %d holds %d %d time(s), %s of %d holds %d %d time(s)' % (
                                    ACC[na], i, j, r[1].count(j), ACC[nb], j, i, q[1].count(i))}
        # list flavour and query flavour
        for nl, nq in ((0, 1), (3, 4), (5, 6), (7, 8), (9, 10), (11, 12)):
            for (n, i), r in res.items():
                if n != nl:
                    continue
                q = res[(nq, i)]
                if r[0] != 'ids' or q[0] != 'ids':
                    continue
                if sorted(r[1]) != sorted(q[1]):
                    yield {'step': si, 'kind': 'flavours', 'what': '%s=%r but %s=%r' % (ACC[nl], r[1], ACC[nq], q[1])}
                    continue
                if any('%d:%d' % (ACC_TARGET[nl], x) not in s['attrs'] for x in r[1]):
                    continue
                names = order_names(case['orders'][ACC_ORD[nl]])
                t = ACC_TARGET[nl]
                kts = [tuple(key_tuple(names, s['attrs']['%d:%d' % (t, x)])) for x in set(r[1])]
                if names and len(set(kts)) == len(kts) and r[1] != q[1]:
                    yield {'step': si, 'kind': 'flavours', 'owner': i,
                            'what': 'the ordering is total, yet %s=%r and %s=%r' % (ACC[nl], r[1], ACC[nq], q[1])}


def oracle(case, obs):
    """the first way in which the observation contradicts the property"""
    for f in failures(case, obs):
        return f
    return None


def classify(case, obs, f):
    # no open finding: sqlrelatedjoin_orderby_id_ambiguous is fixed (16e77ff) and suppresses nothing
    return None


def nontrivial(case, obs):
    big = tie = refused = False
    for s in obs['steps']:
        if s['status'] != 0:
            refused = True
        for n, i, r in s['acc']:
            if r[0] == 'ids' and len(r[1]) >= 2:
                big = True
                if n in LIST_ACC:
                    names = order_names(case['orders'][ACC_ORD[n]])
                    t = ACC_TARGET[n]
                    vals = [tuple(s['attrs']['%d:%d' % (t, x)][COLS.index(k.lstrip('-'))] for k in names) for x in r[1]]
                    if names and (len(set(vals)) < len(vals) or any(None in v for v in vals)):
                        tie = True
    return (big and tie) or refused


def key(case):
    return [case['orders'], case['ops'], case.get('conn', 'default')]


def distribution(cases, obs):
    d = {'ops': {}, 'refused': {}, 'orders': {'none': 0, 'single': 0, 'list1': 0, 'list2': 0, 'list3': 0, 'empty': 0, 'with_id': 0},
         'lengths': {}, 'accessor_reads': 0, 'reads_with_2plus': 0, 'accessor_errors': {}, 'max_objects': 0,
         'duplicate_links_seen': 0, 'dangling_fk_seen': 0, 'connection_mode': {}}
    for c, o in zip(cases, obs):
        m = c.get('conn', 'default')
        d['connection_mode'][m] = d['connection_mode'].get(m, 0) + 1
        for x in c['orders']:
            if x is None:
                d['orders']['none'] += 1
            elif isinstance(x, str):
                d['orders']['single'] += 1
            else:
                d['orders']['list%d' % (len(x) - 1) if len(x) > 1 else 'empty'] += 1
            if any(k.lstrip('-') == 'id' for k in order_names(x)):
                d['orders']['with_id'] += 1
        b = str(len(c['ops']) // 10 * 10)
        d['lengths'][b] = d['lengths'].get(b, 0) + 1
        if not isinstance(o, dict) or 'steps' not in o:
            continue
        for op, s in zip(c['ops'], o['steps']):
            d['ops'][op['op']] = d['ops'].get(op['op'], 0) + 1
            if s['status']:
                k = '%s:%s' % (op['op'], s.get('exn'))
                d['refused'][k] = d['refused'].get(k, 0) + 1
            d['accessor_reads'] += len(s['acc'])
            d['max_objects'] = max(d['max_objects'], sum(len(t) for t in s['tabs']))
            for n, i, r in s['acc']:
                if r[0] == 'ids' and len(r[1]) >= 2:
                    d['reads_with_2plus'] += 1
                if r[0] == 'err':
                    d['accessor_errors'][r[2]] = d['accessor_errors'].get(r[2], 0) + 1
            if any(len(set(map(tuple, t))) < len(t) for t in s['links']):
                d['duplicate_links_seen'] += 1
            ida = set(r[0] for r in s['tabs'][0])
            if any(r[1][3] is not None and r[1][3] not in ida for r in s['tabs'][1]):
                d['dangling_fk_seen'] += 1
    return d


def explain(case, obs):
    f = oracle(case, obs)
    return 'orders %s; %d ops; oracle says %s' % (json.dumps(case['orders']), len(case['ops']), json.dumps(f))
