"""C13 -- join accessors always mirror the stored relation.

A case is a history of create / set-key / fk-assign / add / remove / destroy
operations over three classes (A <- B by foreign key; A--B many-to-many declared
on both sides; A--P many-to-many declared on A only; P--P a mirrored pair of
self-referential many-to-many joins), together with the orderBy of every join.
After every operation every accessor of every live object is read on the real
SQLObject (sqlite :memory:) and the raw tables are dumped.

Round 6: orderBy keys are written as names ('k0', '-k0') or as expressions (Cls.q.k0, DESC(Cls.q.k0)); a join may
be declared without orderBy and every class may have a sqlmeta.defaultOrder (a name or a list); the ManyToMany /
OneToMany descriptors (A.mbs, B.mas over the A--B table, P.mas over the A--P table, P.mfr over the P--P table,
A.obs over B's foreign key) are read (iteration and .count()) and operated (add / remove / create)."""
import json

PROP = 'C13'
PROPS_VO = 'Props/C13.vo'
CORR_VO = 'Corr/C13.vo'
GENERATORS = {'Joins': 'tools.py2coq.gen_joins'}
SOURCES = ['sqlobject/joins.py', 'sqlobject/main.py', 'sqlobject/dbconnection.py', 'sqlobject/sresults.py']
COQ_HEADER = '''From Coq Require Import List ZArith. Import ListNotations. Open Scope Z_scope.
From Lib Require Import CorrLib. From Gen Require Import Joins. From Model Require Import Joins.
From Corr Require Import C13.
Notation Sm := Some. Notation Nn := None.
Notation Ka c := {| k_col := c; k_desc := false; k_form := FName |}. Notation Kd c := {| k_col := c; k_desc := true; k_form := FName |}.
Notation Qa c := {| k_col := c; k_desc := false; k_form := FExpr |}. Notation Qd c := {| k_col := c; k_desc := true; k_form := FExpr |}.
Notation Bs s t l a := {| so_status := s; so_tabs := t; so_links := l; so_acc := a |}.'''
COQ_CASE_TYPE = 'case'
COQ_AGREE = 'agree'
REPLAY_KIND = 'history'
EXHAUSTIVE = {'quick': False, 'thorough': False}
IMPL_TIMEOUT = 1500
RULE = ('seeded random histories of 5..40 operations (create with/without explicit id, set a sort-key column, assign the '
        'foreign key as object / id / None, add and remove on each many-to-many from either side and through either flavour, '
        'destroy) over the classes A, B (fk to A), P with link tables A--B (two-sided), A--P (one-sided) and P--P (mirrored '
        'self-join); key columns take values in {None,0,1,2} (ties) or are distinct; orderBy of each of the six join pairs '
        'drawn from None / name / -name / lists and tuples of 1..3 keys with mixed directions, id included, each key written as a '
        'name or (about a third of the joins; on the self-referential pair one history in eight) as an expression Cls.q.col / '
        'DESC(Cls.q.col); 15% of the joins are declared without orderBy and 45% of the classes get a sqlmeta.defaultOrder '
        '(name or list); add/remove also go through the ManyToMany wrappers (A.mbs, B.mas, P.mas, P.mfr), create() through a '
        'ManyToMany or the OneToMany A.obs on the classes\' own connection; plus a malformed '
        'stream (orderBy=[], missing ids, taken explicit ids); in 2 of 5 histories about a third of the creates take the explicit '
        'primary keys 0, -1 or -2; each history runs in one of three connection modes: on the classes\' '
        'own connection, or (3 of 5 cases) with the classes bound to a decoy-filled database while every object is created/fetched '
        'with an explicit connection= to a second database, directly or through a Transaction of it.  After every step all 18 accessors of every live object are read '
        '(the six list joins twice in a row; the ManyToMany/OneToMany selects iterated and counted) and all six tables dumped.  Non-trivial = some accessor returned two or more objects and some list join had a tie or a '
        'None among its keys, or an op was refused; distinct = distinct (orders, op list).')
EXPLANATION = ('Theorems C13_* (Coq: all histories by induction over the op list, all table contents, all orderBy key lists) over '
               'a relational model whose doSort statement order, related-join column roles and destroySelf clean-up columns are '
               'REGENERATED from joins.py/dbconnection.py/main.py on this run; correspondence: the model stepped through each '
               'history inside Coq (vm_compute) against the real SQLObject on sqlite -- op outcome, raw tables, every accessor '
               '(exact order for list joins, sorted-permutation for query joins and for the ManyToMany/OneToMany selects under the '
               'other class\'s defaultOrder, .count() = number of candidates, SingleJoin = a first row under B\'s defaultOrder); the '
               'oracle judges every accessor directly from the raw tables, compares two successive reads of every list join and '
               'checks that the orderBy lists handed to the joins are left as they were.')
TRUSTED_BASE = [
    'Coq 8.16.1 kernel + vm_compute (examples, correspondence); no native_compute',
    'tools/py2coq/gen_joins.py (dedicated ast matcher: doSort statement order, SORelatedJoin/SOSQLRelatedJoin column roles, '
    '_SO_intermediate* templates, destroySelf clean-up loops, SOManyToMany.__get__ and _ManyToManySelectWrapper.add/remove '
    'column roles; wrapper create/__iter__/__getattr__ and the OneToMany descriptor must be the known text); it fails closed '
    'on any other shape',
    'Model/Joins.v is hand-written: list.sort is a stable sort and reverse=True keeps stability (Python); MinType sorts below ints; '
    'sqlite: a SELECT without ORDER BY scans in rowid order, AUTOINCREMENT ids are max-ever+1, NULL sorts lowest, '
    'ORDER BY is lexicographic with ties in unspecified order, foreign keys are not enforced '
    '-- each validated by execution on every case, none proved',
    'objects are identified with their rows: the list joins read sort keys from cached attribute values, assumed equal to the '
    'stored values (single connection, cache on: property C05)',
    'fixture: three classes, default cascade=None on the foreign key, explicit intermediateTable/joinColumn/otherColumn names; '
    'SingleJoin without makeDefault; ManyToMany descriptors only over tables that a RelatedJoin declares too (a table only '
    'ManyToMany declares is not cleaned by destroySelf: finding destroy_leaves_manytomany_links, stand-alone witness); '
    'defaultOrder written with names (expression keys only in join orderBy)',
    'ManyToMany/OneToMany selects have no connection of their own (finding manytomany_ignores_instance_connection): away from '
    'the classes\' connection the harness reads them through .connection(work connection) and does not generate create() '
    '(neither the ManyToMany\'s nor the OneToMany\'s)',
    'orderBy key forms: the DESC/SQLObjectField branch of doSort is text-matched by the generator and executed by the '
    'correspondence; the model identifies Cls.q.col with the name col (k_form is ignored by the list-join model, '
    'theorem C13_key_forms) except in sql_related of a self-referential join (database error, open finding)',
    'add/remove/fk-by-object operands are objects obtained with cls.get(id) (a missing row aborts the op); add(<int>) of a missing id is out of scope',
    'connections are not modelled: the same model is compared with histories run on the classes\' own connection, on an explicit '
    'second connection (classes bound to a decoy-filled database) and inside an uncommitted Transaction of it',
    'the correspondence harness tools/props/c13.py and the cases.v evaluation',
]

ACC = ['bs', 'bsq', 'one', 'rbs', 'rbsq', 'ps', 'psq', 'ras', 'rasq', 'fr', 'frq', 'of', 'ofq',
       'mbs', 'obs', 'mas', 'mas', 'mfr']      # 13.. : ManyToMany / OneToMany descriptors (A.mbs, A.obs, B.mas, P.mas, P.mfr)
SEL_ACC = (13, 14, 15, 16, 17)
READ_ORDER = ([0, 1, 2, 3, 4, 5, 6, 13, 14], [7, 8, 15], [9, 10, 11, 12, 16, 17])   # per owner class, as Corr reads_of
NACC = 18
DEFAULT = '@default'                            # a join declared without orderBy
LIST_ACC = (0, 3, 5, 7, 9, 11)
SQL_ACC = (1, 4, 6, 8, 10, 12)
SQLREL_ACC = (4, 6, 8, 10, 12)
ACC_ORD = {0: 0, 1: 0, 3: 1, 4: 1, 5: 2, 6: 2, 7: 3, 8: 3, 9: 4, 10: 4, 11: 5, 12: 5}
ACC_OWNER = [0] * 7 + [1] * 2 + [2] * 4 + [0, 0, 1, 2, 2]         # class index of the accessor's owner
ACC_TARGET = {0: 1, 1: 1, 2: 1, 3: 1, 4: 1, 5: 2, 6: 2, 7: 0, 8: 0, 9: 2, 10: 2, 11: 2, 12: 2,
              13: 1, 14: 1, 15: 0, 16: 0, 17: 2}
# related accessors: (link table index, column holding the owner, column holding the partner)
ACC_LINK = {3: (0, 0, 1), 4: (0, 0, 1), 5: (1, 0, 1), 6: (1, 0, 1), 7: (0, 1, 0), 8: (0, 1, 0),
            9: (2, 0, 1), 10: (2, 0, 1), 11: (2, 1, 0), 12: (2, 1, 0),
            13: (0, 0, 1), 15: (0, 1, 0), 16: (1, 1, 0), 17: (2, 0, 1)}
CLS = ['A', 'B', 'P']
JOINS = {  # name -> (link table, side, owner class, other class, [adder names list-flavour, query-flavour])
    'rbs': (0, 0, 0, 1, ['Rb', 'Rbq']), 'ps': (1, 0, 0, 2, ['Ps', 'Psq']), 'ras': (0, 1, 1, 0, ['Ra', 'Raq']),
    'fr': (2, 0, 2, 2, ['Fr', 'Frq']), 'of': (2, 1, 2, 2, ['Of', 'Ofq']),
    'pas': (1, 1, 2, 0, []),        # P's side of the A--P table: declared by the ManyToMany P.mas only
}
M2M_ATTR = {'rbs': 'mbs', 'ras': 'mas', 'pas': 'mas', 'fr': 'mfr'}     # via=2: through the ManyToMany descriptor
COLS = ['id', 'k0', 'k1', 'k2']
# where a history runs (see build_fixture): 3 of 5 cases away from the classes' default connection
CONN_MODES = ['default', 'other', 'txn', 'other', 'default']


# ---------------------------------------------------------------- generation
def rand_key(rng, with_id, expr=0.0):
    """a key: 'k0' / '-k0' (names), 'q:k0' (Cls.q.k0), 'qd:k0' (DESC(Cls.q.k0))"""
    cols = COLS if with_id else COLS[1:]
    c = rng.choice(cols) if rng.random() > 0.5 else rng.choice(['k0', 'k1'])
    desc = rng.random() < 0.4
    if rng.random() < expr:
        return ('qd:' if desc else 'q:') + c
    return ('-' if desc else '') + c


def key_name(k):
    """the key as a name: 'k0' / '-k0'"""
    if k.startswith('qd:'):
        return '-' + k[3:]
    if k.startswith('q:'):
        return k[2:]
    return k


def is_expr(k):
    return k.startswith('q:') or k.startswith('qd:')


def rand_order(rng, with_id=True, expr=0.0):
    """JSON form of an orderBy: None | key | ['list', keys...] | ['tuple', keys...]"""
    r = rng.random()
    if r < 0.12:
        return None
    if r < 0.30:
        return rand_key(rng, with_id, expr)
    n = 1 if r < 0.36 else (2 if r < 0.78 else 3)
    keys = []
    while len(keys) < n:
        k = rand_key(rng, with_id, expr)
        if key_name(k).lstrip('-') not in [key_name(x).lstrip('-') for x in keys]:
            keys.append(k)
    return [rng.choice(['list', 'tuple'])] + keys


def rand_history(rng, nops, malformed=False, with_id=True, maxobj=5, mode='default'):
    # expression keys on about a third of the joins; on the self-referential pair (where the query flavour
    # cannot resolve them: finding sqlrelatedjoin_self_expr_orderby) only in one history of eight
    selfexpr = rng.random() < 0.125
    orders = []
    for n in range(6):
        if rng.random() < 0.15:
            orders.append(DEFAULT)
        else:
            e = 0.35 if rng.random() < 0.4 else 0.0
            if n >= 4 and not selfexpr:
                e = 0.0
            orders.append(rand_order(rng, with_id, e))
    deford = [rand_order(rng, with_id) if rng.random() < 0.45 else None for _ in range(3)]
    if malformed and rng.random() < 0.5:
        orders[rng.randrange(6)] = ['list']
    distinct = rng.random() < 0.25          # distinct key values: the ordering is total
    lowids = rng.random() < 0.4             # some objects get the explicit ids 0, -1, -2

    live = [[], [], []]
    seq = [0, 0, 0]
    dead = [[], [], []]
    counter = [0]

    def kv():
        if distinct:
            counter[0] += 1
            return None if rng.random() < 0.1 else (counter[0] * 7) % 23
        return rng.choice([None, None, 0, 0, 1, 1, 2])

    def pick(c, bad=0.04):
        if rng.random() < bad or not live[c]:
            if dead[c] and rng.random() < 0.6:
                return rng.choice(dead[c])
            return seq[c] + 3
        return rng.choice(live[c])

    def fkval():
        r = rng.random()
        if r < 0.15:
            return ['none']
        if r < 0.25:
            return ['id', rng.choice(dead[0] + [seq[0] + 2, 77])]       # dangling on purpose
        if r < 0.6:
            return ['id', pick(0, 0)]
        return ['obj', pick(0, 0.05 if malformed else 0.02)]

    ops = []
    while len(ops) < nops:
        r = rng.random()
        few = sum(len(x) for x in live) < 4
        if r < (0.6 if few else 0.16):
            c = rng.choice([0, 1, 1, 2]) if live[0] else rng.choice([0, 0, 1, 2])
            if len(live[c]) >= maxobj:
                continue
            ex = None
            rr = rng.random()
            if lowids and rng.random() < 0.35:
                ex = rng.choice([0, 0, 0, -1, -2])       # primary keys that are falsy / negative
            elif rr < 0.12 and dead[c]:
                ex = rng.choice(dead[c])                 # take a destroyed object's id again
            elif rr < 0.18:
                ex = seq[c] + rng.randint(1, 3)
            elif rr < (0.26 if malformed else 0.20) and live[c]:
                ex = rng.choice(live[c])                 # taken: refused
            fk = fkval() if c == 1 else ['none']
            ops.append({'op': 'create', 'c': c, 'id': ex, 'k': [kv(), kv(), kv()], 'fk': fk})
            if fk[0] == 'obj' and fk[1] not in live[0]:
                continue
            i = ex if ex is not None else seq[c] + 1
            if i in live[c]:
                continue
            live[c].append(i)
            if i in dead[c]:
                dead[c].remove(i)
            seq[c] = max(seq[c], i)
        elif r < 0.28:
            c = rng.randrange(3)
            ops.append({'op': 'setkey', 'c': c, 'id': pick(c), 'col': rng.randrange(3), 'v': kv()})
        elif r < 0.44:
            ops.append({'op': 'setfk', 'id': pick(1), 'fk': fkval()})
        elif r < 0.68:
            name = rng.choice(['rbs', 'ras', 'ps', 'pas', 'fr', 'fr', 'of', 'of'])
            j = JOINS[name]
            x, y = pick(j[2]), pick(j[3])

            def via():
                if name == 'pas':
                    return 2
                return rng.randrange(3) if name in M2M_ATTR else rng.randrange(2)
            ops.append({'op': 'add', 'j': name, 'via': via(), 'x': x, 'y': y})
            if rng.random() < 0.15:                      # a duplicate link, perhaps from the other side
                ops.append({'op': 'add', 'j': name, 'via': via(), 'x': x, 'y': y})
        elif r < 0.72 and mode == 'default':
            # the descriptors' create(): a new partner / a new referencing row (on the classes' own connection only)
            if rng.random() < 0.3:
                if len(live[1]) >= maxobj:
                    continue
                x = pick(0)
                ops.append({'op': 'ocreate', 'x': x, 'k': [kv(), kv(), kv()]})
                if x in live[0]:
                    seq[1] += 1
                    live[1].append(seq[1])
            else:
                name = rng.choice(['rbs', 'ras', 'pas', 'fr'])
                j = JOINS[name]
                if len(live[j[3]]) >= maxobj:
                    continue
                x = pick(j[2])
                ops.append({'op': 'mcreate', 'j': name, 'x': x, 'k': [kv(), kv(), kv()]})
                if x in live[j[2]]:
                    seq[j[3]] += 1
                    live[j[3]].append(seq[j[3]])
        elif r < 0.84:
            name = rng.choice(['rbs', 'ras', 'ps', 'pas', 'fr', 'of'])
            j = JOINS[name]
            v = 2 if name == 'pas' else (rng.randrange(3) if name in M2M_ATTR else rng.randrange(2))
            ops.append({'op': 'remove', 'j': name, 'via': v, 'x': pick(j[2]), 'y': pick(j[3])})
        else:
            c = rng.randrange(3)
            i = pick(c)
            ops.append({'op': 'destroy', 'c': c, 'id': i})
            if i in live[c]:
                live[c].remove(i)
                dead[c].append(i)
    return {'orders': orders, 'deford': deford, 'ops': ops[:nops]}


def corpus():
    mk = lambda orders, ops: {'orders': orders, 'ops': ops}
    cr = lambda c, k, fk=None, i=None: {'op': 'create', 'c': c, 'id': i, 'k': k, 'fk': fk or ['none']}
    none6 = [None] * 6
    base = [
        # fixed finding 14: multi-key orderBy on list joins (ties on the first key, None among the second)
        mk([['list', 'k0', '-k1']] * 6,
           [cr(0, [1, None, None]), cr(1, [2, 1, None], ['obj', 1]), cr(1, [2, 3, None], ['id', 1]),
            cr(1, [None, 5, None], ['obj', 1]), cr(1, [1, None, None], ['obj', 1]), cr(1, [1, 7, None], ['obj', 1]),
            {'op': 'add', 'j': 'rbs', 'via': 0, 'x': 1, 'y': 3}, {'op': 'add', 'j': 'ras', 'via': 1, 'x': 1, 'y': 1},
            {'op': 'add', 'j': 'rbs', 'via': 1, 'x': 1, 'y': 5}, {'op': 'add', 'j': 'rbs', 'via': 0, 'x': 1, 'y': 2}]),
        # fixed finding (16e77ff): orderBy 'id' on a query-flavoured related join
        mk([None, 'id', None, None, None, None],
           [cr(0, [None, None, None]), cr(1, [None, None, None]), {'op': 'add', 'j': 'rbs', 'via': 0, 'x': 1, 'y': 1}]),
        mk([None, None, None, None, ['tuple', '-k0', 'id'], '-id'],
           [cr(2, [1, None, None]), cr(2, [1, None, None]), {'op': 'add', 'j': 'fr', 'via': 0, 'x': 1, 'y': 2},
            {'op': 'add', 'j': 'of', 'via': 0, 'x': 1, 'y': 1}]),
        # duplicate links, removal from the other side, destroy on the one-sided table, id taken again
        mk(none6,
           [cr(0, [0, 0, 0]), cr(2, [0, 0, 0]), cr(1, [0, 0, 0], ['obj', 1]),
            {'op': 'add', 'j': 'ps', 'via': 0, 'x': 1, 'y': 1}, {'op': 'add', 'j': 'ps', 'via': 1, 'x': 1, 'y': 1},
            {'op': 'add', 'j': 'rbs', 'via': 0, 'x': 1, 'y': 1}, {'op': 'add', 'j': 'ras', 'via': 0, 'x': 1, 'y': 1},
            {'op': 'remove', 'j': 'ras', 'via': 1, 'x': 1, 'y': 1},
            {'op': 'destroy', 'c': 2, 'id': 1}, {'op': 'destroy', 'c': 0, 'id': 1},
            cr(0, [1, 1, 1], None, 1), cr(2, [1, 1, 1], None, 1)]),
        # degenerate orderBy=[]
        mk([['list'], None, None, None, None, ['list']],
           [cr(0, [0, 0, 0]), cr(1, [0, 0, 0], ['obj', 1]), cr(2, [0, 0, 0])]),
    ]
    # seeded change c13_singlejoin_wrong_connection: the owner lives on an explicit connection / in a transaction
    single = [cr(0, [0, 0, 0]), cr(1, [0, 0, 0], ['obj', 1]), cr(1, [1, 1, 1], ['id', 1]),
              {'op': 'setfk', 'id': 1, 'fk': ['none']}, {'op': 'destroy', 'c': 1, 'id': 2}]
    # seeded change c13_relatedjoin_drops_id_zero: objects whose primary key is 0 (falsy) or negative, as owners and
    # as targets of every kind of join
    def low(a, b, p):
        return mk([['list', 'k0', '-k1'], 'id', '-k0', None, ['tuple', '-id'], 'k1'],
                  [cr(0, [0, 0, 0], None, a), cr(1, [1, 0, 0], ['obj', a], b), cr(1, [0, 1, 0], ['id', a]),
                   cr(2, [0, 0, 0], None, p), cr(2, [1, 1, 1]), cr(0, [1, 1, 1]),
                   {'op': 'add', 'j': 'rbs', 'via': 0, 'x': a, 'y': b}, {'op': 'add', 'j': 'ras', 'via': 1, 'x': b, 'y': 1},
                   {'op': 'add', 'j': 'ps', 'via': 0, 'x': a, 'y': p}, {'op': 'add', 'j': 'fr', 'via': 0, 'x': p, 'y': p},
                   {'op': 'add', 'j': 'of', 'via': 0, 'x': p, 'y': 1}, {'op': 'add', 'j': 'fr', 'via': 1, 'x': 1, 'y': p},
                   {'op': 'setkey', 'c': 1, 'id': b, 'col': 0, 'v': None}, {'op': 'setfk', 'id': b, 'fk': ['none']},
                   {'op': 'setfk', 'id': b, 'fk': ['id', a]}, {'op': 'remove', 'j': 'ras', 'via': 0, 'x': b, 'y': a},
                   {'op': 'destroy', 'c': 2, 'id': p}, {'op': 'destroy', 'c': 0, 'id': a}, cr(0, [2, 2, 2], None, a)])
    base += [low(0, 0, 0), low(-1, -2, -1)]
    out = list(base)
    out.append(dict(low(0, 0, 0), conn='other'))
    out.append(dict(low(-1, 0, 0), conn='txn'))
    for mode in ('other', 'txn'):
        out.append(dict(mk(none6, single), conn=mode))
        out.append(dict(base[0], conn=mode))
        out.append(dict(base[3], conn=mode))
    # ---- round 6: key forms, defaultOrder lists, ManyToMany / OneToMany
    add = lambda j, via, x, y: {'op': 'add', 'j': j, 'via': via, 'x': x, 'y': y}
    rem = lambda j, via, x, y: {'op': 'remove', 'j': j, 'via': via, 'x': x, 'y': y}
    # open finding sqlrelatedjoin_self_expr_orderby: an expression key on the self-referential query join
    out.append({'orders': [None, None, None, None, 'qd:k0', ['list', 'q:k1', '-id']], 'deford': [None] * 3,
                'ops': [cr(2, [1, 0, None]), cr(2, [1, 1, None]), cr(2, [None, 1, None]), add('fr', 0, 1, 2),
                        add('fr', 1, 1, 3), add('of', 0, 1, 1), add('fr', 2, 1, 1)]})
    # fixed finding onetomany_create_column_name_keyword (80b2179): regression case
    out.append({'orders': none6, 'deford': [None, ['list', '-k0', 'k1'], None],
                'ops': [cr(0, [0, 0, 0]), {'op': 'ocreate', 'x': 1, 'k': [1, 2, None]}, cr(1, [1, 2, None], ['obj', 1]),
                        {'op': 'ocreate', 'x': 5, 'k': [None, None, None]}]})
    # expression keys (DESC(Cls.q.k), Cls.q.k) next to names, ties and NULLs, on every non-self join; a tuple; a single DESC
    out.append({'orders': [['list', 'qd:k0', 'k1'], ['tuple', 'q:k0', 'qd:k1', '-id'], 'qd:k1', ['list', '-k0', 'q:id'],
                           ['list', '-k0', 'k1'], '-k1'], 'deford': [None] * 3,
                'ops': [cr(0, [1, None, None]), cr(1, [2, 1, None], ['obj', 1]), cr(1, [2, 3, None], ['id', 1]),
                        cr(1, [None, 5, None], ['obj', 1]), cr(1, [2, None, None], ['obj', 1]), cr(1, [1, 3, None], ['obj', 1]),
                        cr(0, [1, 2, None]), cr(0, [0, 2, None]), cr(2, [0, 1, None]), cr(2, [0, None, None]),
                        add('rbs', 0, 1, 3), add('ras', 1, 1, 1), add('rbs', 1, 1, 5), add('rbs', 0, 1, 2), add('rbs', 2, 1, 4),
                        add('ras', 0, 2, 2), add('ras', 2, 2, 3), add('ps', 0, 1, 2), add('ps', 1, 1, 1),
                        add('fr', 0, 1, 2), add('fr', 0, 1, 1)]})
    # defaultOrder lists on every class, joins declared without orderBy, SingleJoin picks by B's defaultOrder,
    # ManyToMany add/remove/create from both sides, duplicates, destroy, OneToMany
    out.append({'orders': [DEFAULT, DEFAULT, DEFAULT, DEFAULT, DEFAULT, 'k0'],
                'deford': [['list', '-k0', 'k1'], ['tuple', 'k1', '-k0'], '-k2'],
                'ops': [cr(0, [1, 1, 1]), cr(0, [1, 0, 1]), cr(1, [0, 1, 1], ['obj', 1]), cr(1, [2, 1, 1], ['id', 1]),
                        cr(1, [None, 0, 1], ['obj', 1]), cr(2, [0, 0, 2]), cr(2, [0, 0, None]),
                        add('rbs', 2, 1, 1), add('ras', 2, 2, 1), add('rbs', 2, 1, 1), add('ras', 2, 1, 2),
                        {'op': 'mcreate', 'j': 'rbs', 'x': 1, 'k': [2, 1, None]},
                        {'op': 'mcreate', 'j': 'ras', 'x': 4, 'k': [1, None, None]},
                        add('pas', 2, 1, 1), add('ps', 0, 2, 1), add('pas', 2, 2, 3),
                        {'op': 'mcreate', 'j': 'pas', 'x': 2, 'k': [5, 5, 5]},
                        {'op': 'mcreate', 'j': 'fr', 'x': 1, 'k': [None, 1, 0]}, add('fr', 2, 1, 1),
                        rem('rbs', 2, 1, 1), rem('pas', 2, 1, 1), rem('ras', 2, 2, 1),
                        {'op': 'mcreate', 'j': 'rbs', 'x': 9, 'k': [0, 0, 0]},
                        {'op': 'destroy', 'c': 1, 'id': 4}, {'op': 'destroy', 'c': 0, 'id': 4},
                        {'op': 'destroy', 'c': 2, 'id': 1}]})
    # seeded c13_dosort_reverses_order_list_in_place: a list ordering read twice
    out.append({'orders': [['list', '-k2', 'k0'], ['list', 'k1', '-k0'], None, None, None, None], 'deford': [None] * 3,
                'ops': [cr(0, [0, 0, 0]), cr(1, [1, 0, 0], ['obj', 1], 0), cr(1, [0, None, 0], ['obj', 1]),
                        cr(1, [0, 1, 1], ['obj', 1]), add('rbs', 0, 1, 0), add('rbs', 0, 1, 1), add('rbs', 2, 1, 2)]})
    exprcase = out[-3]
    for mode in ('other', 'txn'):
        out.append(dict(exprcase, conn=mode))
    # ManyToMany add/remove through an explicit connection (no create(): it goes to the classes' connection)
    m2m = [cr(0, [1, 1, 1]), cr(1, [0, 1, 1], ['obj', 1]), cr(1, [2, 1, 1], ['id', 1]), cr(2, [0, 0, 2]),
           add('rbs', 2, 1, 1), add('ras', 2, 2, 1), add('rbs', 2, 1, 1), add('pas', 2, 1, 1), add('fr', 2, 1, 1),
           rem('ras', 2, 1, 1), {'op': 'destroy', 'c': 1, 'id': 2}]
    for mode in ('other', 'txn'):
        out.append({'orders': [DEFAULT] * 6, 'deford': [['list', '-k0', 'k1'], ['tuple', 'k1', '-k0'], '-k2'],
                    'ops': m2m, 'conn': mode})
    return out


def generate(rng, tier):
    out = []
    n = 640 if tier == 'quick' else 6000
    for k in range(n):
        mode = CONN_MODES[(k // 3) % 5]             # independent of the k % 3 / k % 8 cycles
        c = rand_history(rng, rng.randint(5, 40), malformed=(k % 8 == 7), with_id=(k % 3 != 0), mode=mode)
        c['conn'] = mode
        out.append(c)
    return out


def search_cases(rng, tier):
    out = []
    for k in range(1500 if tier == 'quick' else 6000):
        mode = CONN_MODES[(k // 3) % 5]
        c = rand_history(rng, rng.randint(5, 40), malformed=(k % 8 == 7), with_id=(k % 3 != 0), maxobj=6, mode=mode)
        c['conn'] = mode
        out.append(c)
    return out


# ---------------------------------------------------------------- implementation side
def py_key(k, cls):
    """the Python value of a key; cls = the class the join returns (needed for the expression forms)"""
    if is_expr(k):
        from sqlobject.sqlbuilder import DESC
        f = getattr(cls.q, key_name(k).lstrip('-'))
        return DESC(f) if k.startswith('qd:') else f
    return k


def py_order(o, cls=None):
    if o is None:
        return None
    if isinstance(o, str):
        return py_key(o, cls)
    keys = [py_key(k, cls) for k in o[1:]]
    return keys if o[0] == 'list' else tuple(keys)


def order_has_expr(o):
    return o is not None and o != DEFAULT and any(is_expr(k) for k in ([o] if isinstance(o, str) else o[1:]))


_counter = [0]
_given = {}      # id(VA) -> (orderBy objects handed to the joins, identity snapshot of the list ones)


DECOY = [
    "INSERT INTO va (id, k0, k1, k2) VALUES (1, 0, 0, 0), (2, 1, 1, 1), (3, 2, 2, 2), (4, 0, 1, 2)",
    "INSERT INTO vb (id, k0, k1, k2, a_id) VALUES (101, 0, 0, 0, 1), (102, 1, 1, 1, 2), (103, 2, 2, 2, 3), "
    "(104, 0, 1, 2, 4), (105, 2, 1, 0, 1)",
    "INSERT INTO vp (id, k0, k1, k2) VALUES (101, 0, 0, 0), (102, 1, 1, 1), (1, 2, 2, 2), (2, 0, 1, 2)",
    "INSERT INTO lab (a_id, b_id) VALUES (1, 101), (2, 102), (3, 103), (4, 104), (1, 105), (101, 1), (102, 2)",
    "INSERT INTO lap (a_id, p_id) VALUES (1, 101), (2, 102), (3, 1), (4, 2)",
    "INSERT INTO lpp (from_id, to_id) VALUES (1, 101), (2, 102), (101, 1), (102, 2), (3, 101), (101, 3)",
]


class Ctx(object):
    """where a history runs: the classes, the connection the work goes through, and whether that
    connection is handed over explicitly (connection=...) or is the classes' own"""
    def __init__(self, K, work, explicit, closers):
        self.K, self.work, self.explicit, self.closers = K, work, explicit, closers

    def get(self, cls, i):
        return cls.get(i, connection=self.work) if self.explicit else cls.get(i)

    def new(self, cls, **kw):
        if self.explicit:
            kw['connection'] = self.work
        return cls(**kw)


def build_fixture(orders, mode='default', deford=None):
    """Three fresh classes in a private registry on a private in-memory database.
    mode 'default': the classes' own connection does the work.
    mode 'other':   the classes are bound to a database filled with decoy rows; the history runs on a second
                    database through an explicit connection=conn2.
    mode 'txn':     as 'other', through a Transaction of conn2 (nothing is committed).
    A join whose orderBy is DEFAULT is declared without orderBy (it takes the other class's
    sqlmeta.defaultOrder); joins whose orderBy holds expression keys (Cls.q.col) are installed with
    sqlmeta.addJoin once the classes exist, all others in the class body."""
    from sqlobject import SQLObject, IntCol, ForeignKey, MultipleJoin, SQLMultipleJoin, RelatedJoin, \
        SQLRelatedJoin, SingleJoin
    from sqlobject.joins import ManyToMany, OneToMany
    from sqlobject.sqlite.sqliteconnection import SQLiteConnection
    _counter[0] += 1
    reg = 'verif_c13_%d' % _counter[0]
    conn = SQLiteConnection(':memory:')
    deford = deford or [None, None, None]
    NAMES = ['VA', 'VB', 'VP']
    # (owner, attribute, constructor, other class, order index, keywords)
    specs = [(0, 'bs', MultipleJoin, 1, 0, dict(joinColumn='a_id')),
             (0, 'bsq', SQLMultipleJoin, 1, 0, dict(joinColumn='a_id'))]

    def rel(owner, other, n, attr, name, table, jc, oc, create):
        kw = dict(intermediateTable=table, joinColumn=jc, otherColumn=oc)
        specs.append((owner, attr, RelatedJoin, other, n, dict(kw, addRemoveName=name, createRelatedTable=create)))
        specs.append((owner, attr + 'q', SQLRelatedJoin, other, n,
                      dict(kw, addRemoveName=name + 'q', createRelatedTable=False)))
    rel(0, 1, 1, 'rbs', 'Rb', 'lab', 'a_id', 'b_id', True)
    rel(0, 2, 2, 'ps', 'Ps', 'lap', 'a_id', 'p_id', True)
    rel(1, 0, 3, 'ras', 'Ra', 'lab', 'b_id', 'a_id', False)
    rel(2, 2, 4, 'fr', 'Fr', 'lpp', 'from_id', 'to_id', True)
    rel(2, 2, 5, 'of', 'Of', 'lpp', 'to_id', 'from_id', False)
    body = [{}, {}, {}]
    late = []
    given = {}       # attribute -> the orderBy object handed to the join (to see that reads leave it alone)
    for owner, attr, ctor, other, n, kw in specs:
        o = orders[n]
        if order_has_expr(o):
            late.append((owner, attr, ctor, other, n, kw))
            continue
        if o != DEFAULT:
            kw = dict(kw, orderBy=py_order(o))
            given[(owner, attr)] = kw['orderBy']
        body[owner][attr] = ctor(NAMES[other], **kw)

    def meta(ci):
        class sqlmeta:
            registry = reg
            defaultOrder = py_order(deford[ci])
        return sqlmeta

    class VA(SQLObject):
        sqlmeta = meta(0)
        _connection = conn
        k0 = IntCol(default=None)
        k1 = IntCol(default=None)
        k2 = IntCol(default=None)
        one = SingleJoin('VB', joinColumn='a_id')
        locals().update(body[0])
        mbs = ManyToMany('VB', intermediateTable='lab', joinColumn='a_id', otherColumn='b_id', createJoinTable=False)
        obs = OneToMany('VB', joinColumn='a_id')

    class VB(SQLObject):
        sqlmeta = meta(1)
        _connection = conn
        k0 = IntCol(default=None)
        k1 = IntCol(default=None)
        k2 = IntCol(default=None)
        a = ForeignKey('VA', default=None, dbName='a_id')
        locals().update(body[1])
        mas = ManyToMany('VA', intermediateTable='lab', joinColumn='b_id', otherColumn='a_id', createJoinTable=False)

    class VP(SQLObject):
        sqlmeta = meta(2)
        _connection = conn
        k0 = IntCol(default=None)
        k1 = IntCol(default=None)
        k2 = IntCol(default=None)
        locals().update(body[2])
        mas = ManyToMany('VA', intermediateTable='lap', joinColumn='p_id', otherColumn='a_id', createJoinTable=False)
        mfr = ManyToMany('VP', intermediateTable='lpp', joinColumn='from_id', otherColumn='to_id',
                         createJoinTable=False)

    K = [VA, VB, VP]
    for owner, attr, ctor, other, n, kw in late:
        ob = py_order(orders[n], K[other])
        given[(owner, attr)] = ob
        K[owner].sqlmeta.addJoin(ctor(NAMES[other], joinMethodName=attr, orderBy=ob, **kw))
    _given[id(K[0])] = (given, {k: ([id(e) for e in v] if isinstance(v, list) else None) for k, v in given.items()})

    for c in K:
        c.createTable()
    if mode == 'default':
        return Ctx(K, conn, False, [conn])
    for q in DECOY:
        conn.query(q)
    conn2 = SQLiteConnection(':memory:')
    for c in K:
        c.createTable(connection=conn2)
    if mode == 'other':
        return Ctx(K, conn2, True, [conn2, conn])
    trans = conn2.transaction()

    class _Rollback(object):
        def close(self):
            trans.rollback()
    return Ctx(K, trans, True, [_Rollback(), conn2, conn])


def err_code(e):
    n = type(e).__name__
    if n == 'SQLObjectNotFound':
        return 1
    if n == 'RecursionError':
        return 2
    if n in ('OperationalError', 'ProgrammingError', 'DatabaseError'):
        return 3
    return 0


def do_op(X, op):
    K = X.K
    VA, VB, VP = K
    kind = op['op']

    def fk_kw(fk):
        if fk[0] == 'none':
            return {'a': None}
        if fk[0] == 'id':
            return {'aID': fk[1]}
        return {'a': X.get(VA, fk[1])}
    if kind == 'create':
        c = K[op['c']]
        kw = dict(zip(('k0', 'k1', 'k2'), op['k']))
        if op['c'] == 1:
            kw.update(fk_kw(op['fk']))
        if op['id'] is not None:
            kw['id'] = op['id']
        X.new(c, **kw)
    elif kind == 'setkey':
        setattr(X.get(K[op['c']], op['id']), 'k%d' % op['col'], op['v'])
    elif kind == 'setfk':
        b = X.get(VB, op['id'])
        for k, v in fk_kw(op['fk']).items():
            setattr(b, k, v)
    elif kind in ('add', 'remove'):
        j = JOINS[op['j']]
        x = X.get(K[j[2]], op['x'])
        y = X.get(K[j[3]], op['y'])
        if op['via'] == 2:
            getattr(getattr(x, M2M_ATTR[op['j']]), kind)(y)        # ManyToMany wrapper .add / .remove
        else:
            getattr(x, kind + j[4][op['via']])(y)
    elif kind == 'mcreate':
        j = JOINS[op['j']]
        x = X.get(K[j[2]], op['x'])
        getattr(x, M2M_ATTR[op['j']]).create(**dict(zip(('k0', 'k1', 'k2'), op['k'])))
    elif kind == 'ocreate':
        X.get(VA, op['x']).obs.create(**dict(zip(('k0', 'k1', 'k2'), op['k'])))
    elif kind == 'destroy':
        X.get(K[op['c']], op['id']).destroySelf()
    else:
        raise ValueError(kind)


def observe(X):
    conn, K = X.work, X.K
    VA, VB, VP = K
    wrong = []      # objects handed out that are not bound to the connection the history runs on
    tabs = [
        [[r[0], [r[1], r[2], r[3], None]] for r in conn.queryAll('SELECT id, k0, k1, k2 FROM va ORDER BY id')],
        [[r[0], [r[1], r[2], r[3], r[4]]] for r in conn.queryAll('SELECT id, k0, k1, k2, a_id FROM vb ORDER BY id')],
        [[r[0], [r[1], r[2], r[3], None]] for r in conn.queryAll('SELECT id, k0, k1, k2 FROM vp ORDER BY id')],
    ]
    links = [
        [list(r) for r in conn.queryAll('SELECT a_id, b_id FROM lab ORDER BY rowid')],
        [list(r) for r in conn.queryAll('SELECT a_id, p_id FROM lap ORDER BY rowid')],
        [list(r) for r in conn.queryAll('SELECT from_id, to_id FROM lpp ORDER BY rowid')],
    ]
    acc = []
    keys = {}       # attribute values of the objects as Python sees them: (class, id) -> [id, k0, k1, k2]
    reread = []     # list accessors whose second read differs from the first
    for ci, (cls, rng_) in enumerate(zip((VA, VB, VP), READ_ORDER)):
        for row in tabs[ci]:
            obj = X.get(cls, row[0])
            keys['%d:%d' % (ci, row[0])] = [obj.id, obj.k0, obj.k1, obj.k2]
            for n in rng_:
                try:
                    v = getattr(obj, ACC[n])
                    if n == 2:
                        res = ['none'] if v is None else ['one', v.id]
                        got = [] if v is None else [v]
                    elif n in SEL_ACC:
                        # the select wrapper has no connection of its own: away from the classes' connection
                        # it is pointed at the one the history runs on
                        sel = v.connection(conn) if X.explicit else v
                        got = list(sel)
                        res = ['sel', [x.id for x in got], sel.count()]
                    else:
                        got = list(v)
                        res = ['ids', [x.id for x in got]]
                        if n in LIST_ACC:
                            again = [x.id for x in getattr(obj, ACC[n])]
                            if again != res[1]:
                                reread.append([n, row[0], res[1], again])
                    if X.explicit and any(x._connection is not conn for x in got):
                        wrong.append([n, row[0]])
                except RecursionError as e:
                    res = ['err', 2, 'RecursionError']
                except Exception as e:
                    res = ['err', err_code(e), type(e).__name__]
                acc.append([n, row[0], res])
    given, snap = _given[id(VA)]
    mutated = [list(k) for k, v in given.items() if snap[k] is not None and [id(e) for e in v] != snap[k]]
    return {'tabs': tabs, 'links': links, 'acc': acc, 'attrs': keys, 'wrongconn': wrong, 'reread': reread,
            'mutated': mutated}


def run_case(case):
    X = build_fixture(case['orders'], case.get('conn', 'default'), case.get('deford'))
    steps = []
    try:
        for op in case['ops']:
            st, exn = 0, None
            try:
                do_op(X, op)
            except Exception as e:
                n = type(e).__name__
                st = {'SQLObjectNotFound': 1, 'DuplicateEntryError': 2, 'TypeError': 4}.get(n, 9)
                exn = n
            o = observe(X)
            o['status'] = st
            if exn:
                o['exn'] = exn
            steps.append(o)
    finally:
        for c in X.closers:
            try:
                c.close()
            except Exception:
                pass
    return {'steps': steps}


def run_impl(cases):
    import sys
    sys.setrecursionlimit(400)          # orderBy=[] recurses until the limit: keep that cheap
    out = []
    for c in cases:
        try:
            out.append(run_case(c))
        except Exception as e:
            out.append({'crash': '%s: %s' % (type(e).__name__, e)})
    return out


# ---------------------------------------------------------------- Coq side
def z(n):
    return '(%d)' % n if n < 0 else '%d' % n


def oz(v):
    return 'Nn' if v is None else '(Sm %s)' % z(v)


def coq_key(k):
    nm = key_name(k)
    desc = nm.startswith('-')
    name = nm[1:] if desc else nm
    col = 'CId' if name == 'id' else '(CK K%s)' % name[1]
    return '(%s %s)' % (('Qd' if desc else 'Qa') if is_expr(k) else ('Kd' if desc else 'Ka'), col)


def coq_order(o):
    if o is None:
        return 'ONone'
    if isinstance(o, str):
        return '(OOne %s)' % coq_key(o)
    return '(OList [%s])' % '; '.join(coq_key(k) for k in o[1:])


def coq_jorder(o):
    return 'JDefault' if o == DEFAULT else '(JGiven %s)' % coq_order(o)


def coq_fk(fk):
    return {'none': 'FkNone', 'id': '(FkId %s)', 'obj': '(FkObj %s)'}[fk[0]] % (() if fk[0] == 'none' else (z(fk[1]),))


def coq_join(name):
    j = JOINS[name]
    return '{| j_link := %s; j_side := %s |}' % (['LAB', 'LAP', 'LPP'][j[0]], ['First', 'Second'][j[1]])


def coq_op(op):
    k = op['op']
    C = lambda c: ['CA', 'CB', 'CP'][c]
    if k == 'create':
        return '(Create %s %s %s %s %s %s)' % (C(op['c']), oz(op['id']), oz(op['k'][0]), oz(op['k'][1]), oz(op['k'][2]),
                                               coq_fk(op['fk'] if op['c'] == 1 else ['none']))
    if k == 'setkey':
        return '(SetKey %s %s K%d %s)' % (C(op['c']), z(op['id']), op['col'], oz(op['v']))
    if k == 'setfk':
        return '(SetFk %s %s)' % (z(op['id']), coq_fk(op['fk']))
    if k == 'add':
        return '(%s %s %s %s)' % ('MAdd' if op['via'] == 2 else 'Add', coq_join(op['j']), z(op['x']), z(op['y']))
    if k == 'remove':
        return '(%s %s %s %s)' % ('MRemove' if op['via'] == 2 else 'Remove', coq_join(op['j']), z(op['x']), z(op['y']))
    if k == 'mcreate':
        return '(MCreate %s %s %s %s %s)' % (coq_join(op['j']), z(op['x']), oz(op['k'][0]), oz(op['k'][1]), oz(op['k'][2]))
    if k == 'ocreate':
        return '(OCreate %s %s %s %s)' % (z(op['x']), oz(op['k'][0]), oz(op['k'][1]), oz(op['k'][2]))
    return '(Destroy %s %s)' % (C(op['c']), z(op['id']))


def coq_acc(a):
    n, i, r = a
    if r[0] == 'ids':
        t = '(OIds [%s])' % ';'.join(z(x) for x in r[1])
    elif r[0] == 'sel':
        t = '(OSel [%s] %d)' % (';'.join(z(x) for x in r[1]), r[2])
    elif r[0] == 'none':
        t = 'ONoneV'
    elif r[0] == 'one':
        t = '(OOneV %s)' % z(r[1])
    else:
        t = '(OErr %d)' % r[1]
    return '(%d,%s,%s)' % (n, z(i), t)


def coq_tab(t):
    return '[%s]' % ';'.join('(%s,[%s])' % (z(r[0]), ';'.join(oz(v) for v in r[1])) for r in t)


def coq_link(t):
    return '[%s]' % ';'.join('(%s,%s)' % (z(a), z(b)) for a, b in t)


def coq_step(s, prev):
    """difference encoding: unchanged tables are Nn, unchanged accessor reads are left out"""
    ptabs = prev['tabs'] if prev else [[], [], []]
    plinks = prev['links'] if prev else [[], [], []]
    pacc = {(n, i): r for n, i, r in prev['acc']} if prev else {}
    tabs = '[%s]' % ';'.join('Nn' if t == p else '(Sm %s)' % coq_tab(t) for t, p in zip(s['tabs'], ptabs))
    links = '[%s]' % ';'.join('Nn' if t == p else '(Sm %s)' % coq_link(t) for t, p in zip(s['links'], plinks))
    acc = ';'.join(coq_acc(a) for a in s['acc'] if pacc.get((a[0], a[1])) != a[2])
    return '(Bs %d %s %s [%s])' % (s['status'], tabs, links, acc)


def coq_case(c, o):
    steps = o['steps']
    return '{| c_def := [%s]; c_ord := [%s]; c_ops := [%s]; c_obs := [%s] |}' % (
        '; '.join(coq_order(x) for x in c.get('deford') or [None] * 3),
        '; '.join(coq_jorder(x) for x in c['orders']),
        '; '.join(coq_op(x) for x in c['ops']),
        ';\n '.join(coq_step(s, steps[k - 1] if k else None) for k, s in enumerate(steps)))


# ---------------------------------------------------------------- oracle (the property itself, on the implementation)
def key_tuple(keys, attrs):
    """sort position of an object under the declared keys (as names); None lowest; '-' reverses"""
    out = []
    for k in keys:
        desc = k.startswith('-')
        v = attrs[COLS.index(k.lstrip('-'))]
        t = (0, 0) if v is None else (1, v)
        out.append((desc, t))
    return out


def le_keys(ka, kb):
    for (d, a), (_, b) in zip(ka, kb):
        if a == b:
            continue
        return (a > b) if d else (a < b)
    return True


def order_names(o):
    """the keys of an orderBy as names ('k0' / '-k0'), however they were written"""
    if o is None:
        return []
    if isinstance(o, str):
        return [key_name(o)]
    return [key_name(k) for k in o[1:]]


def eff_order(case, n):
    """the ordering accessor n works with: its join's orderBy, or -- join declared without one, SingleJoin,
    ManyToMany/OneToMany selects -- the defaultOrder of the class it returns"""
    deford = case.get('deford') or [None] * 3
    if n == 2 or n in SEL_ACC:
        return deford[ACC_TARGET[n]]
    o = case['orders'][ACC_ORD[n]]
    return deford[ACC_TARGET[n]] if o == DEFAULT else o


def known_trigger(case, f):
    """id of the open finding whose trigger class the failure f falls into, else None"""
    if f.get('kind') == 'error' and f.get('accessor') in ('frq', 'ofq') and f.get('error') == 'OperationalError' \
            and order_has_expr(f.get('orderBy')):
        return 'sqlrelatedjoin_self_expr_orderby'
    # onetomany_create_column_name_keyword is fixed (80b2179) and suppresses nothing
    return None


def failures(case, obs):
    """every way in which the observation contradicts the property, in step order"""
    # what the history says the relation is: a link is there once per add since the last remove of that
    # pair, until one of its ends is destroyed; a foreign key is what was last assigned
    LCLS = ((0, 1), (0, 2), (2, 2))
    want_links = [[], [], []]
    want_fk = {}
    prev_b = set()
    prev_live = [set(), set(), set()]
    for si, s in enumerate(obs['steps']):
        op = case['ops'][si]
        if s['status'] in (4, 9):
            yield {'step': si, 'what': 'operation %s raised %s' % (json.dumps(op), s.get('exn')), 'kind': 'op-error',
                   'op': op['op'], 'exn': s.get('exn')}
        tabs, links = s['tabs'], s['links']
        live = [set(r[0] for r in t) for t in tabs]
        fk = {r[0]: r[1][3] for r in tabs[1]}
        for n, i, a1, a2 in s.get('reread', []):
            yield {'step': si, 'kind': 'reread', 'accessor': ACC[n], 'owner': i,
                   'what': 'accessor %s of %d read twice in a row gave %r, then %r' % (ACC[n], i, a1, a2)}
        for owner, attr in s.get('mutated', []):
            yield {'step': si, 'kind': 'orderby-mutated', 'accessor': attr,
                   'what': 'reading the accessors changed the orderBy list given to join %s' % attr}
        if s['status'] == 0:
            if op['op'] == 'mcreate':
                j = JOINS[op['j']]
                new = sorted(live[j[3]] - prev_live[j[3]])
                if len(new) != 1:
                    yield {'step': si, 'kind': 'relation', 'what': 'create() through the ManyToMany made %r' % new}
                for i in new:
                    want_links[j[0]].append([op['x'], i] if j[1] == 0 else [i, op['x']])
                    if j[3] == 1:
                        want_fk[i] = None
            if op['op'] == 'ocreate':
                new = sorted(live[1] - prev_live[1])
                if len(new) != 1:
                    yield {'step': si, 'kind': 'relation', 'what': 'create() through the OneToMany made %r' % new}
                for i in new:
                    want_fk[i] = op['x']
            if op['op'] == 'create' and op['c'] == 1:
                for i in live[1] - prev_b:
                    want_fk[i] = None if op['fk'][0] == 'none' else op['fk'][1]
            elif op['op'] == 'setfk':
                want_fk[op['id']] = None if op['fk'][0] == 'none' else op['fk'][1]
            elif op['op'] in ('add', 'remove'):
                j = JOINS[op['j']]
                pair = [op['x'], op['y']] if j[1] == 0 else [op['y'], op['x']]
                if op['op'] == 'add':
                    want_links[j[0]].append(pair)
                else:
                    want_links[j[0]] = [p for p in want_links[j[0]] if p != pair]
            elif op['op'] == 'destroy':
                for li in range(3):
                    want_links[li] = [p for p in want_links[li]
                                      if not any(LCLS[li][k] == op['c'] and p[k] == op['id'] for k in (0, 1))]
                if op['c'] == 1:
                    want_fk.pop(op['id'], None)
        prev_b = live[1]
        prev_live = live
        for li in range(3):
            if sorted(links[li]) != sorted(want_links[li]):
                yield {'step': si, 'kind': 'relation', 'what': 'after %s link table %d holds %r; the adds and removes so far '
                       'leave %r' % (json.dumps(op), li, links[li], want_links[li])}
                want_links[li] = [list(p) for p in links[li]]      # report each divergence once
        if fk != want_fk:
            yield {'step': si, 'kind': 'relation', 'what': 'after %s the foreign keys are %r; assigned were %r' % (
                json.dumps(op), fk, want_fk)}
            want_fk = dict(fk)
        # link rows only mention existing objects
        for li, (c1, c2) in enumerate(((0, 1), (0, 2), (2, 2))):
            for a, b in links[li]:
                if a not in live[c1] or b not in live[c2]:
                    yield {'step': si, 'kind': 'dangling-link', 'what': 'link table %d row %r mentions a missing object' % (li, [a, b])}
        res = {(n, i): r for n, i, r in s['acc']}
        for n, i in s.get('wrongconn', []):
            yield {'step': si, 'kind': 'connection', 'accessor': ACC[n], 'owner': i,
                   'what': 'accessor %s of %d handed out an object that is not bound to the owner\'s connection' % (ACC[n], i)}
        for ci in range(3):
            for i in live[ci]:
                for n in range(NACC):
                    if ACC_OWNER[n] == ci and (n, i) not in res:
                        yield {'step': si, 'kind': 'harness', 'what': 'accessor %s of %s %d not read' % (ACC[n], CLS[ci], i)}
        for (n, i), r in sorted(res.items()):
            eo = eff_order(case, n)
            names = order_names(eo)
            valid_order = not (isinstance(eo, list) and not names)
            where = {'step': si, 'accessor': ACC[n], 'owner': i, 'orderBy': eo}
            if n == 2:
                refs = sorted(b for b, f in fk.items() if f == i)
                if r[0] == 'err':
                    yield dict(where, kind='error', what='SingleJoin raised %s' % r[2])
                    continue
                if (r[0] == 'none') != (not refs):
                    yield dict(where, kind='single', what='SingleJoin gave %r, referencing rows %r' % (r, refs))
                if r[0] == 'one' and r[1] not in refs:
                    yield dict(where, kind='single', what='SingleJoin gave %r, referencing rows %r' % (r, refs))
                elif r[0] == 'one':
                    # class B's defaultOrder orders the select: the row handed out is a first one
                    mine = key_tuple(names, s['attrs']['1:%d' % r[1]])
                    if not all(le_keys(mine, key_tuple(names, s['attrs']['1:%d' % b])) for b in refs):
                        yield dict(where, kind='single', what='SingleJoin gave %r, not a first row under %r among %r' % (
                            r, names, refs))
                continue
            if r[0] == 'err':
                if not valid_order:
                    continue            # orderBy=[] is not an ordering; nothing is promised
                yield dict(where, kind='error', error=r[2], what='accessor raised %s' % r[2])
                continue
            got = r[1]
            if n in SEL_ACC and r[2] != len(got):
                yield dict(where, kind='count', what='.count() is %r, the iteration gives %d objects' % (r[2], len(got)))
            if n in (0, 1, 14):
                want = sorted(b for b, f in fk.items() if f == i)
            else:
                li, mine, theirs = ACC_LINK[n]
                want = sorted(row[theirs] for row in links[li] if row[mine] == i)
            if sorted(got) != want:
                yield dict(where, kind='mirror', what='accessor returned ids %r, the stored relation has %r' % (got, want))
                continue
            # ordering, judged on the attribute values the program sees
            t = ACC_TARGET[n]
            ks = [key_tuple(names, s['attrs']['%d:%d' % (t, x)]) for x in got]
            for a in range(len(ks) - 1):
                if not le_keys(ks[a], ks[a + 1]):
                    yield dict(where, kind='order', what='result %r is not ordered by %r (keys %r)' % (
                        got, names, [s['attrs']['%d:%d' % (t, x)] for x in got]))
        # symmetry of the many-to-many joins declared on both sides
        for na, nb in ((3, 7), (9, 11), (13, 15)):
            for (n, i), r in res.items():
                if n != na or r[0] not in ('ids', 'sel'):
                    continue
                for (m, j), q in res.items():
                    if m != nb or q[0] not in ('ids', 'sel'):
                        continue
                    if r[1].count(j) != q[1].count(i):
                        yield {'step': si, 'kind': 'symmetry',
                                'what': '%s of %d holds %d %d time(s), %s of %d holds %d %d time(s)' % (
                                    ACC[na], i, j, r[1].count(j), ACC[nb], j, i, q[1].count(i))}
        # list flavour and query flavour
        for nl, nq in ((0, 1), (3, 4), (5, 6), (7, 8), (9, 10), (11, 12)):
            for (n, i), r in res.items():
                if n != nl:
                    continue
                q = res[(nq, i)]
                if r[0] != 'ids' or q[0] != 'ids':
                    continue
                if sorted(r[1]) != sorted(q[1]):
                    yield {'step': si, 'kind': 'flavours', 'what': '%s=%r but %s=%r' % (ACC[nl], r[1], ACC[nq], q[1])}
                    continue
                if any('%d:%d' % (ACC_TARGET[nl], x) not in s['attrs'] for x in r[1]):
                    continue
                names = order_names(eff_order(case, nl))
                t = ACC_TARGET[nl]
                kts = [tuple(key_tuple(names, s['attrs']['%d:%d' % (t, x)])) for x in set(r[1])]
                if names and len(set(kts)) == len(kts) and r[1] != q[1]:
                    yield {'step': si, 'kind': 'flavours', 'owner': i,
                            'what': 'the ordering is total, yet %s=%r and %s=%r' % (ACC[nl], r[1], ACC[nq], q[1])}


def oracle(case, obs):
    """the first way in which the observation contradicts the property; a failure that falls into the trigger
    class of an open finding is reported only when nothing else in the case fails"""
    known = None
    for f in failures(case, obs):
        if known_trigger(case, f) is None:
            return f
        known = known or f
    return known


def classify(case, obs, f):
    # sqlrelatedjoin_orderby_id_ambiguous is fixed (16e77ff) and suppresses nothing
    return known_trigger(case, f)


def nontrivial(case, obs):
    big = tie = refused = False
    for s in obs['steps']:
        if s['status'] != 0:
            refused = True
        for n, i, r in s['acc']:
            if r[0] == 'ids' and len(r[1]) >= 2:
                big = True
                if n in LIST_ACC:
                    names = order_names(eff_order(case, n))
                    t = ACC_TARGET[n]
                    vals = [tuple(s['attrs']['%d:%d' % (t, x)][COLS.index(k.lstrip('-'))] for k in names) for x in r[1]]
                    if names and (len(set(vals)) < len(vals) or any(None in v for v in vals)):
                        tie = True
    return (big and tie) or refused


def key(case):
    return [case['orders'], case.get('deford'), case['ops'], case.get('conn', 'default')]


def distribution(cases, obs):
    d = {'ops': {}, 'refused': {}, 'orders': {'none': 0, 'single': 0, 'list1': 0, 'list2': 0, 'list3': 0, 'empty': 0, 'with_id': 0},
         'lengths': {}, 'accessor_reads': 0, 'reads_with_2plus': 0, 'accessor_errors': {}, 'max_objects': 0,
         'duplicate_links_seen': 0, 'dangling_fk_seen': 0, 'connection_mode': {}}
    for c, o in zip(cases, obs):
        m = c.get('conn', 'default')
        d['connection_mode'][m] = d['connection_mode'].get(m, 0) + 1
        for x in c['orders'] + [y for y in (c.get('deford') or []) if y is not None]:
            if x == DEFAULT:
                d['orders']['inherited'] = d['orders'].get('inherited', 0) + 1
                continue
            if x is None:
                d['orders']['none'] += 1
            elif isinstance(x, str):
                d['orders']['single'] += 1
            else:
                d['orders']['list%d' % (len(x) - 1) if len(x) > 1 else 'empty'] += 1
            if any(k.lstrip('-') == 'id' for k in order_names(x)):
                d['orders']['with_id'] += 1
            if order_has_expr(x):
                d['orders']['with_expr_key'] = d['orders'].get('with_expr_key', 0) + 1
        if any(y is not None for y in (c.get('deford') or [])):
            d['orders']['cases_with_defaultOrder'] = d['orders'].get('cases_with_defaultOrder', 0) + 1
        b = str(len(c['ops']) // 10 * 10)
        d['lengths'][b] = d['lengths'].get(b, 0) + 1
        if not isinstance(o, dict) or 'steps' not in o:
            continue
        for op, s in zip(c['ops'], o['steps']):
            d['ops'][op['op']] = d['ops'].get(op['op'], 0) + 1
            if op.get('via') == 2:
                d['ops']['%s_via_manytomany' % op['op']] = d['ops'].get('%s_via_manytomany' % op['op'], 0) + 1
            if s['status']:
                k = '%s:%s' % (op['op'], s.get('exn'))
                d['refused'][k] = d['refused'].get(k, 0) + 1
            d['accessor_reads'] += len(s['acc'])
            d['max_objects'] = max(d['max_objects'], sum(len(t) for t in s['tabs']))
            for n, i, r in s['acc']:
                if r[0] == 'ids' and len(r[1]) >= 2:
                    d['reads_with_2plus'] += 1
                if r[0] == 'err':
                    d['accessor_errors'][r[2]] = d['accessor_errors'].get(r[2], 0) + 1
            if any(len(set(map(tuple, t))) < len(t) for t in s['links']):
                d['duplicate_links_seen'] += 1
            ida = set(r[0] for r in s['tabs'][0])
            if any(r[1][3] is not None and r[1][3] not in ida for r in s['tabs'][1]):
                d['dangling_fk_seen'] += 1
    return d


def explain(case, obs):
    f = oracle(case, obs)
    return 'orders %s; %d ops; oracle says %s' % (json.dumps(case['orders']), len(case['ops']), json.dumps(f))
