"""C01 -- stored values read back unchanged for every column type and write path."""
import math
import struct

PROP = 'C01'
PROPS_VO = 'Props/C01.vo'
CORR_VO = 'Corr/C01.vo'
GENERATORS = {'Columns': 'tools.py2coq.gen_columns'}
SOURCES = ['sqlobject/col.py', 'sqlobject/converters.py', 'sqlobject/main.py', 'sqlobject/dbconnection.py',
           'sqlobject/sqlbuilder.py', 'sqlobject/sqlite/sqliteconnection.py']
COQ_HEADER = '''From Coq Require Import List NArith ZArith Bool. Import ListNotations. Open Scope N_scope.
From Lib Require Import Str Lex CorrLib. From Gen Require Import Columns. From Model Require Import Columns.
From Corr Require Import C01.'''
COQ_CASE_TYPE = 'case'
COQ_AGREE = 'agree'
COQ_SHARD = 150
REPLAY_KIND = 'input'
EXHAUSTIVE = {'quick': False, 'thorough': False}
RULE = ('a fixture class with one column per column type (String, String(length), Unicode, Int/TinyInt/SmallInt/MediumInt/BigInt, '
        'Bool, Float, DateTime, Date, Time, Timestamp, Decimal(10,3), Decimal(20,2), Currency, DecimalString, DecimalString(quantize), '
        'Enum, BLOB, Pickle, Uuid, JSON, ForeignKey to an int-keyed and to a string-keyed class) in three variants (eager, cacheValues=False, '
        'lazyUpdate) and two class shapes (one plain class; the same columns split over a plain base class and a plain subclass, instances of '
        'the subclass) on sqlite :memory:; '
        'per column type a boundary-heavy in-domain stream (quotes, backslashes, %, empty, astral characters, int64 ends, year 1/9999, '
        'microseconds, leap days, trailing zeros, -0.0, subnormals, random-bit doubles, empty/high/NUL bytes, long strings, nested json) '
        'and an out-of-domain stream (every other Python value kind for every column, NUL/surrogates, ints beyond int64, inf/nan, '
        'tz-aware times, decimals beyond the declared precision, non-members, strings for date/decimal columns, malformed strings, '
        'timedeltas negative / zero / under a day / a day and more for the TimeCol, and one or two values of EVERY modelled Python type '
        'offered to EVERY column); '
        'each value written through create / attribute assignment / set() (followed by syncUpdate() on the lazy variant) and read from '
        'the writer, after a select refreshed the writer, after expire(), from a fresh get() and from a fresh select row, plus the raw '
        'stored value + typeof() and select(col == v) / selectBy(col=v). Non-trivial = the value is not None and the stored text/number '
        'differs from a plain copy of the input (escaping, formatting, affinity conversion) or the write is refused; distinct = distinct '
        '(column, value, write path, variant, class shape).  The corpus holds the witnesses of open and fixed findings and of the filed seeds '
        '(numeric-looking string ids, falsy values of every converting column type), each through all nine write path x variant pairs.')
EXPLANATION = ('Theorems C01_* (Coq, all strings / ints / dates / decimals / byte strings / trees, every write and read path) over a model '
               'of validators, converters, the sqlite literal rules, column affinity and the driver, with format tables REGENERATED from '
               'converters.py/col.py on this run; correspondence: the model evaluated by vm_compute predicts the exception class, the '
               'writer\'s cached value, the raw stored value and storage class, and what every database read returns, for every case; '
               'oracle: read == written with the same type on every read path and the equality query finds the row (in-domain), '
               'rejected or identical on every read path (out-of-domain), equal to the documented normalisation where one exists '
               '(date/time crossings, bool/int/float/Decimal/str crossings that preserve the value) and refused where none exists '
               '(a negative or day-long timedelta in a TimeCol).')
TRUSTED_BASE = [
    'Coq 8.16.1 kernel + vm_compute (examples, correspondence); no native_compute',
    'tools/py2coq/gen_columns.py (extraction of the converter format strings, strptime formats and sqlite column types)',
    'stdlib / engine codecs (record `codecs` of Model/Columns.v) enter the theorems as named per-value hypotheses (codec_law: base64, pickle, '
    'json, uuid round trips; engine_exact / engine_roundtrip: the ORACLE "sqlite stores, reloads and compares this number without loss" for '
    'Float/Decimal/Currency columns and integers beyond int64) and the correspondence as per-case tables computed with the stdlib and a raw '
    'sqlite3 connection, never through SQLObject: repr(float), sqlite storing a numeric literal that is not a plain int64 integer '
    '(text->double, REAL<->INTEGER affinity conversion), float(Decimal), base64, pickle, json.dumps/loads, str(UUID)/UUID(str)',
    'Model/Columns.v reference semantics validated only by the correspondence: sqlite string/integer literal rules and type affinity, '
    'what sqlite3 with text_factory=str returns, datetime.strptime for the three formats used, Decimal(str)/to_eng_string/quantize/int(), '
    'isinstance/hasattr dispatch of the Python value kinds modelled (None, bool, int, float, str, bytes, date, time, datetime, timedelta, '
    'Decimal (finite), UUID, list, tuple, dict, SQLObject instance)',
    'only sqlite is executed; only the datetime implementation of the date columns (mxDateTime / Zope DateTime are not installed)',
    'write paths are modelled by effect (order of from_python / to_python / statement / caching transcribed from main.py); cache and '
    'identity-map behaviour beyond one object is C04/C05, failed-write atomicity is C06',
    'the correspondence harness tools/props/c01.py and the cases.v evaluation',
]

INT64 = (-2 ** 63, 2 ** 63 - 1)


# ---------------------------------------------------------------- Python values <-> JSON
def fbits(f):
    return struct.unpack('<Q', struct.pack('<d', f))[0]


def bits_f(b):
    return struct.unpack('<d', struct.pack('<Q', b))[0]


def enc(x):
    """structural, type-exact encoding of a Python value"""
    import datetime
    import decimal
    import uuid
    if x is None:
        return ['none']
    if isinstance(x, bool):
        return ['bool', 1 if x else 0]
    if type(x) is int:
        return ['int', str(x)]
    if type(x) is float:
        return ['float', str(fbits(x))]
    if type(x) is str:
        return ['str', [ord(c) for c in x]]
    if type(x) is bytes:
        return ['bytes', list(x)]
    if type(x) is datetime.datetime:
        return ['datetime', x.year, x.month, x.day, x.hour, x.minute, x.second, x.microsecond, tzflag(x.tzinfo)]
    if type(x) is datetime.date:
        return ['date', x.year, x.month, x.day]
    if type(x) is datetime.time:
        return ['time', x.hour, x.minute, x.second, x.microsecond, tzflag(x.tzinfo)]
    if type(x) is datetime.timedelta:
        return ['delta', x.days, x.seconds, x.microseconds]
    if type(x) is decimal.Decimal:
        sign, digits, exp = x.as_tuple()
        if not isinstance(exp, int):
            return ['decs', sign, 1 if exp in ('n', 'N') else 0] if exp != 'N' else ['other', 'sNaN']
        return ['dec', sign, list(digits), exp]
    if type(x) is uuid.UUID:
        return ['uuid', str(x.int)]
    if type(x) is list:
        return ['list', [enc(y) for y in x]]
    if type(x) is tuple:
        return ['tuple', [enc(y) for y in x]]
    if type(x) is dict:
        return ['dict', [[enc(k), enc(v)] for k, v in x.items()]]
    if hasattr(x, 'sqlmeta') and hasattr(x, 'id'):
        return ['obj', x.id] if isinstance(x.id, int) else ['objs', [ord(c) for c in x.id]]
    return ['other', type(x).__name__]


def tzflag(tz):
    return 0 if tz is None else 1


def dec(v, other=None):
    """inverse of enc; ['obj', id] needs the class of the referenced rows"""
    import datetime
    import decimal
    import uuid
    k = v[0]
    if k == 'none':
        return None
    if k == 'bool':
        return bool(v[1])
    if k == 'int':
        return int(v[1])
    if k == 'float':
        return bits_f(int(v[1]))
    if k == 'str':
        return ''.join(chr(c) for c in v[1])
    if k == 'bytes':
        return bytes(v[1])
    if k == 'datetime':
        return datetime.datetime(*v[1:8], tzinfo=datetime.timezone.utc if v[8] else None)
    if k == 'date':
        return datetime.date(*v[1:4])
    if k == 'time':
        return datetime.time(*v[1:5], tzinfo=datetime.timezone.utc if v[5] else None)
    if k == 'delta':
        return datetime.timedelta(days=v[1], seconds=v[2], microseconds=v[3])
    if k == 'dec':
        return decimal.Decimal((v[1], tuple(v[2]), v[3]))
    if k == 'uuid':
        return uuid.UUID(int=int(v[1]))
    if k == 'decs':
        return decimal.Decimal(('-' if v[1] else '') + ('NaN' if v[2] else 'Infinity'))
    if k == 'list':
        return [dec(y, other) for y in v[1]]
    if k == 'tuple':
        return tuple(dec(y, other) for y in v[1])
    if k == 'dict':
        return {dec(a, other): dec(b, other) for a, b in v[1]}
    if k == 'obj':
        return other['obj'].get(v[1]) if other is not None else ('obj', v[1])
    if k == 'objs':
        sid = ''.join(chr(c) for c in v[1])
        return other['objs'].get(sid) if other is not None else ('objs', sid)
    raise ValueError('cannot decode %r' % (v,))


# ---------------------------------------------------------------- the fixture
# column name -> (constructor name, kwargs); every column has default None so that one column can be written at a time
ENUM_VALUES = ['a', 'b', "it's", '', 'ü%_']
COLUMNS = [
    ('s', 'StringCol', {}),
    ('sl', 'StringCol', {'length': 5}),
    ('u', 'UnicodeCol', {}),
    ('i', 'IntCol', {}),
    ('ti', 'TinyIntCol', {}),
    ('si', 'SmallIntCol', {}),
    ('mi', 'MediumIntCol', {}),
    ('bi', 'BigIntCol', {}),
    ('b', 'BoolCol', {}),
    ('f', 'FloatCol', {}),
    ('dt', 'DateTimeCol', {}),
    ('d', 'DateCol', {}),
    ('t', 'TimeCol', {}),
    ('ts', 'TimestampCol', {}),
    ('dec', 'DecimalCol', {'size': 10, 'precision': 3}),
    ('dec20', 'DecimalCol', {'size': 20, 'precision': 2}),
    ('cur', 'CurrencyCol', {}),
    ('ds', 'DecimalStringCol', {'size': 6, 'precision': 2}),
    ('dsq', 'DecimalStringCol', {'size': 6, 'precision': 2, 'quantize': True}),
    ('e', 'EnumCol', {'enumValues': ENUM_VALUES}),
    ('bl', 'BLOBCol', {}),
    ('p', 'PickleCol', {}),
    ('uu', 'UuidCol', {}),
    ('js', 'JSONCol', {}),
    ('fk', 'ForeignKey', {}),
    ('fks', 'ForeignKey', {'to': 'S'}),          # to a class with sqlmeta.idType = str
]
COLNAMES = [c[0] for c in COLUMNS]
VARIANTS = ['E', 'N', 'L']          # eager, cacheValues=False, lazyUpdate
WPATHS = ['create', 'setattr', 'set']
N_OTHER = 3                         # rows of the referenced class (ids 1..3)
STR_IDS = ['007', '42', '1.50', 'abc', ' 7', '1e3', '-0', 'x y']     # ids of the string-keyed referenced class
INST_IDS = STR_IDS                                                  # ... all of them also serve as instances
SHAPES = ['P', 'S']                 # a plain class; a plain subclass (odd columns) of a plain base class (even columns)

_FIX = {}


def fixture(skip=()):
    """built once per process: connection, the referenced class, the three variants"""
    if _FIX:
        return _FIX
    import os
    import sqlobject
    from sqlobject import SQLObject, connectionForURI
    conn = connectionForURI('sqlite:/:memory:')
    tag = 'VerifC01x%d%s' % (os.getpid(), 'r' if skip else '')

    other = type(tag + 'Other', (SQLObject,), {'_connection': conn, 'n': sqlobject.IntCol(default=0)})
    other.createTable()
    for k in range(N_OTHER):
        other(n=k)

    class strmeta:
        idType = str
    others = type(tag + 'OtherS', (SQLObject,), {'_connection': conn, 'sqlmeta': strmeta, 'n': sqlobject.IntCol(default=0)})
    others.createTable()
    for sid in STR_IDS:
        others(id=sid)

    def column(name, ctor, kw):
        kw = dict(kw)
        if ctor == 'ForeignKey':
            return sqlobject.ForeignKey(tag + ('OtherS' if kw.get('to') == 'S' else 'Other'), default=None)
        return getattr(sqlobject, ctor)(default=None, **kw)

    def meta(var):
        class sqlmeta:
            cacheValues = (var != 'N')
            lazyUpdate = (var == 'L')
        return sqlmeta
    cols = [c for c in COLUMNS if c[0] not in skip]
    classes = {}
    for var in VARIANTS:
        attrs = {'_connection': conn, 'sqlmeta': meta(var)}
        for name, ctor, kw in cols:
            attrs[name] = column(name, ctor, kw)
        cls = type(tag + var, (SQLObject,), attrs)
        cls.createTable()
        classes[(var, 'P')] = cls
        # the same columns split over a plain base class and a plain subclass of it
        battrs = {'_connection': conn, 'sqlmeta': meta(var)}
        for name, ctor, kw in cols[0::2]:
            battrs[name] = column(name, ctor, kw)
        base = type(tag + var + 'Base', (SQLObject,), battrs)
        base.createTable()
        sattrs = {}
        for name, ctor, kw in cols[1::2]:
            sattrs[name] = column(name, ctor, kw)
        sub = type(tag + var + 'Sub', (base,), sattrs)
        sub.createTable()
        classes[(var, 'S')] = sub
    raw = conn.getConnection()
    decl = {}
    for key, cls in classes.items():
        decl[key] = {}
        for row in raw.execute('PRAGMA table_info(%s)' % cls.sqlmeta.table):
            decl[key][row[1]] = row[2]
    _FIX.update(conn=conn, other={'obj': other, 'objs': others}, classes=classes, raw=raw, decl=decl, skip=tuple(skip))
    return _FIX


def attr_of(col):
    """the attribute that carries the raw column value (fkID for the foreign key)"""
    return {'fk': 'fkID', 'fks': 'fksID'}.get(col, col)


# ---------------------------------------------------------------- stdlib / engine codec tables (never through SQLObject)
AFFINITIES = ['TEXT', 'NUMERIC', 'INTEGER', 'REAL', 'BLOB']
_AFF_DECL = {'TEXT': 'TEXT', 'NUMERIC': 'NUMERIC', 'INTEGER': 'INTEGER', 'REAL': 'REAL', 'BLOB': 'BLOB'}
_SCRATCH = {}


def scratch():
    if not _SCRATCH:
        import sqlite3
        c = sqlite3.connect(':memory:')
        c.execute('CREATE TABLE aff (%s)' % ', '.join('c%d %s' % (i, _AFF_DECL[a]) for i, a in enumerate(AFFINITIES)))
        _SCRATCH['c'] = c
    return _SCRATCH['c']


def raw_enc(x):
    """a value handed back by a raw sqlite3 cursor -> storage value"""
    if x is None:
        return ['null']
    if isinstance(x, int):
        return ['integer', str(x)]
    if isinstance(x, float):
        return ['real', str(fbits(x))]
    if isinstance(x, str):
        return ['text', [ord(c) for c in x]]
    return ['blob', list(bytes(x))]


def num_store(text):
    """what a column of each affinity holds after INSERT ... VALUES (<text>), or 'error'"""
    import sqlite3
    c = scratch()
    out = []
    for i, a in enumerate(AFFINITIES):
        try:
            c.execute('DELETE FROM aff')
            c.execute('INSERT INTO aff (c%d) VALUES (%s)' % (i, text))
            v, = c.execute('SELECT c%d FROM aff' % i).fetchone()
            out.append(raw_enc(v))
        except (sqlite3.Error, sqlite3.Warning, ValueError):
            out.append(['error'])
    return out


def is_plain_int_text(t):
    body = t[1:] if t.startswith('-') else t
    return body.isdigit() and body.isascii()


def looks_numeric_literal(t):
    """texts the model hands to the num_store codec: they start like a number"""
    body = t[1:] if t.startswith('-') else t
    return bool(body) and (body[0].isdigit() or body[0] == '.') and body.isascii()


def walk(x, fn):
    fn(x)
    if isinstance(x, (list, tuple)):
        for y in x:
            walk(y, fn)
    elif isinstance(x, dict):
        for k, v in x.items():
            walk(k, fn)
            walk(v, fn)


def codec_tables(v, col=None, extra_texts=()):
    """every stdlib/engine codec entry the model can need for the input value v"""
    import base64
    import decimal
    import json
    import pickle
    import uuid
    floats, texts, decs, uuids, ints = set(), set(), set(), set(), set()

    def see(x):
        if type(x) is float:
            floats.add(fbits(x))
        elif type(x) is int and not isinstance(x, bool):
            ints.add(x)
        elif type(x) is decimal.Decimal:
            decs.add(x)
        elif type(x) is uuid.UUID:
            uuids.add(x.int)
            ints.add(x.int)
    walk(v, see)
    texts.update(extra_texts)
    if type(v) in (str, bytes):      # a string handed to a decimal / key column is parsed
        try:
            d = decimal.Decimal(v if type(v) is str else v.decode('ascii'))
            if d.is_finite():
                decs.add(d)
        except (decimal.InvalidOperation, ValueError, UnicodeDecodeError):
            pass
        try:
            ints.add(int(v))
        except ValueError:
            pass
    if isinstance(v, bool):
        ints.add(int(v))
    float_of = []
    for d in decs:
        try:
            f = float(d)
            float_of.append([enc(d), str(fbits(f))])
            floats.add(fbits(f))
        except (OverflowError, ValueError, decimal.InvalidOperation):
            pass
        try:
            ints.add(int(d))
        except (OverflowError, ValueError, decimal.InvalidOperation):
            pass
        texts.add(d.to_eng_string())
        for places in (2, 3):
            try:
                texts.add(d.quantize(decimal.Decimal(10) ** -places).to_eng_string())
            except decimal.InvalidOperation:
                pass
    float_of_int = []
    for z in sorted(ints):
        texts.add(repr(z))
        try:
            f = float(z)
            float_of_int.append([str(z), str(fbits(f))])
            floats.add(fbits(f))
        except OverflowError:
            float_of_int.append([str(z), None])
    frepr, nstore = {}, {}
    for _ in range(4):
        for b in list(floats):
            if b in frepr:
                continue
            f = bits_f(b)
            r = repr(f)
            frepr[b] = r
            texts.add(r)
            if f == f and abs(f) != math.inf:
                texts.add(repr(int(f)))
                try:
                    texts.add(decimal.Decimal(r).to_eng_string())
                except decimal.InvalidOperation:
                    pass
        for t in list(texts):
            if t in nstore or not looks_numeric_literal(t) or len(t) > 1200:
                continue
            r = num_store(t)
            nstore[t] = r
            for s in r:
                if s[0] == 'real':
                    floats.add(int(s[1]))
    tab = {
        'frepr': [[str(b), [ord(c) for c in r]] for b, r in sorted(frepr.items())],
        'nstore': [[[ord(c) for c in t], r] for t, r in sorted(nstore.items())],
        'float_of': float_of,
        'float_of_int': float_of_int,
        'uuid': [[str(n), [ord(c) for c in str(uuid.UUID(int=n))]] for n in sorted(uuids)],
        'b64': [], 'pickle': [], 'json': [], 'str': [],
    }
    if col == 'fks' and v is not None and type(v) is not str:
        tab['str'].append([enc(v), [ord(c) for c in str(v)]])
    blobs = []
    if type(v) is bytes:
        blobs.append(v)
    try:
        pk = pickle.dumps(v, pickle.HIGHEST_PROTOCOL)
        back = pickle.loads(pk)
        tab['pickle'].append([enc(v), list(pk), enc(back)])
        blobs.append(pk)
    except Exception:       # unpicklable fixture objects are never generated for the pickle column
        pass
    for b in blobs:
        tab['b64'].append([list(b), [ord(c) for c in base64.b64encode(b).decode('ascii')]])
    if v is not None and isinstance(v, (bool, int, float, dict, list, str)):
        try:
            t = json.dumps(v)
            tab['json'].append([enc(v), ['ok', [ord(c) for c in t], enc(json.loads(t))]])
        except (TypeError, ValueError) as e:
            tab['json'].append([enc(v), ['raise', type(e).__name__]])
    return tab


# ---------------------------------------------------------------- implementation side
def exc_name(e):
    return type(e).__name__


def attempt(fn):
    try:
        return ['ok', enc(fn())]
    except Exception as e:          # the exception class is the observation
        return ['raise', exc_name(e)]


def run_one(F, c):
    conn, raw = F['conn'], F['raw']
    cls = F['classes'][(c['cls'], c.get('shape', 'P'))]
    col = c['col']
    attr = attr_of(col)
    dbname = cls.sqlmeta.columns[attr].dbName
    table = cls.sqlmeta.table
    v = dec(c['v'], F['other'])
    # the foreign key takes instances through the `fk` attribute and ids through `fkID`
    wattr = col if (col in ('fk', 'fks') and c['v'][0] in ('obj', 'objs')) else attr
    o = {'decl': F['decl'][(c['cls'], c.get('shape', 'P'))].get(dbname)}
    conn.cache.clear()
    nrows = raw.execute('SELECT COUNT(*) FROM %s' % table).fetchone()[0]
    x = None
    rid = None
    # ---- the write
    try:
        if c['wp'] == 'create':
            x = cls(**{wattr: v})
        else:
            x = cls()
            rid = x.id
            if c['wp'] == 'setattr':
                setattr(x, wattr, v)
            else:
                x.set(**{wattr: v})
            if c['cls'] == 'L':
                o['cache_pre'] = attempt(lambda: getattr(x, attr))
                o['raw_pre'] = raw_enc(raw.execute('SELECT %s FROM %s WHERE id = %d' % (dbname, table, rid)).fetchone()[0])
                x.syncUpdate()
        o['w'] = ['ok']
    except Exception as e:
        o['w'] = ['raise', exc_name(e)]
    nrows2 = raw.execute('SELECT COUNT(*) FROM %s' % table).fetchone()[0]
    o['rows_added'] = nrows2 - nrows
    if rid is None and nrows2 > nrows:
        rid = raw.execute('SELECT MAX(id) FROM %s' % table).fetchone()[0]
    if rid is None:
        return o
    r = raw.execute('SELECT %s, typeof(%s) FROM %s WHERE id = %d' % (dbname, dbname, table, rid)).fetchone()
    o['raw'] = raw_enc(r[0])
    if o['w'] == ['ok']:
        o['cache'] = attempt(lambda: getattr(x, attr))
        # equality query, both spellings
        # (restricted to the row just written: other rows of the table belong to other cases)
        def found():
            from sqlobject.sqlbuilder import AND
            return rid in [y.id for y in cls.select(AND(getattr(cls.q, attr) == v, cls.q.id == rid))]

        def foundby():
            return rid in [y.id for y in cls.selectBy(**{attr: v, 'id': rid})]
        o['found'] = attempt(found)
        o['foundby'] = attempt(foundby)
        # a select that meets the writer in the cache refreshes it from its row
        def via_select_hit():
            ys = list(cls.select(cls.q.id == rid))
            assert len(ys) == 1 and ys[0] is x
            return getattr(x, attr)
        o['sel'] = attempt(via_select_hit)

        def via_expire():
            x.expire()
            return getattr(x, attr)
        o['exp'] = attempt(via_expire)
    del x

    def via_get():
        conn.cache.clear()
        return getattr(cls.get(rid), attr)
    o['fresh'] = attempt(via_get)

    def via_select_row():
        conn.cache.clear()
        ys = list(cls.select(cls.q.id == rid))
        assert len(ys) == 1
        return getattr(ys[0], attr)
    o['selfresh'] = attempt(via_select_row)
    conn.cache.clear()
    return o


def run_impl(cases):
    import warnings
    warnings.simplefilter('ignore')
    out = []
    try:
        F = fixture()
    except Exception as e0:
        # the enum column's CHECK clause embeds string literals: when even the table cannot be made,
        # go on without that column (its cases are reported as refused)
        try:
            F = fixture(skip=('e',))
            F['skip_reason'] = type(e0).__name__
        except Exception as e:
            return [{'crash': 'fixture: %s: %s' % (type(e).__name__, e)} for _ in cases]
    for c in cases:
        try:
            if c['col'] in F.get('skip', ()):
                out.append({'w': ['raise', 'Fixture' + F.get('skip_reason', 'Error')], 'rows_added': 0, 'decl': None,
                            'codecs': codec_tables(None, c['col'])})
                continue
            o = run_one(F, c)
            o['codecs'] = codec_tables(dec(c['v'], F['other']) if c['v'][0] not in ('obj', 'objs') else None, c['col'],
                                       [''.join(chr(x) for x in c['v'][1])] if c['v'][0] == 'objs' else ())
        except Exception as e:
            import traceback
            o = {'crash': '%s: %s\n%s' % (type(e).__name__, e, traceback.format_exc()[-600:])}
        out.append(o)
    return out


# ---------------------------------------------------------------- Coq side
def zlit(z):
    z = int(z)
    return '(%d)%%Z' % z


def nlit(n):
    return '%d' % int(n)


def blit(b):
    return 'true' if b else 'false'


def slit(cps):
    return '[%s]' % '; '.join(str(int(c)) for c in cps)


def coq_val(v):
    k = v[0]
    if k == 'none':
        return 'PNone'
    if k == 'bool':
        return '(PBool %s)' % blit(v[1])
    if k == 'int':
        return '(PInt %s)' % zlit(v[1])
    if k == 'float':
        return '(PFloat %s)' % nlit(v[1])
    if k == 'str':
        return '(PStr %s)' % slit(v[1])
    if k == 'bytes':
        return '(PBytes %s)' % slit(v[1])
    if k == 'date':
        return '(PDate %d %d %d)' % tuple(v[1:4])
    if k == 'time':
        return '(PTime %d %d %d %d %s)' % (v[1], v[2], v[3], v[4], blit(v[5]))
    if k == 'datetime':
        return '(PDateTime %d %d %d %d %d %d %d %s)' % (v[1], v[2], v[3], v[4], v[5], v[6], v[7], blit(v[8]))
    if k == 'delta':
        return '(PDelta %s %d %d)' % (zlit(v[1]), v[2], v[3])
    if k == 'dec':
        coeff = int(''.join(str(d) for d in v[2]) or '0')
        return '(PDec %s %d %s)' % (blit(v[1]), coeff, zlit(v[3]))
    if k == 'uuid':
        return '(PUuid %s)' % nlit(v[1])
    if k == 'list':
        return '(PList [%s])' % '; '.join(coq_val(x) for x in v[1])
    if k == 'tuple':
        return '(PTuple [%s])' % '; '.join(coq_val(x) for x in v[1])
    if k == 'dict':
        return '(PDict [%s])' % '; '.join('(%s, %s)' % (coq_val(a), coq_val(b)) for a, b in v[1])
    if k == 'obj':
        return '(PObj %s)' % zlit(v[1])
    if k == 'objs':
        return '(PObjS %s)' % slit(v[1])
    if k == 'decs':
        return '(PDecSpecial %s %s)' % (blit(v[1]), blit(v[2]))
    if k == 'other':
        return '(PObj (-1)%Z)'      # something the model has no value for: never equal to a prediction
    raise ValueError(v)


EXN = {'Invalid': 'E_Invalid', 'ValueError': 'E_Value', 'TypeError': 'E_Type', 'AssertionError': 'E_Assertion',
       'OverflowError': 'E_Overflow', 'UnicodeEncodeError': 'E_UnicodeEncode', 'InvalidOperation': 'E_InvalidOperation',
       'OperationalError': 'E_Operational', 'ProgrammingError': 'E_Programming'}


def coq_exn(name):
    return EXN.get(name, 'E_Other')


def coq_sval(s):
    k = s[0]
    if k == 'null':
        return 'SNull'
    if k == 'integer':
        return '(SInt %s)' % zlit(s[1])
    if k == 'real':
        return '(SReal %s)' % nlit(s[1])
    if k == 'text':
        return '(SText %s)' % slit(s[1])
    if k == 'blob':
        return '(SBlob %s)' % slit(s[1])
    raise ValueError(s)


def coq_res_val(r):
    if r is None:
        return 'None'
    if r[0] == 'ok':
        return '(Some (Ok %s))' % coq_val(r[1])
    return '(Some (Raise %s))' % coq_exn(r[1])


def coq_opt_sval(s):
    return 'None' if s is None else '(Some %s)' % coq_sval(s)


def coq_coltype(col):
    name, ctor, kw = [c for c in COLUMNS if c[0] == col][0]
    if ctor == 'StringCol':
        return '(TString %s)' % ('(Some %d)' % kw['length'] if 'length' in kw else 'None')
    if ctor == 'UnicodeCol':
        return '(TUnicode None)'
    if ctor == 'DecimalCol':
        return '(TDecimal %d %d)' % (kw['size'], kw['precision'])
    if ctor == 'DecimalStringCol':
        return '(TDecStr %d %d %s)' % (kw['size'], kw['precision'], blit(kw.get('quantize', False)))
    if ctor == 'EnumCol':
        return '(TEnum [%s])' % '; '.join(slit([ord(c) for c in s]) for s in kw['enumValues'])
    return {'IntCol': 'TInt', 'TinyIntCol': 'TTinyInt', 'SmallIntCol': 'TSmallInt', 'MediumIntCol': 'TMediumInt',
            'BigIntCol': 'TBigInt', 'BoolCol': 'TBool', 'FloatCol': 'TFloat', 'DateTimeCol': 'TDateTime',
            'DateCol': 'TDate', 'TimeCol': 'TTime', 'TimestampCol': 'TTimestamp', 'CurrencyCol': 'TCurrency',
            'BLOBCol': 'TBlob', 'PickleCol': 'TPickle', 'UuidCol': 'TUuid', 'JSONCol': 'TJson',
            'ForeignKey': 'TForeignKeyStr' if kw.get('to') == 'S' else 'TForeignKey'}[ctor]


def coq_tables(t):
    def nst(r):
        return '[%s]' % '; '.join('Raise E_Operational' if s[0] == 'error' else 'Ok %s' % coq_sval(s) for s in r)

    def js(r):
        if r[0] == 'ok':
            return 'Ok (%s, %s)' % (slit(r[1]), coq_val(r[2]))
        return 'Raise %s' % coq_exn(r[1])
    return ('{| t_frepr := [%s]; t_nstore := [%s]; t_float_of := [%s]; t_float_of_int := [%s]; t_uuid := [%s]; t_b64 := [%s]; '
            't_pickle := [%s]; t_json := [%s]; t_str := [%s] |}' % (
                '; '.join('(%s, %s)' % (nlit(b), slit(r)) for b, r in t['frepr']),
                '; '.join('(%s, %s)' % (slit(x), nst(r)) for x, r in t['nstore']),
                '; '.join('(%s, %s)' % (coq_val(d), nlit(f)) for d, f in t['float_of']),
                '; '.join('(%s, %s)' % (zlit(z), 'None' if f is None else '(Some %s)' % nlit(f)) for z, f in t.get('float_of_int', [])),
                '; '.join('(%s, %s)' % (nlit(n), slit(s)) for n, s in t['uuid']),
                '; '.join('(%s, %s)' % (slit(b), slit(s)) for b, s in t['b64']),
                '; '.join('(%s, %s, %s)' % (coq_val(v), slit(b), coq_val(w)) for v, b, w in t['pickle']),
                '; '.join('(%s, %s)' % (coq_val(v), js(r)) for v, r in t['json']),
                '; '.join('(%s, %s)' % (coq_val(v), slit(r)) for v, r in t.get('str', []))))


def coq_norm(c):
    if c['v'][0] in ('obj', 'objs'):
        return 'None'
    n = datetime_norm(c['col'], dec(c['v']))
    if n is None:
        return 'None'
    if n is REJECT:
        return '(Some (Raise E_Invalid))'
    return '(Some (Ok %s))' % coq_val(enc(n))


def coq_case(c, o):
    w = 'Ok tt' if o['w'] == ['ok'] else 'Raise %s' % coq_exn(o['w'][1])
    row = 'raw' in o
    obs = ('{| ob_w := %s; ob_row := %s; ob_raw := %s; ob_pre := %s; ob_raw_pre := %s; ob_cache := %s; ob_found := %s; '
           'ob_foundby := %s; ob_sel := %s; ob_exp := %s; ob_fresh := %s; ob_selfresh := %s |}' % (
               w, blit(row), coq_opt_sval(o.get('raw')), coq_res_val(o.get('cache_pre')), coq_opt_sval(o.get('raw_pre')),
               coq_res_val(o.get('cache')), coq_res_val(o.get('found')), coq_res_val(o.get('foundby')),
               coq_res_val(o.get('sel')), coq_res_val(o.get('exp')), coq_res_val(o.get('fresh')),
               coq_res_val(o.get('selfresh'))))
    return ('{| c_col := %s; c_val := %s; c_wp := %s; c_var := %s; c_decl := %s; c_indom := %s; c_kindok := %s; c_norm := %s; c_tab := %s; c_obs := %s |}' % (
        coq_coltype(c['col']), coq_val(c['v']),
        {'create': 'WCreate', 'setattr': 'WSetattr', 'set': 'WSet'}[c['wp']],
        {'E': 'VEager', 'N': 'VNoCache', 'L': 'VLazy'}[c['cls']],
        slit([ord(ch) for ch in (o.get('decl') or '')]), blit(in_domain(c['col'], dec(c['v']))), blit(kind_ok(c['col'], c['v'])),
        coq_norm(c), coq_tables(o['codecs']), obs))


# ---------------------------------------------------------------- generators (values are built here, in the parent, and shipped encoded)
STR_POOL = list("'\\%_\"\n\t\r -;()=,.:aZ09") + ['\u00e9', '\u00fc', '\u4e2d', '\U0001F600', '\x7f', '\x01', '\u2028', '\uffff']


def g_str(rng):
    r = rng.random()
    if r < 0.08:
        return ''
    if r < 0.16:
        return rng.choice(["'", "''", "\\", "\\'", "%", "it's", "a'b\\c%d_e", "NULL", "1", "1.5", "2020-01-02", "x" * 300, "'" * 41])
    return ''.join(rng.choice(STR_POOL) for _ in range(rng.randint(1, 14)))


INT_EDGES = [0, 1, -1, 2, 7, 255, -128, 2 ** 31 - 1, -2 ** 31, 2 ** 31, 2 ** 53, 2 ** 53 + 1, -2 ** 53 - 1, 2 ** 63 - 1, -2 ** 63,
             2 ** 63 - 2, -2 ** 63 + 1, 10 ** 18, 999999999999999999]


def g_int64(rng):
    r = rng.random()
    if r < 0.5:
        return rng.choice(INT_EDGES)
    if r < 0.75:
        return rng.randint(-1000, 1000)
    return rng.randint(-2 ** 63, 2 ** 63 - 1)


BIG_INTS = [2 ** 63, -2 ** 63 - 1, 2 ** 63 + 1, 2 ** 64, 2 ** 64 + 1, 10 ** 19 + 7, 10 ** 30, -10 ** 30 - 1, 3 ** 50, 10 ** 400]


def g_float(rng):
    import struct as st
    r = rng.random()
    if r < 0.35:
        return rng.choice([0.0, -0.0, 1.0, -1.0, 1.5, 0.1, 0.2 + 0.1, 1e300, -1e300, 5e-324, 2.2250738585072014e-308,
                           1.7976931348623157e308, 1e-7, 123456789.125, 2.0 ** 53, 2.0 ** 63, 1e22, 1e23, 0.5, 3.0,
                           -2.2606631148481385e-299, 9007199254740993.0, 100.0, 1e16])
    if r < 0.5:
        return float(rng.randint(-10 ** 6, 10 ** 6)) / rng.choice([1, 2, 4, 8, 10, 100, 1000])
    while True:
        f = st.unpack('<d', st.pack('<Q', rng.getrandbits(64)))[0]
        if f == f and abs(f) != math.inf:
            return f


def g_bytes(rng):
    r = rng.random()
    if r < 0.15:
        return b''
    if r < 0.3:
        return rng.choice([b'\x00', b'\xff', b'\x00\xff\xfe', b"'", b'abc', b'\x80\x81', b'a' * 100, bytes(range(256))])
    return bytes(rng.getrandbits(8) for _ in range(rng.randint(1, 40)))


def g_date(rng):
    import datetime
    r = rng.random()
    if r < 0.4:
        return rng.choice([datetime.date(1, 1, 1), datetime.date(9999, 12, 31), datetime.date(2000, 2, 29), datetime.date(2024, 2, 29),
                           datetime.date(1900, 2, 28), datetime.date(2020, 1, 2), datetime.date(999, 10, 31), datetime.date(10, 9, 30),
                           datetime.date(2100, 3, 1), datetime.date(1970, 1, 1)])
    return datetime.date.fromordinal(rng.randint(1, datetime.date.max.toordinal()))


US_EDGES = [0, 1, 6, 10, 500000, 999999, 100000, 123456, 999990, 7000]


def g_time(rng, tz=False):
    import datetime
    tzi = datetime.timezone.utc if tz else None
    r = rng.random()
    if r < 0.3:
        return rng.choice([datetime.time(0, 0, 0, 0, tzi), datetime.time(23, 59, 59, 999999, tzi), datetime.time(1, 2, 3, 4, tzi),
                           datetime.time(12, 0, 0, 500000, tzi), datetime.time(9, 9, 9, 0, tzi)])
    return datetime.time(rng.randint(0, 23), rng.randint(0, 59), rng.randint(0, 59),
                         rng.choice(US_EDGES) if rng.random() < 0.6 else rng.randint(0, 999999), tzi)


def g_datetime(rng, tz=False):
    import datetime
    d, t = g_date(rng), g_time(rng, tz)
    return datetime.datetime(d.year, d.month, d.day, t.hour, t.minute, t.second, t.microsecond, t.tzinfo)


def delta_space():
    """timedeltas for a TimeCol: negative, zero, under a day (with microseconds), a day and more"""
    import datetime
    T = datetime.timedelta
    return [T(seconds=-1), T(hours=-1, minutes=-30), T(days=-1), T(microseconds=-1), T(days=-2, seconds=5), T(0), T(microseconds=1),
            T(seconds=3700, microseconds=5), T(hours=23, minutes=59, seconds=59, microseconds=999999), T(seconds=86399),
            T(days=1), T(days=1, seconds=1), T(hours=25), T(days=400), T(hours=12), T(minutes=90, microseconds=500000)]


def g_delta(rng):
    import datetime
    return rng.choice(delta_space() + [datetime.timedelta(0), datetime.timedelta(seconds=3700, microseconds=5), datetime.timedelta(days=1),
                       datetime.timedelta(days=-1, seconds=5), datetime.timedelta(seconds=86399, microseconds=999999),
                       datetime.timedelta(microseconds=1), datetime.timedelta(seconds=rng.randint(0, 86399))])


def mkdec(sign, coeff, exp):
    import decimal
    return decimal.Decimal((sign, tuple(int(c) for c in str(coeff)), exp))


def g_dec_within(rng, size, prec):
    """a Decimal with at most `size` digits of which at most `prec` after the point"""
    r = rng.random()
    frac = rng.randint(0, prec)
    if r < 0.2:
        return mkdec(rng.randint(0, 1), rng.choice([0, 1, 10, 100, 5, 50, 150]), -frac)
    nd = rng.randint(1, size)
    coeff = rng.randint(10 ** (nd - 1), 10 ** nd - 1) if nd > 1 else rng.randint(0, 9)
    if rng.random() < 0.3:
        coeff -= coeff % 10        # trailing zero
    return mkdec(rng.randint(0, 1), coeff, -frac)


def g_dec_wild(rng):
    import decimal
    r = rng.random()
    if r < 0.25:
        return rng.choice([decimal.Decimal('1E+2'), decimal.Decimal('1E-7'), decimal.Decimal('0E+2'), decimal.Decimal('-0'),
                           decimal.Decimal('1E+3'), decimal.Decimal('12345678901234567890.123'), decimal.Decimal('0.1234567890123456789'),
                           decimal.Decimal('9999.995'), decimal.Decimal('10000'), decimal.Decimal('-100000'), decimal.Decimal('1.545'),
                           decimal.Decimal('1.555'), decimal.Decimal('1.5450001'), decimal.Decimal('1E+30'), decimal.Decimal('-1E+30'),
                           decimal.Decimal('9007199254740993'), decimal.Decimal('123456789012345678.91'), decimal.Decimal('0.000001'),
                           decimal.Decimal('0.0000001'), decimal.Decimal('1E-30'), decimal.Decimal('5E+1'), decimal.Decimal('0.00')])
    nd = rng.randint(1, 24)
    return mkdec(rng.randint(0, 1), rng.randint(0, 10 ** nd - 1), rng.randint(-12, 6))


def g_dec_special(rng):
    import decimal
    return decimal.Decimal(rng.choice(['NaN', 'Infinity', '-Infinity', '-NaN']))


def g_uuid(rng):
    import uuid
    r = rng.random()
    if r < 0.3:
        return uuid.UUID(int=rng.choice([0, 1, 2 ** 128 - 1, 2 ** 64, 0x12345678123456781234567812345678, 2 ** 63 - 1, 12]))
    return uuid.UUID(int=rng.getrandbits(128))


def g_json_scalar(rng):
    r = rng.random()
    if r < 0.25:
        return g_str(rng)[:8]
    if r < 0.45:
        return rng.choice([0, 1, -1, 2 ** 53 + 1, 10 ** 30, 255])
    if r < 0.6:
        return rng.choice([1.5, 0.1, -0.0, 1e300, 5e-324, 2.5, 1e16])
    if r < 0.75:
        return rng.choice([True, False])
    return None


def g_json(rng, depth=2, bad=False):
    r = rng.random()
    if depth == 0 or r < 0.35:
        return g_json_scalar(rng)
    if r < 0.65:
        return [g_json(rng, depth - 1, bad) for _ in range(rng.randint(0, 3))]
    d = {}
    for _ in range(rng.randint(0, 3)):
        k = g_str(rng)[:5]
        if bad and rng.random() < 0.5:
            k = rng.choice([1, 2, True, None, 1.5, '1'])
        v = g_json(rng, depth - 1, bad)
        if bad and rng.random() < 0.3:
            v = rng.choice([(1, 2), (), ('a', [1])])
        d[k] = v
    return d


def g_any(rng, depth=1):
    """a picklable value of any modelled kind"""
    import datetime
    k = rng.randint(0, 15)
    if k == 0:
        return None
    if k == 1:
        return rng.choice([True, False])
    if k == 2:
        return g_int64(rng) if rng.random() < 0.7 else rng.choice(BIG_INTS[:9])
    if k == 3:
        return g_float(rng) if rng.random() < 0.8 else rng.choice([math.inf, -math.inf, math.nan])
    if k == 4:
        return g_str(rng)
    if k == 5:
        return g_bytes(rng)
    if k == 6:
        return g_date(rng)
    if k == 7:
        return g_time(rng, rng.random() < 0.3)
    if k == 8:
        return g_datetime(rng, rng.random() < 0.3)
    if k == 9:
        return g_delta(rng)
    if k == 10:
        return g_dec_wild(rng)
    if k == 11:
        return g_uuid(rng)
    if depth <= 0:
        return g_str(rng)
    if k == 12:
        return [g_any(rng, depth - 1) for _ in range(rng.randint(0, 3))]
    if k == 13:
        return tuple(g_any(rng, depth - 1) for _ in range(rng.randint(0, 3)))
    if k == 14:
        return {g_str(rng)[:4]: g_any(rng, depth - 1) for _ in range(rng.randint(0, 3))}
    return g_json(rng, 2, True)


DATE_STRS = ['2020-01-02', '2020-1-2', '2020-02-30', '2021-02-29', '2000-02-29', '0001-01-01', '0000-01-01', '9999-12-31',
             '2020-13-01', '2020-00-10', '2020-01-00', '2020-01-32', '20-01-02', '02020-01-02', '2020-01-02x', '2020/01/02',
             '', 'abc', '2020-01', '2020-01-02 03:04:05', '2020-001-02']
TIME_STRS = ['01:02:03', '1:2:3', '01:02:03.5', '01:02:03.000004', '01:02:03.1234567', '01:02:03.', '24:00:00', '23:59:60',
             '23:59:59.999999', '00:00:00.0', '01:02', '01:02:03.4.5', 'abc', '', '.5', '01:02:61', '1.2.3', '01:60:00', '12:34:56.123456789']
DEC_STRS = ['1.5', '1.50', '-0', '100', '1E+2', '1e-7', '.5', '5.', '-.5e1', '+7', '1,5', 'abc', '', '1.2.3', '1e', 'e5', '--1',
            '00.50', '1E+400', '9999.995', '10000', '0.005', '123456789.123', '-', '.', '1.5x', ' 1.5', '\n9', '1.5\t', '1_0.5',
            '_1', '1 .5', '\xa07', 'Infinity', '-inf', 'nAn', 'NaN', '\x1c7\x1f', '\u20281E1\u3000']
INT_STRS = ['1', '2', '3', '-7', '+7', '007', 'x', '', '1.5', '99', '9223372036854775808', '-', '1e3', ' 2', '3\n', '1_0', '1__0',
            '_1', '1_', '- 1', '\x1c2', '\xa03', b' 2 ', b'\x1c2', b'1_0', b'+3', b'\xff']


def in_domain_values(col, rng, n):
    """values of the column's documented domain"""
    out = []
    for _ in range(n):
        if col in ('s', 'sl', 'u'):
            out.append(g_str(rng))
        elif col in ('i', 'ti', 'si', 'mi', 'bi'):
            out.append(g_int64(rng))
        elif col == 'b':
            out.append(rng.choice([True, False]))
        elif col == 'f':
            out.append(g_float(rng))
        elif col in ('dt', 'ts'):
            out.append(g_datetime(rng))
        elif col == 'd':
            out.append(g_date(rng))
        elif col == 't':
            out.append(g_time(rng))
        elif col == 'dec':
            out.append(g_dec_within(rng, 10, 3))
        elif col == 'dec20':
            out.append(g_dec_within(rng, 20, 2))
        elif col == 'cur':
            out.append(g_dec_within(rng, 10, 2))
        elif col in ('ds', 'dsq'):
            out.append(g_dec_within(rng, 6, 2))
        elif col == 'e':
            out.append(rng.choice(ENUM_VALUES))
        elif col == 'bl':
            out.append(g_bytes(rng))
        elif col == 'p':
            out.append(g_any(rng, 2))
        elif col == 'uu':
            out.append(g_uuid(rng))
        elif col == 'js':
            out.append(g_json(rng, 3))
        elif col == 'fk':
            out.append(rng.randint(1, N_OTHER) if rng.random() < 0.6 else ('obj', rng.randint(1, N_OTHER)))
        elif col == 'fks':
            r = rng.random()
            out.append(rng.choice(STR_IDS) if r < 0.5 else ('objs', rng.choice(INST_IDS)) if r < 0.75 else g_str(rng))
    return out


def out_domain_values(col, rng, n):
    """other values: every other kind, and near misses specific to the column"""
    import datetime
    import decimal
    out = []
    special = {
        's': ['a\x00b', '\x00', 'a\ud800b', '\udfff', b'abc', b''],
        'u': ['a\x00b', 'x\udc00', b'abc'],
        'sl': ['a\x00', 'abcdefghij' * 3],
        'i': BIG_INTS + [True, False, 1.5, -1.5, 2.0 ** 63, 1e300, math.inf, math.nan, decimal.Decimal('7.9'), decimal.Decimal('-7.9'),
                         decimal.Decimal('1E+20'), '7', b'7'],
        'bi': BIG_INTS + [True, 2.5],
        'ti': [300, -129, 2 ** 63, True],
        'si': [2 ** 20, 2 ** 64],
        'mi': [2 ** 30, -2 ** 70],
        'b': [0, 1, 2, -1, 0.0, -0.0, 1.5, math.nan, math.inf, decimal.Decimal('0'), decimal.Decimal('0.00'), decimal.Decimal('2'),
              datetime.timedelta(0), datetime.timedelta(seconds=1), '', 'x', b'', [], [1], (), {}, 2 ** 70],
        'f': [0, 1, 3, -7, True, False, 2 ** 53, 2 ** 53 + 1, -2 ** 53 - 1, 2 ** 63, 2 ** 63 + 1, 10 ** 30, 10 ** 400, 2 ** 1024,
              math.inf, -math.inf, math.nan, decimal.Decimal('1.5'), decimal.Decimal('0.1'), decimal.Decimal('1E+400'),
              decimal.Decimal('1E-400'), decimal.Decimal('-0'), '1.5'],
        'dt': [datetime.date(2020, 1, 2), datetime.date(1, 1, 1), datetime.time(1, 2, 3), datetime.time(0, 0), g_datetime(rng, True),
               g_datetime(rng, True), g_time(rng, True), '2020-01-02 03:04:05', '2020-01-02 03:04:05.000006', 5, 1.5],
        'ts': [datetime.date(2020, 1, 2), datetime.time(1, 2, 3, 4), g_datetime(rng, True), '2020-01-02 03:04:05.5'],
        'd': [g_datetime(rng), g_datetime(rng, True), datetime.time(1, 2, 3), g_time(rng), g_time(rng, True)] + DATE_STRS,
        't': [g_datetime(rng), g_datetime(rng, True), g_time(rng, True), g_time(rng, True), datetime.date(2020, 1, 2), g_date(rng)]
             + delta_space() + TIME_STRS,
        'dec': [g_dec_wild(rng) for _ in range(8)] + [5, -3, True, 2 ** 70, 1.5, 0.1, 1e300, 1e16, 5e-324, -0.0, math.inf, math.nan]
               + DEC_STRS + [g_dec_special(rng)],
        'dec20': [g_dec_wild(rng) for _ in range(6)] + [10 ** 19 + 1, 0.1, 1e22, 1e23] + [g_dec_special(rng)],
        'cur': [g_dec_wild(rng) for _ in range(4)] + [7, 1.25, '2.50'],
        'ds': [g_dec_wild(rng) for _ in range(6)] + [5, True, False, 1.5, 1e300, 0.1, math.inf, math.nan, 2 ** 70] + DEC_STRS
              + [g_dec_special(rng), g_dec_special(rng)],
        'dsq': [g_dec_wild(rng) for _ in range(8)] + [5, -5, 10000, 9999, True, 1.5, 1.005, 1e300, -1e300, math.inf, -math.inf, math.nan]
               + DEC_STRS + [decimal.Decimal(x) for x in ('NaN', 'Infinity', '-Infinity', '9999.994', '9999.995', '-99999999.999',
                                                         '1E+27', '-1E+27', '-1E+26', '0.005', '0.015', '0.025', '-0.005')],
        'e': ['c', 'A', 'a ', "it''s", 'ü', 0, 1, True, b'a', ['a'], ('a',)],
        'bl': ['abc', '', 5, 1.5, ['a'], (1,), True],
        'p': [],
        'uu': ['12345678-1234-5678-1234-567812345678', '', 5, b'\x00' * 16, 2 ** 100],
        'js': [g_json(rng, 2, True) for _ in range(10)] + [(1, 2), (), b'x', decimal.Decimal('1.5'), [decimal.Decimal('1.5')],
               {'a': b'x'}, {'k': math.nan}, [math.inf], {(1, 2): 3}, {'a': datetime.date(2020, 1, 2)}, math.nan, 10 ** 30, 2 ** 53 + 1,
               {1: 'a', '1': 'b'}, '', '{"a": 1}', 'null', {'d': {'e': {'f': [1, [2, [3]]]}}}, g_uuid(rng), g_date(rng)],
        'fk': [0, 99, -1, True, False, 1.5, 2.0, math.inf, math.nan, decimal.Decimal('2.9'), decimal.Decimal('NaN'),
               decimal.Decimal('Infinity'), g_uuid(rng), 2 ** 63, 2 ** 64 + 1, b'2', b'x'] + INT_STRS,
        'fks': [7, 42, 0, -1, True, False, 1.5, 1e22, math.nan, decimal.Decimal('1.50'), decimal.Decimal('1E+3'), b'007', b'',
                'a\x00b', 'x\udc00', g_uuid(rng), g_date(rng), [1, 'a'], (), {'a': 1}, 2 ** 70],
    }
    out += special.get(col, [])
    for _ in range(n):
        out.append(g_any(rng, 1))
    return out


def kind_samples():
    """one or two values of every modelled Python type: each is offered to EVERY column (alternative input types)"""
    import datetime
    import decimal
    import uuid
    utc = datetime.timezone.utc
    return [True, False, 7, -3, 0, 1.5, 2.0, 'abc', '12', '', b'abc', b'12', datetime.date(2020, 1, 2), datetime.time(1, 2, 3, 4),
            datetime.time(1, 2, 3, 4, utc), datetime.datetime(2020, 1, 2, 3, 4, 5, 6), datetime.datetime(2020, 1, 2, 3, 4, 5, 6, utc),
            datetime.timedelta(seconds=3700, microseconds=5), datetime.timedelta(seconds=-1), datetime.timedelta(days=2),
            decimal.Decimal('1.5'), decimal.Decimal('7'), decimal.Decimal('-0.00'), uuid.UUID(int=12), [1], (1,), {'a': 1}]


def mkcases(col, v, rng, combos, shape0=0):
    if isinstance(v, tuple) and len(v) == 2 and v[0] == 'obj':
        e = ['obj', v[1]]
    elif isinstance(v, tuple) and len(v) == 2 and v[0] == 'objs':
        e = ['objs', [ord(ch) for ch in v[1]]]
    else:
        e = enc(v)
    return [{'col': col, 'v': e, 'wp': wp, 'cls': var, 'shape': (rng.choice(SHAPES) if rng is not None else SHAPES[(shape0 + k) % 2])}
            for k, (wp, var) in enumerate(combos)]


ALL_COMBOS = [(wp, var) for wp in WPATHS for var in VARIANTS]


def pick_combos(rng, k):
    """k of the nine (write path, variant) pairs, every write path present when k >= 3"""
    if k >= 9:
        return list(ALL_COMBOS)
    first = [(wp, rng.choice(VARIANTS)) for wp in WPATHS]
    rest = [c for c in ALL_COMBOS if c not in first]
    rng.shuffle(rest)
    return (first + rest)[:k]


def corpus():
    import datetime
    import decimal
    import uuid
    out = []
    W = [
        ('dt', datetime.date(2020, 1, 2)),                     # fixed d26c1c0: was stored, unreadable
        ('dt', datetime.time(1, 2, 3)),
        ('d', datetime.time(1, 2, 3)),
        ('t', datetime.date(2020, 1, 2)),
        ('ts', datetime.date(2020, 1, 2)),
        ('f', -2.2606631148481385e-299),                       # finding: literal mis-rounded by sqlite
        ('dt', datetime.datetime(2020, 1, 2, 3, 4, 5, 6, datetime.timezone.utc)),   # finding: tzinfo dropped
        ('t', datetime.time(1, 2, 3, 4, datetime.timezone.utc)),
        ('i', 2 ** 63 + 1),                                    # finding: beyond int64 -> REAL
        ('f', 2 ** 53 + 1),                                    # fixed 696f023: int in a float column
        ('dec', decimal.Decimal('100')),                       # fixed e4e0676: integral decimal read back as int
        ('dec20', decimal.Decimal('123456789012345678.91')),   # finding: decimal stored as REAL
        ('dec', 2 ** 70),
        ('s', "it's \\ % _ \n"), ('s', ''), ('bl', b''), ('bl', b'\x00\xff'), ('js', {'a': [1, 2.5, None, True, 'x']}),
        ('dsq', decimal.Decimal('1.545')), ('ds', decimal.Decimal('1E+2')), ('t', datetime.time(23, 59, 59, 999999)),
        ('d', datetime.date(1, 1, 1)), ('dt', datetime.datetime(9999, 12, 31, 23, 59, 59, 999999)), ('f', -0.0),
        ('i', -2 ** 63), ('i', True), ('b', 2), ('fk', '2'),
        # seed c01_fk_to_string_id_declared_int: numeric-looking ids of a string-keyed class
        ('fks', '007'), ('fks', '42'), ('fks', '1.50'), ('fks', ('objs', '007')), ('fks', ('objs', 'abc')), ('fks', ('objs', ' 7')), ('fks', ('objs', 'x y')), ('fks', ' 7'), ('fks', '1e3'), ('fks', 7),
        # seed c01_nocache_getter_skips_falsy_conversion: falsy stored values of every converting column type
        ('b', False), ('dec', decimal.Decimal('0')), ('dec', decimal.Decimal('0.00')), ('cur', decimal.Decimal('-0')),
        ('dec20', decimal.Decimal('0')), ('bl', b''), ('s', ''), ('u', ''), ('e', ''), ('i', 0), ('f', 0.0), ('fk', 0),
        ('ds', decimal.Decimal('0')), ('dsq', decimal.Decimal('0')), ('p', 0), ('p', ''), ('p', False), ('js', 0), ('js', ''),
        ('js', False), ('js', []), ('js', {}), ('fks', ''), ('uu', uuid.UUID(int=0)), ('t', datetime.time(0, 0)),
        # seed c02_negative_timedelta_accepted: alternative input types of the date/time columns
        ('t', datetime.timedelta(seconds=-1)), ('t', datetime.timedelta(hours=-1, minutes=-30)), ('t', datetime.timedelta(0)),
        ('t', datetime.timedelta(seconds=3700, microseconds=5)), ('t', datetime.timedelta(days=1)),
        ('t', datetime.datetime(2020, 1, 2, 3, 4, 5, 6)), ('d', datetime.datetime(2020, 1, 2, 3, 4, 5, 6)),
        ('dt', datetime.date(2024, 2, 29)), ('b', 0), ('b', 1.5), ('f', True), ('f', 3), ('dec', 7), ('dsq', 7), ('fk', True),
        ('fks', 42), ('i', 1.5), ('i', decimal.Decimal('7.9')), ('s', b'abc'), ('u', b'abc'), ('bl', 'abc'),
    ]
    for n, (col, v) in enumerate(W):
        out += mkcases(col, v, None, ALL_COMBOS, shape0=n)
    return out


def generate(rng, tier):
    n_in, n_out, k = (10, 8, 3) if tier == 'quick' else (120, 100, 5)
    out = []
    for col in COLNAMES:
        extra = 3 if col in ('f', 'dec', 'dec20', 'dt', 't', 's', 'js') else 1
        for v in in_domain_values(col, rng, n_in * extra):
            out += mkcases(col, v, rng, pick_combos(rng, k))
        for v in out_domain_values(col, rng, n_out):
            out += mkcases(col, v, rng, pick_combos(rng, k))
        out += mkcases(col, None, rng, pick_combos(rng, 2))
    # every value kind against every column, deterministically (write path x variant x shape rotate)
    n = 0
    for col in COLNAMES:
        for v in kind_samples():
            out += mkcases(col, v, None, [ALL_COMBOS[n % 9]] if tier == 'quick' else [ALL_COMBOS[n % 9], ALL_COMBOS[(n + 4) % 9]], shape0=n // 9)
            n += 1
    return out


def search_cases(rng, tier):
    out = []
    for col in COLNAMES:
        for v in in_domain_values(col, rng, 60) + out_domain_values(col, rng, 60):
            out += mkcases(col, v, rng, pick_combos(rng, 3))
    return out


# ---------------------------------------------------------------- the oracle: the property judged on the implementation alone
def py_equal(a, b):
    """Python ==, except that a NaN equals itself (``the same value came back'')"""
    if isinstance(a, float) and isinstance(b, float) and a != a and b != b:
        return True
    if type(a) in (list, tuple) and type(a) is type(b):
        return len(a) == len(b) and all(py_equal(x, y) for x, y in zip(a, b))
    if type(a) is dict and type(b) is dict:
        if len(a) != len(b):
            return False
        for k, x in a.items():
            hit = [y for k2, y in b.items() if py_equal(k, k2)]
            if not hit or not py_equal(x, hit[0]):
                return False
        return True
    try:
        import decimal
        if type(a) is decimal.Decimal and type(b) is decimal.Decimal and a.is_nan() and b.is_nan():
            return True
        return bool(a == b)
    except Exception:
        return False


def same_type(a, b):
    if type(a) is not type(b):
        return False
    if type(a) in (list, tuple):
        return len(a) == len(b) and all(same_type(x, y) for x, y in zip(a, b))
    if type(a) is dict:
        return len(a) == len(b) and all(same_type(x, y) and same_type(a[x], b[y]) for x, y in zip(a, b))
    return True


def has_bad_cp(s):
    return any(c == '\x00' or 0xD800 <= ord(c) <= 0xDFFF for c in s)


def json_domain(v):
    if v is None or type(v) in (bool, int, str):
        return True
    if type(v) is float:
        return v == v and abs(v) != math.inf
    if type(v) is list:
        return all(json_domain(x) for x in v)
    if type(v) is dict:
        return all(type(k) is str and json_domain(x) for k, x in v.items())
    return False


DEC_SCALE = {'dec': (10, 3), 'dec20': (20, 2), 'cur': (10, 2), 'ds': (6, 2), 'dsq': (6, 2)}


def in_domain(col, v):
    """the column type's documented domain (None belongs to every nullable column)"""
    import datetime
    import decimal
    import uuid
    if v is None:
        return True
    if col in ('s', 'u'):
        return type(v) is str and not has_bad_cp(v)
    if col == 'sl':
        return type(v) is str and not has_bad_cp(v) and len(v) <= 5
    if col in ('i', 'ti', 'si', 'mi', 'bi'):
        return type(v) is int and INT64[0] <= v <= INT64[1]
    if col == 'b':
        return type(v) is bool
    if col == 'f':
        return type(v) is float and v == v and abs(v) != math.inf
    if col in ('dt', 'ts'):
        return type(v) is datetime.datetime and v.tzinfo is None
    if col == 'd':
        return type(v) is datetime.date
    if col == 't':
        return type(v) is datetime.time and v.tzinfo is None
    if col in DEC_SCALE:
        size, prec = DEC_SCALE[col]
        if type(v) is not decimal.Decimal or not v.is_finite():
            return False
        if abs(v) >= decimal.Decimal(10) ** (size - prec):
            return False
        sign, digits, exp = v.as_tuple()
        if exp < -prec or exp > 0:
            return False
        return len(digits) <= size
    if col == 'e':
        return type(v) is str and v in ENUM_VALUES
    if col == 'bl':
        return type(v) is bytes
    if col == 'p':
        return True
    if col == 'uu':
        return type(v) is uuid.UUID
    if col == 'js':
        return json_domain(v)
    if col == 'fk':
        return (type(v) is int and INT64[0] <= v <= INT64[1]) or (isinstance(v, tuple) and len(v) == 2 and v[0] == 'obj')
    if col == 'fks':
        return (type(v) is str and not has_bad_cp(v)) or (isinstance(v, tuple) and len(v) == 2 and v[0] == 'objs'
                                                           and not has_bad_cp(v[1]))
    return False


READS = ['cache', 'sel', 'exp', 'fresh', 'selfresh']


def oracle(c, o):
    v = dec(c['v'])
    col = c['col']
    expect = v[1] if (isinstance(v, tuple) and len(v) == 2 and v[0] in ('obj', 'objs')) else v
    w_ok = o['w'] == ['ok']
    desc = '%s <- %r by %s on the %s variant%s' % (col, v, c['wp'], {'E': 'eager', 'N': 'cacheValues=False', 'L': 'lazyUpdate'}[c['cls']],
                                                     ' (plain subclass of a plain class)' if c.get('shape') == 'S' else '')
    if in_domain(col, v):
        if not w_ok:
            return {'what': 'in-domain value refused: %s raised %s' % (desc, o['w'][1]), 'kind': 'refused'}
        for name in (['cache_pre'] if 'cache_pre' in o else []) + READS:
            r = o.get(name)
            if r is None or r[0] != 'ok':
                return {'what': '%s: read path %s %s' % (desc, name, 'raised ' + r[1] if r else 'missing'), 'kind': 'unreadable',
                        'path': name}
            x = dec(r[1])
            if not py_equal(x, expect):
                return {'what': '%s: read path %s returned %r' % (desc, name, x), 'kind': 'changed', 'path': name,
                        'expected': repr(expect), 'actual': repr(x)}
            if not same_type(x, expect):
                return {'what': '%s: read path %s returned %r of type %s' % (desc, name, x, type(x).__name__),
                        'kind': 'type', 'path': name, 'expected': repr(expect), 'actual': repr(x)}
        for q in ('found', 'foundby'):
            if o.get(q) != ['ok', ['bool', 1]]:
                return {'what': '%s: the equality query (%s) does not find the row: %r' % (desc, q, o.get(q)), 'kind': 'query'}
        return None
    # any other value: rejected with nothing stored, or identical on every read path
    norm = documented_norm(col, v) if not (isinstance(v, tuple) and v and v[0] in ('obj', 'objs')) else None
    if w_ok and norm is REJECT:
        return {'what': 'a value the column cannot represent was accepted: %s, the row holds %r and reads as %r' % (
            desc, o.get('raw'), (o.get('fresh') or [None, None])[1]), 'kind': 'accepted-unrepresentable'}
    if not w_ok:
        stored = o.get('rows_added') if c['wp'] == 'create' else (1 if o.get('raw') not in (None, ['null']) else 0)
        if stored:
            return {'what': 'out-of-domain value refused AFTER it was stored: %s raised %s, the row holds %r' % (
                desc, o['w'][1], o.get('raw')), 'kind': 'raised-after-store'}
        return None
    vals = []
    for name in READS:
        r = o.get(name)
        if r is None or r[0] != 'ok':
            return {'what': 'accepted value cannot be read back: %s, read path %s %s (row holds %r)' % (
                desc, name, 'raised ' + r[1] if r else 'missing', o.get('raw')), 'kind': 'unreadable', 'path': name}
        vals.append((name, dec(r[1])))
    for name, x in vals[1:]:
        if not py_equal(vals[0][1], x):
            return {'what': 'accepted value reads differently: %s, %s gives %r but %s gives %r' % (
                desc, vals[0][0], vals[0][1], name, x), 'kind': 'inconsistent', 'expected': repr(vals[0][1]), 'actual': repr(x)}
    if norm is not None and norm is not REJECT:
        for name, x in vals:
            if not py_equal(x, norm):
                return {'what': 'accepted value normalised wrongly: %s, read path %s gives %r, expected %r' % (desc, name, x, norm),
                        'kind': 'misnormalised', 'expected': repr(norm), 'actual': repr(x)}
    for q in ('found', 'foundby'):
        if o.get(q) != ['ok', ['bool', 1]]:
            return {'what': '%s: the equality query (%s) does not find the row: %r' % (desc, q, o.get(q)), 'kind': 'query'}
    return None


# ---------------------------------------------------------------- documented normalisation of alternative input types
REJECT = ('reject',)


def time_of_delta(v):
    import datetime
    if v.days != 0:
        return REJECT            # negative, or a day or more: not a time of day
    s = v.seconds
    return datetime.time(s // 3600, (s // 60) % 60, s % 60, v.microseconds)


def datetime_norm(col, v):
    """date/time crossings (mirrors Model/Columns.v norm_spec): the value every read must return, REJECT, or None"""
    import datetime
    if col == 't' and type(v) is datetime.timedelta:
        return time_of_delta(v)
    if col == 't' and type(v) is datetime.datetime:
        return v.time()
    if col == 'd' and type(v) is datetime.datetime:
        return v.date()
    if col in ('dt', 'ts') and type(v) is datetime.date:
        return datetime.datetime(v.year, v.month, v.day)
    return None


def documented_norm(col, v):
    """What an accepted value of another type must read back as (== comparison), where the conversion is
    value-preserving and therefore not a matter of taste; REJECT where no such value exists; None = unspecified."""
    import decimal
    n = datetime_norm(col, v)
    if n is not None:
        return n
    if col in ('i', 'ti', 'si', 'mi', 'bi') and type(v) is bool:
        return int(v)
    if col == 'b' and type(v) in (int, float):
        return bool(v)
    if col == 'f' and type(v) in (int, bool) and abs(int(v)) <= 2 ** 53:
        return float(v)
    if col in ('dec', 'dec20', 'cur', 'ds', 'dsq') and type(v) is int and abs(v) < 10 ** 4:
        return decimal.Decimal(v)
    if col == 'fk' and type(v) is bool:
        return int(v)
    if col == 'fk' and type(v) is str and v.isascii() and v.isdigit() and len(v) < 18:
        return int(v)
    if col == 'fks' and type(v) is int and type(v) is not bool:
        return str(v)
    return None


# ---------------------------------------------------------------- known findings: the narrow trigger class of each
INT_COLS = ('i', 'ti', 'si', 'mi', 'bi', 'fk')
REAL_DEC_COLS = ('dec', 'dec20', 'cur')


def derived_int(v):
    """the integer an integer / key column's validator makes of v (None: it makes none)"""
    import decimal
    import uuid
    try:
        if type(v) is bool:
            return int(v)
        if type(v) is int:
            return v
        if type(v) is float or type(v) is decimal.Decimal:
            return int(v)
        if type(v) is uuid.UUID:
            return v.int
        if type(v) in (str, bytes):
            return int(v)
    except (ValueError, OverflowError, decimal.InvalidOperation):
        return None
    return None


def derived_decimal(v):
    import decimal
    try:
        if type(v) is decimal.Decimal:
            return v
        if type(v) is int and type(v) is not bool:
            return decimal.Decimal(v)
        if type(v) is float:
            return decimal.Decimal(repr(v))
        if type(v) is str:
            return decimal.Decimal(v)
    except (decimal.InvalidOperation, ValueError):
        return None
    return None


def sqlite_keeps_float(o, v):
    """does the engine (as observed through a raw connection, see codec_tables) read repr(v) back as v"""
    t = o.get('codecs') or {}
    rep = dict((int(b), r) for b, r in t.get('frepr', []))
    st = dict((tuple(x), r) for x, r in t.get('nstore', []))
    r = rep.get(fbits(v))
    if r is None or tuple(r) not in st:
        return None
    real = st[tuple(r)][AFFINITIES.index('REAL')]
    return real[0] == 'real' and bits_f(int(real[1])) == v


def kind_ok(col, venc):
    """False on the trigger class of tzinfo_dropped (mirrors Model/Columns.v kind_ok)"""
    k = venc[0]
    if col in ('dt', 'ts'):
        return not (k == 'datetime' and venc[8])
    if col == 't':
        return not (k == 'time' and venc[5])
    return True


def classify(c, o, f):
    import datetime
    import decimal
    col, kind = c['col'], c['v'][0]
    fk = f.get('kind')
    v = dec(c['v'])
    # (string_id_instance_unquoted is fixed: a query by a string-keyed instance that misses the row is a violation)
    # (date_time_kind_unreadable is fixed: a wrong-kind date/time object failing now is a violation)
    if not kind_ok(col, c['v']):
        # tzinfo silently dropped: the writer keeps the aware value, the row the naive text
        if fk == 'inconsistent' and kind in ('datetime', 'time'):
            return 'tzinfo_dropped'
    # F2: sqlite's text->double mis-rounds the literal of this very float
    if col == 'f' and kind == 'float' and fk in ('changed',) and sqlite_keeps_float(o, v) is False:
        return 'float_literal_misrounded'
    # F4: integer beyond int64 in an integer / key column: held as REAL
    if col in INT_COLS and fk in ('inconsistent', 'unreadable', 'raised-after-store', 'query'):
        z = derived_int(v)
        if z is not None and not (INT64[0] <= z <= INT64[1]):
            return 'int_beyond_int64_stored_as_real'
    # (float_col_keeps_int is fixed: ints are normalised to float by the validator)
    # F6 / F7: DECIMAL columns are NUMERIC affinity on sqlite: REAL or INTEGER storage
    if col in REAL_DEC_COLS:
        d = derived_decimal(v)
        if d is not None and d.is_finite():
            # (decimal_integral_read_as_int is fixed: a type mismatch here is a violation)
            digits = len(''.join(str(x) for x in d.as_tuple().digits).strip('0'))     # significant digits, exactly
            beyond = digits > 15 or abs(d.adjusted()) > 300
            if not beyond and d == d.to_integral_value() and abs(d) >= 2 ** 53:
                # an integral REAL that fits int64 is turned into INTEGER: the double's exact value shows
                beyond = decimal.Decimal(float(d)) != d
            if fk in ('changed', 'inconsistent', 'query') and beyond:
                return 'decimal_stored_as_real'
    return None


# ---------------------------------------------------------------- evidence
def nontrivial(c, o):
    if c['v'][0] == 'none':
        return False
    if o.get('w') != ['ok']:
        return True
    raw = o.get('raw')
    v = c['v']
    plain = (v[0] == 'str' and raw == ['text', v[1]]) or (v[0] == 'int' and raw == ['integer', v[1]])
    if plain and v[0] == 'str':
        plain = 39 not in v[1]          # a quote had to be escaped
    return not plain


def key(c):
    return [c['col'], c['v'], c['wp'], c['cls'], c.get('shape', 'P')]


def distribution(cases, obs):
    d = {'by_column': {}, 'by_kind': {}, 'by_write_path': {}, 'by_variant': {}, 'by_class_shape': {}, 'in_domain': 0, 'out_of_domain': 0,
         'refused': 0, 'refused_by': {}, 'stored_as': {}}
    for c, o in zip(cases, obs):
        d['by_column'][c['col']] = d['by_column'].get(c['col'], 0) + 1
        d['by_kind'][c['v'][0]] = d['by_kind'].get(c['v'][0], 0) + 1
        d['by_write_path'][c['wp']] = d['by_write_path'].get(c['wp'], 0) + 1
        d['by_variant'][c['cls']] = d['by_variant'].get(c['cls'], 0) + 1
        d['by_class_shape'][c.get('shape', 'P')] = d['by_class_shape'].get(c.get('shape', 'P'), 0) + 1
        try:
            ind = in_domain(c['col'], dec(c['v']))
        except Exception:
            ind = False
        d['in_domain' if ind else 'out_of_domain'] += 1
        if isinstance(o, dict) and 'w' in o:
            if o['w'] != ['ok']:
                d['refused'] += 1
                d['refused_by'][o['w'][1]] = d['refused_by'].get(o['w'][1], 0) + 1
            if o.get('raw'):
                d['stored_as'][o['raw'][0]] = d['stored_as'].get(o['raw'][0], 0) + 1
    return d


def explain(c, o):
    keep = {k: o.get(k) for k in ('w', 'raw', 'cache_pre', 'cache', 'found', 'sel', 'exp', 'fresh', 'selfresh') if k in o}
    return 'value %r -> %r' % (c['v'], keep)
