"""C07 -- transactions: invisible until commit, visible after, erased by rollback."""
import gc
import io
import os
import pickle
import re
import shutil

PROP = 'C07'
PROPS_VO = 'Props/C07.vo'
CORR_VO = 'Corr/C07.vo'
GENERATORS = {}
SOURCES = ['sqlobject/dbconnection.py', 'sqlobject/main.py', 'sqlobject/cache.py', 'sqlobject/sqlite/sqliteconnection.py']
COQ_HEADER = '''From Coq Require Import List ZArith Bool. Import ListNotations. Open Scope Z_scope.
From Lib Require Import CorrLib. From Model Require Import Txn. From Corr Require Import C07.'''
COQ_CASE_TYPE = 'case'
COQ_AGREE = 'agree'
COQ_SHARD = 150
REPLAY_KIND = 'input'
EXHAUSTIVE = {'quick': False, 'thorough': False}
RULE = ('seeded random histories of 5..25 operations (thorough: up to 40) over one class with two Int columns on a FILE-backed '
        'sqlite database (timeout 0): create/get/select/count/read/assign/destroySelf/expire/sync/syncUpdate/pickle.dumps/drop-reference/cull on the parent '
        'connection and on a Transaction (connection=trans and trans.Cls access), commit, commit(close=True), rollback, begin, use after '
        'finish; every history has at least two commit/rollback points; cache=True/False, cull frequency 100/2..6; the class is eager or lazyUpdate, caches attribute values or not (cacheValues=False 25%: every read is a query) (35% lazy: assignments queued on the instance, on either side, also while the other side changes or deletes the row; commit/rollback with assignments queued) and column b is UNIQUE or not (30%: creates, assignments and syncUpdates the database refuses, inside the transaction after earlier work and on the parent connection); one third of the histories '
        'start from a motif (the witnesses of the findings and near misses of them; parent-side instances with queued assignments at commit; refused statements in the middle of a transaction; pickling a transaction-side instance with a queue -- refused -- and a parent-side one -- flushed, or the flush refused by the lock / the UNIQUE column); half of them end with a sweep that reads every held '
        'instance and selects on both sides.  Non-trivial = at least one commit or rollback happened while the transaction held uncommitted '
        'changes and a parent-side instance was held; distinct = distinct (configuration, operation list).')
EXPLANATION = ('Theorems C07_* (Coq, all histories) over Model/Txn.v, a hand model of Transaction/ConnWrapper/SQLObject instance life-cycle/'
               'CacheFactory for a parent connection and one transaction with sqlite locking; correspondence: after EVERY operation the '
               'model state evaluated by vm_compute is compared with the real SQLObject (outcome, SQL log with sending connection, committed '
               'table via a third DB-API connection, the transaction\'s private view, _deletedCache/_obsolete, passive state of every held '
               'instance incl. its queued assignments, both caches); the oracle judges the property on the observations alone (a queued value says nothing about the database: freshness is judged on the columns with nothing queued; a lazy assignment sends nothing; syncUpdate writes exactly the queue; a refused statement changes nothing and leaves the transaction open on the view it had; pickle.dumps of an instance obtained through the transaction raises PicklingError and every observable -- statement log, tables, bookkeeping, every held instance with its queue, both caches -- is what it was, of a parent-side instance it writes exactly the queue first (or raises what the UPDATE raised, queue kept) and the pickled state is the id and the attributes the instance carried; a select through either connection returns the ids of that connection\'s own view).')
TRUSTED_BASE = [
    'Coq 8.16.1 kernel + vm_compute (examples, correspondence); no native_compute',
    'Model/Txn.v is hand-written after dbconnection.py (Transaction, ConnWrapper), main.py (get/_init/_SO_loadValue/_SO_setValue/sync/syncUpdate/expire/'
    '_create/_SO_finishCreate/destroySelf/__getstate__), cache.py; tied to the code only by the correspondence run (every operation: outcome, SQL log, '
    'committed table, transaction view, bookkeeping, passive state of every held object, cache contents)',
    'modelled, not verified: sqlite in rollback-journal mode with Python sqlite3 legacy transaction control (isolation_level "" on the '
    'transaction\'s connection, None elsewhere) and timeout 0: the transaction\'s first INSERT/UPDATE/DELETE takes the write lock (also when '
    'no row matched) until COMMIT/ROLLBACK, a parent write meanwhile fails at once with OperationalError, parent reads see the committed '
    'table, AUTOINCREMENT counter is rolled back with the transaction; CPython reference counting; dict insertion order',
    'fixture: one class with two nullable Int columns, per case eager or lazyUpdate and with or without UNIQUE on column b; no joins/listeners; '
    'pickling: the class of the fixture lives on the parent connection, so sqlmeta._perConnection is modelled as "the instance is on the transaction\'s side" (every way the harness obtains an instance through the transaction passes connection=trans); only __getstate__ / pickle.dumps is in the operation set (no unpickling); the pickled state is read back with an Unpickler that builds no SQLObject instance; '
    'assignments are single-attribute (o.col = v; .set(**kw) is not in the operation set, so sqlmeta.dirty is "something is queued" -- checked on '
    'every observation); sqlite: a statement refused by a UNIQUE constraint has taken the write lock (in_transaction stays true on the '
    'transaction\'s connection, parent writes are refused until commit/rollback) and consumes no id; one transaction object per history; '
    'raw SQL through trans.query(), deleteMany and other connection-level writes are outside the operation set',
    'a read of a cached attribute is taken to return the cached value (the oracle reads __dict__ after every step instead of calling the '
    'getter, because a getter call on an expired instance reloads it and would change the history); explicit read operations are checked too',
    'ConnWrapper method access (trans.Cls.get/select) raises AttributeError on Python >= 3.11 (inspect.getargspec is gone; finding '
    'connwrapper_method_access_raises): modelled as the configuration flag wrapOk, observed by asking the code at hand to bind a method',
    'the correspondence harness tools/props/c07.py and the cases.v evaluation',
]

TABLE = 'verif_c07_row'
COLS = ['a', 'b']
_classes = {}
_counter = [0]


def row_class(lazy=False, uniq=False, nocache=False):
    """the fixture class: two nullable Int columns; options of the case: lazyUpdate, UNIQUE on column b, cacheValues = False"""
    key = (bool(lazy), bool(uniq), bool(nocache))
    if key not in _classes:
        from sqlobject import SQLObject, IntCol

        class sqlmeta:
            table = TABLE
            lazyUpdate = key[0]
            cacheValues = not key[2]
        name = 'VerifC07Row' + ('L' if key[0] else '') + ('U' if key[1] else '') + ('N' if key[2] else '')
        _classes[key] = type(name, (SQLObject,), {'sqlmeta': sqlmeta, 'a': IntCol(default=None),
                                                  'b': IntCol(default=None, unique=key[1]),
                                                  '__module__': __name__, '__qualname__': name})
        globals()[name] = _classes[key]        # pickle saves a class by reference: module attribute of that name
    return _classes[key]


class _PickledState(object):
    """stands in for the class when the harness reads a pickle back: keeps the state instead of building an instance"""
    def __setstate__(self, d):
        self.d = d


class _StateReader(pickle.Unpickler):
    def find_class(self, module, name):
        return _PickledState


def pickled_state(o):
    """pickle.dumps(o), and the state dictionary the pickle carries (read back without creating an SQLObject instance)"""
    data = pickle.dumps(o)
    d = _StateReader(io.BytesIO(data)).load().d
    vals = [['v', d['_SO_val_' + c]] if ('_SO_val_' + c) in d else ['absent'] for c in COLS]
    extra = sorted(k for k in d if k != 'id' and k not in ['_SO_val_' + c for c in COLS])
    return ['state', d.get('id'), vals, extra]


# ------------------------------------------------------------------ generation
VALS = [None, 0, 1, 2, 3, 4, 5, 6, 7, 8, 9]

MOTIFS = [
    # witnesses of the findings and their near misses
    [['create', 'P', False, 1, 1], ['get', 'T', False, 1], ['set', 1, 0, 5], ['drop', 1], ['commit', False], ['read', 0, 0]],
    [['create', 'P', False, 1, 1], ['get', 'T', False, 1], ['set', 1, 0, 5], ['commit', False], ['read', 0, 0], ['set', 1, 0, 6], ['commit', False], ['read', 0, 0]],
    [['create', 'P', False, 1, 1], ['get', 'T', False, 1], ['rollback'], ['begin'], ['set', 1, 0, 5], ['commit', False], ['read', 0, 0]],
    [['create', 'P', False, 1, 1], ['get', 'T', False, 1], ['set', 1, 0, 5], ['expire', 1], ['commit', False], ['read', 0, 0]],
    [['create', 'P', False, 1, 1], ['get', 'T', False, 1], ['rollback'], ['begin'], ['set', 1, 0, 5], ['rollback'], ['begin'], ['read', 1, 0]],
    [['create', 'P', False, 1, 1], ['get', 'T', False, 1], ['rollback'], ['begin'], ['read', 1, 0], ['set', 1, 0, 5], ['rollback'], ['begin'], ['read', 1, 0]],
    [['create', 'P', False, 1, 1], ['get', 'T', False, 1], ['set', 1, 0, 2], ['commit', False], ['set', 0, 0, 5], ['set', 1, 0, 7], ['commit', False], ['read', 0, 0]],
    [['create', 'P', False, 1, 1], ['create', 'P', False, 2, 2], ['get', 'T', False, 1], ['destroy', 2], ['commit', False], ['read', 0, 0],
     ['get', 'T', False, 2], ['set', 3, 0, 9], ['commit', False], ['read', 1, 0]],
    [['create', 'P', False, 1, 1], ['create', 'P', False, 2, 2], ['get', 'T', False, 1], ['destroy', 2], ['commit', False], ['read', 0, 0],
     ['get', 'T', False, 2], ['destroy', 3], ['commit', False], ['read', 1, 0]],
    [['create', 'P', False, 1, 1], ['get', 'T', False, 1], ['set', 1, 0, 5], ['cull', 'T'], ['drop', 1], ['commit', False], ['read', 0, 0]],
    [['create', 'P', False, 1, 1], ['get', 'T', False, 1], ['destroy', 1], ['read', 0, 0], ['commit', True], ['read', 0, 0], ['get', 'P', False, 1]],
    [['create', 'T', False, 1, 1], ['create', 'T', True, 2, 2], ['rollback'], ['begin'], ['read', 0, 0], ['select', 'T', False, None], ['create', 'P', False, 3, 3]],
    [['create', 'P', False, 1, 1], ['get', 'T', False, 1], ['set', 1, 1, 4], ['set', 0, 1, 9], ['create', 'P', False, 2, 2], ['select', 'P', False, None], ['count', 'P'], ['rollback']],
    [['create', 'P', False, 1, 1], ['get', 'T', False, 1], ['destroy', 0], ['set', 1, 0, 3], ['create', 'P', False, 2, 2], ['commit', False], ['create', 'P', False, 2, 2]],
    [['create', 'P', False, 1, 1], ['commit', True], ['get', 'T', False, 1], ['get', 'T', True, 1], ['select', 'T', False, 0], ['create', 'T', True, 1, 1], ['begin'], ['get', 'T', False, 1]],
    [['create', 'P', False, 1, 1], ['select', 'T', False, 0], ['set', 1, 0, 5], ['commit', True], ['read', 1, 0], ['set', 1, 0, 6], ['destroy', 1], ['begin'], ['commit', False]],
]


# motifs for a lazyUpdate class: a parent-side instance with a queued assignment while the transaction changes / deletes its row
LAZY_MOTIFS = [
    [['create', 'P', False, 1, 1], ['get', 'T', False, 1], ['set', 0, 0, 7], ['set', 1, 1, 5], ['syncupdate', 1], ['commit', False],
     ['read', 0, 1], ['read', 0, 0], ['syncupdate', 0], ['read', 0, 1]],
    [['create', 'P', False, 1, 1], ['get', 'T', False, 1], ['set', 0, 0, 7], ['destroy', 1], ['commit', False], ['get', 'P', False, 1]],
    [['create', 'P', False, 1, 1], ['get', 'T', False, 1], ['set', 0, 1, 7], ['set', 1, 0, 5], ['sync', 1], ['commit', True], ['select', 'P', False, 0], ['read', 0, 0]],
    [['create', 'P', False, 1, 1], ['get', 'T', False, 1], ['set', 1, 0, 5], ['rollback'], ['begin'], ['read', 1, 0], ['syncupdate', 1], ['commit', False]],
    [['create', 'P', False, 1, 1], ['expire', 0], ['set', 0, 0, 4], ['read', 0, 1], ['syncupdate', 0], ['get', 'T', False, 1], ['set', 2, 1, 3], ['sync', 2], ['commit', False], ['read', 0, 0]],
    [['create', 'P', False, 1, 1], ['get', 'T', False, 1], ['set', 1, 0, 5], ['set', 1, 1, 6], ['select', 'T', False, None], ['syncupdate', 1], ['set', 0, 0, 9], ['syncupdate', 0],
     ['commit', False], ['syncupdate', 0], ['read', 0, 1]],
]
# ... for a UNIQUE column b: statements the database refuses, inside and outside the transaction
UNIQ_MOTIFS = [
    [['create', 'P', False, 1, 1], ['create', 'T', False, 2, 2], ['create', 'T', False, 3, 1], ['create', 'T', False, 4, 4], ['commit', False], ['select', 'P', False, None]],
    [['create', 'P', False, 1, 1], ['create', 'P', False, 2, 2], ['get', 'T', False, 1], ['set', 2, 0, 9], ['set', 2, 1, 2], ['set', 2, 1, 3], ['commit', False], ['read', 0, 0]],
    [['create', 'P', False, 1, 1], ['create', 'T', False, 5, 5], ['create', 'T', False, 6, 1], ['rollback'], ['begin'], ['create', 'P', False, 7, 1], ['create', 'P', False, 7, 7]],
    [['create', 'P', False, 1, 1], ['get', 'T', False, 1], ['create', 'T', False, 2, 1], ['create', 'P', False, 3, 3], ['commit', True], ['create', 'P', False, 3, 3]],
]


# ... for a class with cacheValues = False: expire() still has to take the instance out of the cache and to drop the queue
NOCACHE_MOTIFS = [
    [['create', 'P', False, 1, 1], ['get', 'T', False, 1], ['destroy', 1], ['commit', False], ['get', 'P', False, 1], ['read', 0, 0]],
    [['create', 'T', False, 1, 1], ['read', 0, 0], ['rollback'], ['begin'], ['get', 'T', False, 1], ['read', 0, 0]],
    [['create', 'P', False, 1, 1], ['get', 'T', False, 1], ['set', 1, 0, 5], ['read', 1, 0], ['rollback'], ['begin'], ['syncupdate', 1], ['commit', False], ['read', 0, 0]],
    [['create', 'P', False, 1, 1], ['get', 'T', False, 1], ['set', 1, 0, 5], ['syncupdate', 1], ['read', 1, 0], ['read', 0, 0], ['commit', False], ['read', 0, 0], ['set', 0, 1, 3], ['read', 0, 1]],
]


# pickling: an instance obtained through the transaction is refused before anything happens (its queue stays, nothing is sent);
# a parent-side lazyUpdate instance writes its queue first -- also while the transaction holds the lock (the exception leaves
# pickle.dumps), and after commit / rollback
PICKLE_MOTIFS = [
    [['create', 'P', False, 1, 1], ['get', 'T', False, 1], ['set', 1, 0, 5], ['set', 0, 0, 7], ['set', 0, 1, 8], ['pickle', 1], ['pickle', 0],
     ['read', 1, 0], ['syncupdate', 1], ['commit', False], ['pickle', 0], ['pickle', 1]],
    [['create', 'P', False, 1, 1], ['get', 'T', False, 1], ['set', 1, 0, 5], ['syncupdate', 1], ['set', 0, 1, 8], ['pickle', 0], ['pickle', 1],
     ['rollback'], ['pickle', 1], ['pickle', 0], ['begin'], ['pickle', 1]],
    [['create', 'T', False, 1, 1], ['set', 0, 0, 3], ['set', 0, 1, 4], ['pickle', 0], ['select', 'T', False, 0], ['pickle', 1], ['commit', False],
     ['get', 'P', False, 1], ['pickle', 2], ['set', 2, 0, 9], ['pickle', 2], ['pickle', 0]],
    [['create', 'P', False, 1, 1], ['create', 'P', False, 2, 2], ['get', 'T', False, 2], ['set', 0, 1, 2], ['pickle', 0], ['set', 2, 1, 1], ['pickle', 2],
     ['expire', 0], ['pickle', 0], ['destroy', 1], ['pickle', 1], ['commit', True], ['pickle', 2]],
]


def gen_history(rng, maxlen=25, minlen=5):
    cfg = {'cache': rng.random() < 0.55, 'freq': rng.choice([100, 100, 2, 3, 4, 6]), 'frac': rng.choice([2, 2, 3]),
           'lazy': rng.random() < 0.35, 'uniq': rng.random() < 0.3, 'nocache': rng.random() < 0.25}
    n = rng.randint(minlen, maxlen)
    ops, sides = [], []           # sides[h] = side of slot h as far as the generator knows
    nrows = [0]
    tx_active = [True]

    def slot_of(side=None):
        cand = [h for h, s in enumerate(sides) if s is not None and (side is None or s == side)]
        if not cand or rng.random() < 0.03:
            return rng.randint(0, max(0, len(sides)))      # possibly a bad handle
        return rng.choice(cand)

    def pick_side():
        return 'T' if rng.random() < 0.55 else 'P'

    def add(op):
        t = op[0]
        if t in ('create', 'get'):
            sides.append(op[1])
            if t == 'create':
                nrows[0] += 1
        elif t == 'select' and op[3] is not None:
            sides.append(op[1])
        elif t == 'drop' and op[1] < len(sides):
            sides[op[1]] = None
        elif t == 'commit' and op[1]:
            tx_active[0] = False
        elif t == 'rollback':
            tx_active[0] = False
        elif t == 'begin':
            tx_active[0] = True
        ops.append(op)

    if rng.random() < 0.34:
        pool = MOTIFS
        if rng.random() < 0.2:
            pool = PICKLE_MOTIFS
        elif cfg['nocache'] and rng.random() < 0.6:
            pool = NOCACHE_MOTIFS
        elif cfg['lazy'] and rng.random() < 0.6:
            pool = LAZY_MOTIFS
        elif cfg['uniq'] and rng.random() < 0.6:
            pool = UNIQ_MOTIFS
        for op in rng.choice(pool):
            add(list(op))
    W = [('create', 10), ('get', 12), ('select', 7), ('count', 2), ('read', 14), ('set', 16), ('destroy', 5), ('expire', 4),
         ('sync', 3), ('drop', 7), ('cull', 2), ('commit', 9), ('rollback', 6), ('begin', 2), ('syncupdate', 7 if cfg['lazy'] else 1),
         ('pickle', 9 if cfg['lazy'] else 4)]
    names = [w[0] for w in W]
    weights = [w[1] for w in W]
    while len(ops) < n:
        t = rng.choices(names, weights)[0]
        via = rng.random() < 0.12
        if not tx_active[0] and rng.random() < 0.5:
            add(['begin'])
            continue
        if t in ('read', 'set', 'destroy', 'expire', 'sync', 'syncupdate', 'pickle', 'drop') and not any(s is not None for s in sides) and rng.random() < 0.9:
            t = rng.choice(['create', 'get', 'select'])
        if t == 'create':
            add(['create', pick_side(), via, rng.choice(VALS), rng.choice(VALS)])
        elif t == 'get':
            add(['get', pick_side(), via, rng.randint(1, max(1, nrows[0] + 1))])
        elif t == 'select':
            add(['select', pick_side(), via, rng.choice([None, None, 0, 1, 2])])
        elif t == 'count':
            add(['count', pick_side()])
        elif t == 'read':
            add(['read', slot_of(), rng.randint(0, 1)])
        elif t == 'set':
            add(['set', slot_of('T' if rng.random() < 0.6 else None), rng.randint(0, 1), rng.choice(VALS)])
        elif t in ('destroy', 'expire', 'sync', 'syncupdate', 'drop'):
            add([t, slot_of()])
        elif t == 'pickle':
            add([t, slot_of(rng.choice(['T', 'T', 'P', 'P', None]))])
        elif t == 'cull':
            add(['cull', pick_side()])
        elif t == 'commit':
            add(['commit', rng.random() < 0.25])
        elif t == 'rollback':
            add(['rollback'])
            if rng.random() < 0.8:
                add(['begin'])
        elif t == 'begin':
            add(['begin'])
    # at least two commit/rollback points
    pts = sum(1 for o in ops if o[0] in ('commit', 'rollback'))
    while pts < 2:
        pos = rng.randint(len(ops) // 2, len(ops))
        ops.insert(pos, ['commit', False] if rng.random() < 0.6 else ['rollback'])
        if ops[pos][0] == 'rollback':
            ops.insert(pos + 1, ['begin'])
        pts += 1
        # slot numbering is unaffected: commit/rollback/begin create no slot
    if rng.random() < 0.5:
        for h, sd in enumerate(sides):
            if sd is not None:
                ops.append(['read', h, 0])
                ops.append(['read', h, 1])
        ops.append(['select', 'P', False, None])
        ops.append(['select', 'T', False, None])
    return {'cfg': cfg, 'ops': ops}


def corpus():
    out = []
    for cache in (True, False):
        for m in MOTIFS:
            out.append({'cfg': {'cache': cache, 'freq': 100, 'frac': 2}, 'ops': [list(o) for o in m]})
        for m in MOTIFS + LAZY_MOTIFS:
            out.append({'cfg': {'cache': cache, 'freq': 100, 'frac': 2, 'lazy': True, 'uniq': False}, 'ops': [list(o) for o in m]})
        for m in NOCACHE_MOTIFS + MOTIFS[:6]:
            for lz in (False, True):
                out.append({'cfg': {'cache': cache, 'freq': 100, 'frac': 2, 'lazy': lz, 'uniq': False, 'nocache': True}, 'ops': [list(o) for o in m]})
        for m in UNIQ_MOTIFS:
            for lz in (False, True):
                out.append({'cfg': {'cache': cache, 'freq': 100, 'frac': 2, 'lazy': lz, 'uniq': True}, 'ops': [list(o) for o in m]})
        for m in PICKLE_MOTIFS:
            for lz, uq, nc in ((True, False, False), (False, False, False), (True, True, False), (True, False, True)):
                out.append({'cfg': {'cache': cache, 'freq': 100, 'frac': 2, 'lazy': lz, 'uniq': uq, 'nocache': nc}, 'ops': [list(o) for o in m]})
    return out


def generate(rng, tier):
    n = 1500 if tier == 'quick' else 12000
    top = 25 if tier == 'quick' else 40
    return [gen_history(rng, maxlen=top) for _ in range(n)]


def search_cases(rng, tier):
    return [gen_history(rng, maxlen=30) for _ in range(4000)]


# ------------------------------------------------------------------ implementation side
def abstract_sql(q, side):
    q = q.strip()
    if re.match(r'INSERT INTO %s ' % TABLE, q):
        return ['insert', side]
    m = re.match(r'UPDATE %s SET ((?:\w+ = \([^()]*\)(?:, )?)+) WHERE id = \((-?\d+)\)$' % TABLE, q)
    if m:
        cols = re.findall(r'(\w+) = \(', m.group(1))
        if all(c in COLS for c in cols):
            if len(cols) == 1:
                return ['update', side, int(m.group(2)), COLS.index(cols[0])]
            return ['updatecols', side, int(m.group(2)), [COLS.index(c) for c in cols]]
    m = re.match(r'DELETE FROM %s WHERE id = \((-?\d+)\)$' % TABLE, q)
    if m:
        return ['delete', side, int(m.group(1))]
    m = re.match(r'SELECT a, b FROM %s WHERE \(\(%s\.id\) = \((-?\d+)\)\)$' % (TABLE, TABLE), q)
    if m:
        return ['selectone', side, int(m.group(1))]
    m = re.match(r'SELECT (a|b) FROM %s WHERE \(\(%s\.id\) = \((-?\d+)\)\)$' % (TABLE, TABLE), q)
    if m:
        return ['selectcol', side, int(m.group(2)), COLS.index(m.group(1))]
    if re.match(r'SELECT COUNT\(\*\) FROM %s' % TABLE, q):
        return ['count', side]
    if re.match(r'SELECT %s\.id, %s\.a, %s\.b FROM %s WHERE' % (TABLE, TABLE, TABLE, TABLE), q):
        return ['select', side]
    return ['other', side, q[:80]]


EXC = {'SQLObjectNotFound': 'ENotFound', 'PicklingError': 'EPickling', 'OperationalError': 'EOperational', 'AssertionError': 'EAssertion',
       'AttributeError': 'EAttribute', 'IndexError': 'EBadHandle', 'DuplicateEntryError': 'EDuplicate'}


def run_history(case, workdir):
    import inspect
    import sqlite3
    from sqlobject.sqlite.sqliteconnection import SQLiteConnection
    cfg = case['cfg']
    cls = row_class(cfg.get('lazy'), cfg.get('uniq'), cfg.get('nocache'))
    fn = os.path.join(workdir, 't.db')
    conn = SQLiteConnection(fn, timeout=0, cache=bool(cfg['cache']))
    conn.cache.kw.update(cullFrequency=cfg['freq'], cullFraction=cfg['frac'])
    cls._connection = conn
    cls.createTable()
    tx = conn.transaction()
    tx.cache.kw.update(cullFrequency=cfg['freq'], cullFraction=cfg['frac'])
    raw = sqlite3.connect(fn, timeout=0, isolation_level=None)
    state = {'log': []}
    orig = conn._executeRetry

    def wrapped(rawconn, cursor, query):
        side = 'T' if (tx._connection is not None and rawconn is tx._connection) else 'P'
        state['log'].append(abstract_sql(query, side))
        return orig(rawconn, cursor, query)
    conn._executeRetry = wrapped
    slots, out = [], []
    wrap_name = cls.__name__
    # can the code at hand bind a class METHOD to a connection (conn.Cls.get / trans.Cls.select)?  ConnWrapper.__getattr__ asks
    # inspect for the signature of the method; asked of the code, not of the interpreter
    from sqlobject.dbconnection import ConnWrapper
    try:
        ConnWrapper(cls, conn).get
        wrap_ok = True
    except AttributeError:
        wrap_ok = False

    def token(o):
        for i, s in enumerate(slots):
            if s is o:
                return i
        return None

    def C(side):
        return tx if side == 'T' else conn

    def do(op):
        t = op[0]
        if t in ('create', 'get') or (t == 'select' and op[3] is not None):
            n = len(slots)
            try:
                return do2(op)
            finally:
                if len(slots) == n:
                    slots.append(None)     # a failed slot-creating operation leaves its slot empty
        return do2(op)

    def do2(op):
        t = op[0]
        if t == 'create':
            side, via, a, b = op[1:5]
            if via:
                o = getattr(C(side), wrap_name)(a=a, b=b)
            elif side == 'T':
                o = cls(a=a, b=b, connection=tx)
            else:
                o = cls(a=a, b=b)
            tok = token(o)
            slots.append(o)
            return ['obj', o.id, tok]
        if t == 'get':
            side, via, i = op[1:4]
            if via:
                o = getattr(C(side), wrap_name).get(i)
            elif side == 'T':
                o = cls.get(i, connection=tx)
            else:
                o = cls.get(i)
            tok = token(o)
            slots.append(o)
            return ['obj', o.id, tok]
        if t == 'select':
            side, via, keep = op[1:4]
            if via:
                objs = list(getattr(C(side), wrap_name).select(orderBy='id'))
            elif side == 'T':
                objs = list(cls.select(orderBy='id', connection=tx))
            else:
                objs = list(cls.select(orderBy='id'))
            res = [[o.id, token(o)] for o in objs]
            if keep is not None:
                slots.append(objs[keep] if keep < len(objs) else None)
            del objs
            return ['objs', res]
        if t == 'count':
            if op[1] == 'T':
                return ['num', cls.select(connection=tx).count()]
            return ['num', cls.select().count()]
        if t in ('read', 'set', 'destroy', 'expire', 'sync', 'syncupdate', 'pickle'):
            o = slots[op[1]] if op[1] < len(slots) else None
            if o is None:
                raise IndexError('bad handle')
            if t == 'pickle':
                return pickled_state(o)
            if t == 'read':
                return ['val', getattr(o, COLS[op[2]])]
            if t == 'set':
                setattr(o, COLS[op[2]], op[3])
            elif t == 'destroy':
                o.destroySelf()
            elif t == 'expire':
                o.expire()
            elif t == 'sync':
                o.sync()
            elif t == 'syncupdate':
                o.syncUpdate()
            return ['none']
        if t == 'drop':
            if op[1] < len(slots):
                slots[op[1]] = None
            return ['none']
        if t == 'cull':
            f = C(op[1]).cache.caches.get(cls.__name__)
            if f is not None and conn.doCache:
                f.cull()
            return ['none']
        if t == 'commit':
            tx.commit(close=bool(op[1]))
            return ['none']
        if t == 'rollback':
            tx.rollback()
            return ['none']
        if t == 'begin':
            tx.begin()
            return ['none']
        raise ValueError('unknown op %r' % (op,))

    def table_of(c):
        rows = [[r[0], [r[1], r[2]]] for r in c.execute('SELECT id, a, b FROM %s ORDER BY id' % TABLE).fetchall()]
        seq = c.execute("SELECT seq FROM sqlite_sequence WHERE name = '%s'" % TABLE).fetchall()
        return [rows, (seq[0][0] if seq else 0) + 1]

    def view(o):
        if o is None:
            return None
        d = o.__dict__
        side = 'T' if d.get('_connection') is tx else 'P'
        vals = [['v', d['_SO_val_' + c]] if ('_SO_val_' + c) in d else ['absent'] for c in COLS]
        reg = C(side).cache.tryGet(o.id, cls) is o
        cv = d.get('_SO_createValues') or {}
        pend = [['v', cv[c]] if c in cv else ['absent'] for c in COLS]
        return [side, o.id, vals, bool(o.sqlmeta.expired), bool(o.sqlmeta._obsolete), bool(reg), pend, bool(o.sqlmeta.dirty)]

    def cache_view(c):
        f = c.cache.caches.get(cls.__name__)
        if f is None:
            return [[], [], 0, 0, False]
        strong = list(f.cache.keys()) if f.doCache else []
        weak = [k for k, r in list(f.expiredCache.items()) if r() is not None]
        return [strong, weak, f.cullCount, f.cullOffset, True]

    try:
        for op in case['ops']:
            state['log'] = []
            raised = False
            try:
                r = ['ret', do(op)]
            except Exception as e:  # noqa
                name = type(e).__name__
                if name == 'PicklingError' and 'per-instance connection' not in str(e):
                    name = 'PicklingError(%s)' % e       # pickle's own refusal (class not importable ...): not SQLObject's
                r = ['exc', EXC.get(name, 'OTHER:' + name)]
                raised = True
            if raised:
                # frames of the failed call may sit in a young reference cycle (exception <-> frame); the
                # youngest generation is enough and costs a fraction of a full collection
                gc.collect(0)
            pend = None
            if not tx._obsolete and tx._connection is not None and tx._connection.in_transaction:
                pend = table_of(tx._connection)
            out.append({'out': r, 'log': list(state['log']), 'committed': table_of(raw), 'pending': pend,
                        'deleted': list(tx._deletedCache.get(cls.__name__, [])), 'tobs': bool(tx._obsolete),
                        'slots': [view(o) for o in slots], 'caches': [cache_view(conn), cache_view(tx)]})
    finally:
        conn._executeRetry = orig
        slots[:] = []
        try:
            tx.rollback()
        except Exception:  # noqa
            pass
        conn.cache.clear()
        tx.cache.clear()
        raw.close()
        try:
            conn.close()
        except Exception:  # noqa
            pass
    return {'wrap': wrap_ok, 'steps': out}


def run_impl(cases):
    res = []
    for c in cases:
        _counter[0] += 1
        work = os.path.join(os.path.dirname(os.path.dirname(os.path.dirname(os.path.abspath(__file__)))), '.work',
                            'c07_%d_%d' % (os.getpid(), _counter[0]))
        os.makedirs(work, exist_ok=True)
        try:
            res.append(run_history(c, work))
        except Exception as e:  # noqa
            res.append({'crash': '%s: %s' % (type(e).__name__, e)})
        finally:
            shutil.rmtree(work, ignore_errors=True)
    return res


# ------------------------------------------------------------------ Coq emission
def z(n):
    return '(%d)' % n if n < 0 else '%d' % n


def cval(v):
    return 'None' if v is None else '(Some %s)' % z(int(v))


def cside(s):
    return 'Txn' if s == 'T' else 'Par'


def cb(x):
    return 'true' if x else 'false'


def cop(op):
    t = op[0]
    if t == 'create':
        return '(OCreate %s %s %s %s)' % (cside(op[1]), cb(op[2]), cval(op[3]), cval(op[4]))
    if t == 'get':
        return '(OGet %s %s %s)' % (cside(op[1]), cb(op[2]), z(op[3]))
    if t == 'select':
        return '(OSelect %s %s %s)' % (cside(op[1]), cb(op[2]), 'None' if op[3] is None else '(Some %d%%nat)' % op[3])
    if t == 'count':
        return '(OCount %s)' % cside(op[1])
    if t == 'read':
        return '(ORead %d%%nat %d%%nat)' % (op[1], op[2])
    if t == 'set':
        return '(OSet %d%%nat %d%%nat %s)' % (op[1], op[2], cval(op[3]))
    if t in ('destroy', 'expire', 'sync', 'syncupdate', 'pickle', 'drop'):
        return '(%s %d%%nat)' % ({'destroy': 'ODestroy', 'expire': 'OExpire', 'sync': 'OSync', 'syncupdate': 'OSyncUpdate', 'pickle': 'OPickle',
                                  'drop': 'ODrop'}[t], op[1])
    if t == 'cull':
        return '(OCull %s)' % cside(op[1])
    if t == 'commit':
        return '(OCommit %s)' % cb(op[1])
    if t == 'rollback':
        return 'ORollback'
    if t == 'begin':
        return 'OBegin'
    raise ValueError(op)


def ctok(t):
    return 'None' if t is None else '(Some %d%%nat)' % t


NEVER = '(XRet (RNum (-777)))'     # an outcome the model never produces


def cout(r):
    if r[0] == 'exc':
        return '(XExc %s)' % r[1] if not r[1].startswith('OTHER') else NEVER
    v = r[1]
    if v[0] == 'none':
        return '(XRet RNone)'
    if v[0] == 'obj':
        return '(XRet (RObj %s %s))' % (z(v[1]), ctok(v[2]))
    if v[0] == 'objs':
        return '(XRet (RObjs [%s]))' % '; '.join('(%s, %s)' % (z(i), ctok(t)) for i, t in v[1])
    if v[0] == 'val':
        return '(XRet (RVal %s))' % cval(v[1]) if (v[1] is None or isinstance(v[1], int)) else NEVER
    if v[0] == 'num':
        return '(XRet (RNum %s))' % z(v[1])
    if v[0] == 'state':
        if v[3] or not isinstance(v[1], int) or any(x[0] == 'v' and not (x[1] is None or isinstance(x[1], int)) for x in v[2]):
            return NEVER
        return '(XRet (RState %s [%s]))' % (z(v[1]), '; '.join('None' if x[0] == 'absent' else '(Some %s)' % cval(x[1]) for x in v[2]))
    raise ValueError(r)


def cstmt(s):
    t = s[0]
    if t == 'insert':
        return '(SInsert %s)' % cside(s[1])
    if t == 'update':
        return '(SUpdate %s %s %d%%nat)' % (cside(s[1]), z(s[2]), s[3])
    if t == 'updatecols':
        return '(SUpdateCols %s %s [%s])' % (cside(s[1]), z(s[2]), '; '.join('%d%%nat' % c for c in s[3]))
    if t == 'delete':
        return '(SDelete %s %s)' % (cside(s[1]), z(s[2]))
    if t == 'selectone':
        return '(SSelectOne %s %s)' % (cside(s[1]), z(s[2]))
    if t == 'selectcol':
        return '(SSelectCol %s %s %d%%nat)' % (cside(s[1]), z(s[2]), s[3])
    if t == 'select':
        return '(SSelect %s)' % cside(s[1])
    if t == 'count':
        return '(SCount %s)' % cside(s[1])
    return '(SDelete Par (-999))'   # an unrecognised statement never matches the model


def ctab(t):
    return '([%s], %s)' % ('; '.join('(%s, [%s])' % (z(r[0]), '; '.join(cval(x) for x in r[1])) for r in t[0]), z(t[1]))


def cview(v):
    if v is None:
        return 'None'
    vals = '[%s]' % '; '.join('None' if x[0] == 'absent' else '(Some %s)' % cval(x[1]) for x in v[2])
    pend = '[%s]' % '; '.join('None' if x[0] == 'absent' else '(Some %s)' % cval(x[1]) for x in (v[6] if len(v) > 6 else [['absent']] * len(COLS)))
    return ('(Some {| v_side := %s; v_id := %s; v_vals := %s; v_expired := %s; v_obsolete := %s; v_reg := %s; v_pending := %s |})'
            % (cside(v[0]), z(v[1]), vals, cb(v[3]), cb(v[4]), cb(v[5]), pend))


def ccache(c):
    return '{| k_present := %s; k_strong := [%s]; k_weak := [%s]; k_count := %s; k_offset := %s |}' % (
        cb(c[4]), '; '.join(z(i) for i in c[0]), '; '.join(z(i) for i in c[1]), z(c[2]), z(c[3]))


def cobs(o):
    return ('{| o_out := %s; o_log := [%s]; o_committed := %s; o_pending := %s; o_deleted := [%s]; o_tobs := %s; '
            'o_slots := [%s]; o_caches := (%s, %s) |}' % (
                cout(o['out']), '; '.join(cstmt(s) for s in o['log']), ctab(o['committed']),
                'None' if o['pending'] is None else '(Some %s)' % ctab(o['pending']),
                '; '.join(z(i) for i in o['deleted']), cb(o['tobs']),
                '; '.join(cview(v) for v in o['slots']), ccache(o['caches'][0]), ccache(o['caches'][1])))


def ccfg(cfg, wrap):
    return '{| doCache := %s; cullFreq := %d; cullFrac := %d; wrapOk := %s; lazy := %s; uniq := %s; cacheVals := %s |}' % (
        cb(cfg['cache']), cfg['freq'], cfg['frac'], cb(wrap), cb(cfg.get('lazy')), cb(cfg.get('uniq')), cb(not cfg.get('nocache')))


def coq_case(case, obs):
    steps = '; '.join('(%s, %s)' % (cop(op), cobs(o)) for op, o in zip(case['ops'], obs['steps']))
    return '{| c_cfg := %s; c_steps := [%s] |}' % (ccfg(case['cfg'], obs.get('wrap', False)), steps)


# ------------------------------------------------------------------ oracle: the property, judged on the observations alone
INITIAL = {'out': ['ret', ['none']], 'log': [], 'committed': [[], 1], 'pending': None, 'deleted': [], 'tobs': False, 'slots': [],
           'caches': [[[], [], 0, 0, False], [[], [], 0, 0, False]]}


def rowmap(tab):
    return {r[0]: r[1] for r in tab[0]}


def cached_all(v):
    """{column: value} of the attributes the instance caches"""
    return {c: x[1] for c, x in enumerate(v[2]) if x[0] == 'v'}


def queued(v):
    """{column: value} of the assignments a lazyUpdate instance has queued and not written"""
    return {c: x[1] for c, x in enumerate(v[6]) if x[0] == 'v'} if len(v) > 6 else {}


def cached(v):
    """{column: value} of the cached attributes that speak about the database: those of columns with nothing queued (a queued
    value is what the program assigned and has not written yet)"""
    q = queued(v)
    return {c: x for c, x in cached_all(v).items() if c not in q}


NOCACHE = [False]      # the class of the case under judgement has cacheValues = False: nothing reads the attributes


def fresh(v, rows):
    """would every attribute read on this instance show the table?  (cached value = the row's; nothing cached for a missing row)"""
    if NOCACHE[0]:
        return True
    r = rows.get(v[1])
    cv = cached(v)
    if r is None:
        return not cv
    return all(r[c] == x for c, x in cv.items())


def view_rows(obs, side):
    """the rows the connection of that side reads"""
    if side == 'T' and obs['pending'] is not None:
        return rowmap(obs['pending'])
    return rowmap(obs['committed'])


def op_side(op, before):
    t = op[0]
    if t in ('create', 'get', 'select', 'count', 'cull'):
        return op[1]
    if t in ('commit', 'rollback', 'begin'):
        return 'T'
    h = op[1]
    v = before['slots'][h] if h < len(before['slots']) else None
    return v[0] if v is not None else None


def oracle(case, obs):
    """the first failure that no finding explains, else the first explained one"""
    known = None
    for f in failures(case, obs):
        if classify(case, obs, f) is None:
            return f
        known = known or f
    return known


def failures(case, obs):
    steps = obs['steps']
    before = INITIAL
    NOCACHE[0] = bool(case['cfg'].get('nocache'))
    created_in_tx = []          # ids created through the transaction since its last commit / rollback
    for k, (op, cur) in enumerate(zip(case['ops'], steps)):
        f = judge(k, op, before, cur, created_in_tx, case.get('cfg'))
        if f:
            yield f
        t = op[0]
        if t == 'create' and op[1] == 'T' and cur['out'][0] == 'ret':
            created_in_tx.append(cur['out'][1][1])
        if t in ('commit', 'rollback'):
            created_in_tx = []
        before = cur


def fail(k, op, what, **kw):
    d = {'step': k, 'op': op, 'what': what}
    d.update(kw)
    return d


def judge(k, op, before, cur, created_in_tx, cfg=None):
    cfg = cfg or {}
    t = op[0]
    side = op_side(op, before)
    rows0, rows1 = rowmap(before['committed']), rowmap(cur['committed'])
    out = cur['out']
    for h, v in enumerate(cur['slots']):
        if v is not None and len(v) > 7 and v[7] != bool(queued(v)):
            return fail(k, op, 'sqlmeta.dirty is not "something is queued"', kind='harness_assumption', slot=h, instance=v)
    # ---- a lazyUpdate class: an assignment is queued on the instance, nothing is sent; syncUpdate writes exactly the queue
    if cfg.get('lazy') and t == 'set' and side in ('P', 'T'):
        if out != ['ret', ['none']] or cur['log'] or cur['committed'] != before['committed'] or cur['pending'] != before['pending']:
            return fail(k, op, 'an assignment to a lazyUpdate instance did more than queue the value', kind='lazy_set', out=out, log=cur['log'])
    if t == 'syncupdate' and side in ('P', 'T') and out[0] == 'ret':
        v0, v1 = before['slots'][op[1]], cur['slots'][op[1]]
        q0 = queued(v0)
        was = view_rows(before, side).get(v0[1])
        now = view_rows(cur, side).get(v0[1])
        want = None if was is None else [q0.get(c, x) for c, x in enumerate(was)]
        if now != want:
            return fail(k, op, 'syncUpdate did not write exactly the queued assignments', kind='sync_update', expected=want, actual=now)
        if queued(v1):
            return fail(k, op, 'syncUpdate returned and left assignments queued', kind='sync_update', instance=v1)
        if not q0 and cur['log']:
            return fail(k, op, 'syncUpdate with nothing queued sent a statement', kind='sync_update', log=cur['log'])
    # ---- pickling.  An instance obtained through the transaction is bound to an explicit connection: refused, and NOTHING else
    #      happens (no flush of its queue, no statement, every observable exactly as before); a parent-side instance is accepted:
    #      a lazyUpdate instance writes its queue first (one UPDATE, like syncUpdate), anything else sends nothing
    if t == 'pickle' and side == 'T':
        if out != ['exc', 'EPickling']:
            return fail(k, op, 'pickling an instance bound to the transaction was not refused with PicklingError', kind='pickle_refused', actual=out)
        if cur['log']:
            return fail(k, op, 'a refused pickle sent a statement', kind='pickle_refused', log=cur['log'])
        for what in ('committed', 'pending', 'deleted', 'tobs', 'slots', 'caches'):
            if cur[what] != before[what]:
                return fail(k, op, 'a refused pickle changed the state (%s)' % what, kind='pickle_refused', expected=before[what], actual=cur[what])
    if t == 'pickle' and side == 'P':
        v0, v1 = before['slots'][op[1]], cur['slots'][op[1]]
        q0 = queued(v0) if cfg.get('lazy') else {}
        if out == ['exc', 'EPickling']:
            return fail(k, op, 'pickling an instance of the class connection was refused', kind='pickle_accepted')
        if not q0:
            if out[0] != 'ret' or cur['log'] or any(cur[w] != before[w] for w in ('committed', 'pending', 'deleted', 'tobs', 'slots', 'caches')):
                return fail(k, op, 'pickling an instance with nothing queued did something', kind='pickle_accepted', out=out, log=cur['log'])
        elif out[0] == 'ret':
            was = rows0.get(v0[1])
            want = None if was is None else [q0.get(c, x) for c, x in enumerate(was)]
            if rows1.get(v0[1]) != want or queued(v1) or len(cur['log']) != 1:
                return fail(k, op, 'pickling a lazyUpdate instance did not write exactly its queued assignments first', kind='pickle_accepted',
                            expected=want, actual=rows1.get(v0[1]), log=cur['log'], instance=v1)
        else:
            # the flush was refused: by the transaction's write lock or by the UNIQUE column; the queue stays
            if not ((out[1] == 'EOperational' and before['pending'] is not None) or (out[1] == 'EDuplicate' and cfg.get('uniq'))):
                return fail(k, op, 'pickling a parent-side instance raised %s' % out[1], kind='pickle_accepted')
            if cur['committed'] != before['committed'] or queued(v1) != q0:
                return fail(k, op, 'a pickle whose flush was refused changed the table or lost the queue', kind='pickle_accepted')
        if out[0] == 'ret' and (out[1][0] != 'state' or out[1][1] != v0[1] or out[1][2] != v0[2] or out[1][3]):
            return fail(k, op, 'the pickled state is not the id and the column attributes of the instance', kind='pickle_accepted',
                        expected=[v0[1], v0[2]], actual=out[1])
    # ---- a statement the UNIQUE column refuses changes nothing: the transaction keeps what it did and stays open
    if out == ['exc', 'EDuplicate']:
        if not cfg.get('uniq'):
            return fail(k, op, 'DuplicateEntryError without a UNIQUE column', kind='refused_statement')
        if cur['committed'] != before['committed']:
            return fail(k, op, 'a refused statement changed the committed table', kind='refused_statement')
        if side == 'T':
            want = before['pending'] if before['pending'] is not None else before['committed']
            if cur['tobs'] or cur['pending'] != want:
                return fail(k, op, 'a statement refused inside the transaction lost what the transaction had done, or ended it',
                            kind='refused_statement', expected=want, actual=cur['pending'], tobs=cur['tobs'])
        elif cur['pending'] != before['pending']:
            return fail(k, op, "a statement refused on the parent connection touched the transaction's view", kind='refused_statement')
        # ... and it is refused for a reason: the value is taken by another row of the view of that connection
        rows = view_rows(before, side)
        if t == 'create':
            taken = op[4] is not None and any(r[1] == op[4] for r in rows.values())
        else:
            v0 = before['slots'][op[1]]
            newb = op[3] if (t == 'set' and op[2] == 1) else queued(v0).get(1)
            taken = newb is not None and v0[1] in rows and any(r[1] == newb for i, r in rows.items() if i != v0[1])
        if not taken:
            return fail(k, op, 'a statement was refused although no other row carries that value', kind='refused_statement')
    # ---- invisible until commit: a transaction-side operation other than commit changes nothing the parent can see
    if side == 'T' and t != 'commit':
        if cur['committed'] != before['committed']:
            return fail(k, op, 'the committed table changed without a commit', kind='visible_before_commit',
                        expected=before['committed'], actual=cur['committed'])
        for h, v0 in enumerate(before['slots']):
            v1 = cur['slots'][h]
            if v0 is not None and v0[0] == 'P' and v1 is not None and v1 != v0:
                return fail(k, op, 'a parent-side instance changed through a transaction-side operation', kind='visible_before_commit',
                            slot=h, expected=v0, actual=v1)
        if cur['caches'][0] != before['caches'][0]:
            return fail(k, op, "the parent's cache changed through a transaction-side operation", kind='visible_before_commit')
    # ---- transaction-bound / connection-bound class access works: trans.Cls.get(id), conn.Cls.select() are the documented way
    #      to use a class with a connection other than its own
    if t in ('get', 'select') and op[2] and out == ['exc', 'EAttribute']:
        return fail(k, op, 'method access through a connection-bound class (conn.Cls.get / trans.Cls.select) raises AttributeError',
                    kind='wrapper_access')
    # ---- every parent-side access to the database shows the committed table
    if side == 'P':
        if t == 'select' and not op[2] and out[0] == 'ret':
            if [i for i, _ in out[1][1]] != sorted(rows1):
                return fail(k, op, 'a parent-side select does not return the committed rows', kind='parent_read',
                            expected=sorted(rows1), actual=[i for i, _ in out[1][1]])
            # (an instance with assignments queued is handed out as it is -- the fetched row does not overwrite the queue --, so
            # the select says nothing new about it)
            if op[3] is not None and cur['slots'][-1] is not None and not queued(cur['slots'][-1]) and not (
                    fresh(cur['slots'][-1], rows1) and len(cached_all(cur['slots'][-1])) == 2):
                return fail(k, op, 'an instance returned by a parent-side select does not show its committed row', kind='parent_read')
        if t == 'count' and out[0] == 'ret' and out[1][1] != len(rows1):
            return fail(k, op, 'a parent-side count differs from the committed table', kind='parent_read',
                        expected=len(rows1), actual=out[1][1])
        if t == 'get' and not op[2]:
            if out == ['exc', 'ENotFound'] and op[3] in rows1:
                return fail(k, op, 'parent-side get raises not-found for a committed row', kind='parent_read')
            if out[0] == 'ret' and out[1][2] is None and op[3] not in rows1 and not was_cached(before, 'P', op[3]):
                return fail(k, op, 'parent-side get returns a row that is not committed', kind='parent_read')
    # ---- a select through the transaction returns the rows of the transaction's own view (its uncommitted work included)
    if side == 'T' and t == 'select' and not op[2] and out[0] == 'ret':
        want = sorted(view_rows(before, 'T'))
        if [i for i, _ in out[1][1]] != want:
            return fail(k, op, "a select through the transaction does not return the rows of the transaction's view", kind='txn_read',
                        expected=want, actual=[i for i, _ in out[1][1]])
    if cfg.get('nocache') and t == 'read' and side in ('P', 'T'):
        # cacheValues = False: every read is a query of the instance's own connection
        v0 = before['slots'][op[1]]
        r = view_rows(before, side).get(v0[1])
        if side == 'T' and before['tobs']:
            want = ['exc', 'EAssertion']
        else:
            want = ['exc', 'EAssertion'] if (r is None or v0[4]) else ['ret', ['val', r[op[2]]]]
        if out != want:
            return fail(k, op, 'a read of a class without cached values is not the value in the database as its connection sees it',
                        kind='parent_read' if side == 'P' else 'txn_read', expected=want, actual=out)
    elif side == 'P' and t == 'read':
        v0 = before['slots'][op[1]]
        if op[2] not in cached_all(v0):          # a reload
            r = rows1.get(v0[1])
            want = ['exc', 'ENotFound'] if r is None else ['ret', ['val', queued(v0).get(op[2], r[op[2]])]]
            if out != want:
                return fail(k, op, 'a parent-side instance reloads something else than the committed row', kind='parent_read',
                            expected=want, actual=out)
        elif out != ['ret', ['val', cached_all(v0)[op[2]]]]:
            return fail(k, op, 'a read does not return the cached attribute', kind='harness_assumption')
    # ---- a row that does not exist raises not-found -- also the next time: the failed get leaves nothing behind that a
    #      later get of that id would hand out
    if t == 'get' and not op[2] and side in ('P', 'T') and out == ['exc', 'ENotFound']:
        if was_cached(cur, side, op[3]) and not was_cached(before, side, op[3]):
            return fail(k, op, 'a get that raised not-found left an instance of that id in the cache: the next get will hand it out',
                        kind='phantom_after_not_found')
    # ---- the write lock goes with the uncommitted changes: without them the parent connection can write
    if side == 'P' and out == ['exc', 'EOperational'] and before['pending'] is None:
        return fail(k, op, 'a parent-side write was refused although the transaction holds no uncommitted change', kind='lock_leak')
    # ---- commit: the database takes the transaction's view; no parent-side instance is left stale
    if t == 'commit' and not before['tobs'] and op[1] and out[0] == 'ret' and not (cur['tobs'] and cur['pending'] is None):
        return fail(k, op, 'commit(close=True) did not finish the transaction', kind='commit_close')
    if t == 'commit' and not before['tobs']:
        want = before['pending'] if before['pending'] is not None else before['committed']
        if cur['committed'] != want:
            return fail(k, op, "the committed table after commit is not the transaction's view", kind='commit_db',
                        expected=want, actual=cur['committed'])
        if out[0] == 'exc':
            return fail(k, op, 'commit raised %s after the database commit' % out[1], kind='commit_raised', exc=out[1])
        if cfg.get('cache'):
            # a row deleted in the committed transaction: the parent's cache hands out no instance of it any more
            # (with cache=False, CacheFactory.expire() leaves the weak entry: an instance whose reads raise not-found)
            left = [i for i in before['deleted'] if i not in rows1 and was_cached(before, 'P', i) and was_cached(cur, 'P', i)]
            if left:
                return fail(k, op, "the parent's cache still hands out an instance of a row the committed transaction deleted",
                            kind='cached_after_commit', ids=left)
        for h, v0 in enumerate(before['slots']):
            v1 = cur['slots'][h]
            if v0 is None or v0[0] != 'P' or v1 is None or v0[4]:
                continue
            if fresh(v0, rows0) and not fresh(v1, rows1):
                return fail(k, op, 'a parent-side instance keeps a stale cached value after commit', kind='stale_after_commit',
                            slot=h, instance=v1, row=rows1.get(v1[1]))
    # ---- rollback: the database is unchanged, rows created in the transaction are gone, its instances will show the old state
    if t == 'rollback' and not before['tobs']:
        if cur['committed'] != before['committed']:
            return fail(k, op, 'rollback changed the committed table', kind='rollback_db')
        if out[0] == 'exc':
            return fail(k, op, 'rollback raised %s' % out[1], kind='rollback_raised', exc=out[1])
        if cur['pending'] is not None or not cur['tobs']:
            return fail(k, op, 'the transaction is still open after rollback', kind='rollback_db')
        gone = [i for i in created_in_tx if i in rows1]
        if gone:
            return fail(k, op, 'a row created in the rolled-back transaction exists', kind='rollback_db', ids=gone)
        if cfg.get('cache'):
            left = [i for i in created_in_tx if was_cached(before, 'T', i) and was_cached(cur, 'T', i)]
            if left:
                return fail(k, op, "the transaction's cache still hands out an instance of a row created in the rolled-back transaction",
                            kind='cached_after_rollback', ids=left)
        for h, v1 in enumerate(cur['slots']):
            v0 = before['slots'][h]
            if v1 is not None and v1[0] == 'T' and not v1[4] and v0 is not None and v0[5] and queued(v1):
                return fail(k, op, 'an assignment queued in the rolled-back transaction survives the rollback (syncUpdate would write it)',
                            kind='queue_after_rollback', slot=h, instance=v1)
        for h, v1 in enumerate(cur['slots']):
            if v1 is None or v1[0] != 'T' or v1[4]:
                continue
            if not fresh(v1, rows1):
                return fail(k, op, 'a transaction-side instance keeps a value of the rolled-back transaction', kind='stale_after_rollback',
                            slot=h, instance=v1, row=rows1.get(v1[1]))
    # ---- a finished transaction refuses use
    if side == 'T' and before['tobs'] and t not in ('begin', 'commit', 'rollback', 'drop', 'cull', 'expire'):
        needs = t in ('create', 'select', 'count', 'destroy', 'sync') or (t == 'set' and not cfg.get('lazy')) or \
            (t == 'syncupdate' and bool(queued(before['slots'][op[1]])))
        if t == 'get':
            needs = op[2] or not was_cached(before, 'T', op[3])
        if t == 'read':
            needs = bool(cfg.get('nocache')) or op[2] not in cached_all(before['slots'][op[1]])
        if needs and out != ['exc', 'EAssertion']:
            return fail(k, op, 'a finished transaction accepted an operation that needs the database', kind='obsolete_used', actual=out)
        if cur['committed'] != before['committed'] or cur['pending'] is not None:
            return fail(k, op, 'a finished transaction touched the database', kind='obsolete_used')
        if cur['log']:
            return fail(k, op, 'a finished transaction sent a statement', kind='obsolete_used', log=cur['log'])
    if t == 'begin' and before['tobs'] and (out[0] != 'ret' or cur['tobs']):
        return fail(k, op, 'begin() did not reopen the finished transaction', kind='begin')
    return None


def was_cached(before, side, i):
    c = before['caches'][0 if side == 'P' else 1]
    return i in c[0] or i in c[1]


def classify(case, obs, f):
    """map a failure to an open finding by its trigger, read off the state BEFORE the failing commit/rollback"""
    k = f.get('step')
    if k is None:
        return None
    before = obs['steps'][k - 1] if k > 0 else INITIAL
    kind = f.get('kind')
    if kind == 'wrapper_access':
        return 'connwrapper_method_access_raises'
    if kind in ('stale_after_commit', 'commit_raised'):
        own, walked = 0, set(before['caches'][1][0]) | set(before['caches'][1][1]) | set(before['deleted'])
    elif kind in ('stale_after_rollback', 'rollback_raised'):
        own, walked = 1, set(before['caches'][1][0]) | set(before['caches'][1][1])
    else:
        return None
    side = 'P' if own == 0 else 'T'
    if kind in ('commit_raised', 'rollback_raised'):
        return None          # expire_raises_on_attributeless_instance is fixed (1aded16): commit/rollback must not raise
    v = before['slots'][f['slot']]
    if v[3] and cached(v) and not case['cfg'].get('lazy'):
        # flagged expired yet caching: expire_skips_flagged_instance, fixed in 3f1b5b1 (an eager assignment on a flagged instance
        # caches nothing).  A lazyUpdate instance does cache what it queues, flagged or not, and keeps it after syncUpdate
        return None
    if not v[5]:
        # the findings are about instances that an expire() -- explicit, or of a commit / rollback, or the purge of a
        # destroySelf / the registration of a re-used id -- REMOVED from their cache; the harness saw when that happened
        op = unregistered_at(case, obs, f['slot'], k)
        if op is None or op[0] not in ('expire', 'commit', 'rollback', 'destroy', 'create'):
            return None
        return 'commit_misses_purged_parent_instance' if own == 0 else 'rollback_misses_purged_instance'
    if v[1] not in walked:
        # the finding is about rows UPDATED through an instance the transaction's cache has lost; a row deleted in the
        # transaction must be in _deletedCache, so a miss there is something else.  And the cache must have lost the id
        # in one of the ways the finding names (reference dropped, expire(), rollback, cull)
        if own != 0 or f.get('row') is None:
            return None
        op = left_txn_cache_at(case, obs, v[1], k)
        if op is None or op[0] not in ('drop', 'expire', 'rollback', 'cull', 'get', 'select', 'create', 'destroy'):
            return None
        return 'commit_forgets_uncached_row'
    return None


def unregistered_at(case, obs, slot, k):
    """the operation at which the object held in `slot` stopped being handed out by its connection's cache (last change of
    its observed 'registered' flag from True to False before step k); None if it never was registered"""
    last, prev = None, None
    for j in range(k):
        sl = obs['steps'][j]['slots']
        v = sl[slot] if slot < len(sl) else None
        if v is None:
            continue
        if prev is True and not v[5]:
            last = case['ops'][j]
        prev = bool(v[5])
    return last


def left_txn_cache_at(case, obs, i, k):
    """the operation at which id i last left the transaction's cache (strong keys + live weak ids) before step k"""
    last, prev = None, False
    for j in range(k):
        c = obs['steps'][j]['caches'][1]
        now = i in c[0] or i in c[1]
        if prev and not now:
            last = case['ops'][j]
        prev = now
    return last


def nontrivial(case, obs):
    held_parent = False
    for op, o in zip(case['ops'], [INITIAL] + obs['steps'][:-1]):
        if any(v is not None and v[0] == 'P' for v in o['slots']):
            held_parent = True
        if op[0] in ('commit', 'rollback') and o['pending'] is not None and held_parent:
            return True
    return False


def key(case):
    return [case['cfg'], case['ops']]


def distribution(cases, obs):
    d = {'ops': {}, 'outcomes': {}, 'cache': {'True': 0, 'False': 0}, 'commit_with_changes': 0, 'rollback_with_changes': 0,
         'parent_write_locked': 0, 'use_after_finish': 0, 'lengths': {}, 'auto_cull_configs': 0,
         'lazy_configs': 0, 'uniq_configs': 0, 'nocache_configs': 0, 'nocache_commit_deleting_a_cached_parent_row': 0, 'commit_with_dirty_parent_instance': 0, 'commit_with_dirty_parent_instance_of_changed_row': 0,
         'refused_in_transaction_with_earlier_work': 0, 'refused_on_parent': 0, 'sync_updates_written': 0,
         'pickle_refused': 0, 'pickle_refused_with_queue': 0, 'pickle_refused_finished_transaction': 0, 'pickle_accepted': 0,
         'pickle_flushed_queue': 0, 'pickle_flush_refused': 0}
    for c, o in zip(cases, obs):
        if not isinstance(o, dict) or 'steps' not in o:
            continue
        d['cache'][str(bool(c['cfg']['cache']))] += 1
        if c['cfg']['freq'] < 100:
            d['auto_cull_configs'] += 1
        if c['cfg'].get('lazy'):
            d['lazy_configs'] += 1
        if c['cfg'].get('uniq'):
            d['uniq_configs'] += 1
        if c['cfg'].get('nocache'):
            d['nocache_configs'] += 1
        L = str(10 * (len(c['ops']) // 10))
        d['lengths'][L] = d['lengths'].get(L, 0) + 1
        prev = INITIAL
        for op, s in zip(c['ops'], o['steps']):
            name = op[0] + ('/' + op[1] if op[0] in ('create', 'get', 'select', 'count', 'cull') else '')
            d['ops'][name] = d['ops'].get(name, 0) + 1
            oc = s['out'][1] if s['out'][0] == 'exc' else 'ret'
            d['outcomes'][oc] = d['outcomes'].get(oc, 0) + 1
            if op[0] == 'commit' and prev['pending'] is not None:
                d['commit_with_changes'] += 1
            if op[0] == 'commit' and not prev['tobs'] and c['cfg'].get('nocache') and any(was_cached(prev, 'P', i) for i in prev['deleted']):
                d['nocache_commit_deleting_a_cached_parent_row'] += 1
            if op[0] == 'commit' and not prev['tobs']:
                dirty = [v for v in prev['slots'] if v is not None and v[0] == 'P' and not v[4] and queued(v)]
                if dirty:
                    d['commit_with_dirty_parent_instance'] += 1
                    if prev['pending'] is not None and any(rowmap(prev['pending']).get(v[1]) != rowmap(prev['committed']).get(v[1]) for v in dirty):
                        d['commit_with_dirty_parent_instance_of_changed_row'] += 1
            if s['out'] == ['exc', 'EDuplicate']:
                sd = op_side(op, prev)
                if sd == 'T' and prev['pending'] is not None and prev['pending'] != prev['committed']:
                    d['refused_in_transaction_with_earlier_work'] += 1
                elif sd == 'P':
                    d['refused_on_parent'] += 1
            if op[0] == 'syncupdate' and s['out'][0] == 'ret' and s['log']:
                d['sync_updates_written'] += 1
            if op[0] == 'pickle':
                v0 = prev['slots'][op[1]] if op[1] < len(prev['slots']) else None
                if s['out'] == ['exc', 'EPickling']:
                    d['pickle_refused'] += 1
                    if v0 is not None and queued(v0):
                        d['pickle_refused_with_queue'] += 1
                    if prev['tobs']:
                        d['pickle_refused_finished_transaction'] += 1
                elif s['out'][0] == 'ret':
                    d['pickle_accepted'] += 1
                    if s['log']:
                        d['pickle_flushed_queue'] += 1
                elif s['log']:
                    d['pickle_flush_refused'] += 1
            if op[0] == 'rollback' and prev['pending'] is not None:
                d['rollback_with_changes'] += 1
            if s['out'] == ['exc', 'EOperational']:
                d['parent_write_locked'] += 1
            if prev['tobs'] and s['out'] == ['exc', 'EAssertion'] and op[0] != 'begin':
                d['use_after_finish'] += 1
            prev = s
    return d


def explain(case, obs):
    return 'cfg %r; %d operations; last observation %r' % (case['cfg'], len(case['ops']), obs['steps'][-1] if obs.get('steps') else obs)
